"""C06 — views address exactly the elements their index expressions denote.

proof:  lean/AdeptProofs/Props/C06.lean (address / rank / extent theorem per operation, composition over a list of
        operations, containment in the parent and in the allocation, rejection in the bounds-checked build,
        is_contiguous) over the model lean/AdeptModel/Views.lean.
tie:    hand-written model  <->  Array::operator()(int / end-k / range / stride / __), subset, operator[], T, permute,
        diag_vector, submatrix_on_diagonal, reshape, soft_link, is_contiguous, executed by harness/drv_views*.cpp on
        Array<r,int>, r = 1..5 (row- and column-major parents holding their own cell numbers).  After every
        operation: rank, extents, offsets, data()-parent.data(), every element (read through operator()), then a
        write of fresh values through the view and a diff of the whole parent allocation; compared exactly with the
        model.  Two builds: default (admissible arguments only) and -DADEPT_BOUNDS_CHECKING (also a malformed stream
        that puts an out-of-range value in every argument position).
oracle: the composed index map evaluated element by element in Python (a view is the list of parent cells it
        denotes; no base/stride arithmetic, no use of the Lean model), judged against the implementation's output.
"""
import os, json, itertools, threading
import vbuild, vcheck

LEVEL = "proof"
NS = "Adept.Views."
REQUIRED = ["C06_slice_addr", "C06_slice_rank", "C06_range_extent", "C06_subset_addr", "C06_sub1_addr", "C06_T_addr",
            "C06_permute_addr", "C06_diag_addr", "C06_subdiag_addr", "C06_reshape_addr", "C06_softlink_addr",
            "C06_compose_addr", "C06_within_parent", "C06_cells_subset", "C06_within_allocation",
            "C06_checked_rejects", "C06_checked_rejects_sub1", "C06_checked_rejects_subset", "C06_checked_accepts",
            "C06_within_parent_checked", "C06_is_contiguous_iff"]
H = os.path.join(vbuild.VERIF, "harness")
DRIVERS = [os.path.join(H, f) for f in ("drv_views.cpp", "drv_views_r4.cpp", "drv_views_r5.cpp",
                                        "drv_views_r5i.cpp", "drv_views_r5e.cpp")]
CORR = "AdeptModel/Views.lean <-> Array view-forming member functions (harness/drv_views.cpp)"


# ====================================================================== oracle: views as lists of parent cells
class OV:
    """a view = extents + the parent cell of every element, in index order (last index fastest)"""
    __slots__ = ("dims", "cells", "null")

    def __init__(self, dims, cells, null=False):
        self.dims, self.cells, self.null = list(dims), list(cells), null

    def at(self, ix):
        k = 0
        for i, d in zip(ix, self.dims):
            k = k * d + i
        return self.cells[k]


def parent_view(order, dims):
    n = 1
    for d in dims:
        n *= d
    if order == "rm":
        return OV(dims, range(n))
    cells = []
    for ix in itertools.product(*[range(d) for d in dims]):   # column-major: first index fastest in memory
        c, m = 0, 1
        for i, d in zip(ix, dims):
            c += i * m
            m *= d
        cells.append(c)
    return OV(dims, cells)


def tok(t, length):
    """E = k | eK (end - K)"""
    if t.startswith("e"):
        return length - 1 - int(t[1:])
    return int(t)


def cdiv(a, b):
    q = abs(a) // abs(b)
    return q if (a >= 0) == (b > 0) else -q


UNDEF = ("undef",)   # the C++ has no meaningful result; never generated, never judged


def sel_range(b, e, s, length, checked):
    """indices denoted by stride(b,e,s) in a dimension of this length"""
    if checked and not (0 <= b < length and 0 <= e < length):
        return "index_out_of_bounds"
    if s == 0 or cdiv(e + s - b, s) < 0:
        return UNDEF
    if not checked and not (0 <= b < length and 0 <= e < length):
        return UNDEF
    return list(range(b, e + (1 if s > 0 else -1), s))


def gather(v, sels, drop):
    """new view whose element (i0,i1,..) is v[sels[0][i0], sels[1][i1], ..]; dimensions in `drop` are removed"""
    nd = [len(s) for s, dr in zip(sels, drop) if not dr]
    cells = [v.at(ix) for ix in itertools.product(*sels)]
    return OV(nd, cells)


def oracle_apply(v, w, checked):
    """-> ('ok', OV) | ('err', class) | ('bad',) | ('null',) | UNDEF       (documented semantics, element by element)"""
    if v is None or v.null:
        return ("bad",)
    r = len(v.dims)
    op = w[0]
    try:
        if r == 0:
            return ("bad",)
        if op == "slice" or op == "subset":
            args = w[1:]
            if op == "subset":
                if len(args) != 2 * r:
                    return ("bad",)
                args = ["r:%s,%s" % (args[2 * k], args[2 * k + 1]) for k in range(r)]
            if len(args) != r:
                return ("bad",)
            sels, drop = [], []
            undef = False
            for a, L in zip(args, v.dims):
                if a == "_":
                    sels.append(list(range(L))); drop.append(False)
                elif a.startswith("i:"):
                    j = tok(a[2:], L)
                    if not 0 <= j < L:
                        if checked:
                            return ("err", "index_out_of_bounds") if not undef else UNDEF
                        undef = True
                    sels.append([j]); drop.append(True)
                else:
                    p = a[2:].split(",")
                    b, e = tok(p[0], L), tok(p[1], L)
                    s = int(p[2]) if a.startswith("s:") else 1
                    x = sel_range(b, e, s, L, checked)
                    if x == "index_out_of_bounds":
                        return ("err", x) if not undef else UNDEF
                    if x is UNDEF:
                        undef = True
                        x = []
                    sels.append(x); drop.append(False)
            if undef:
                return UNDEF
            return ("ok", gather(v, sels, drop))
        if op == "idx" and len(w) == 2:
            j = tok(w[1], v.dims[0])
            if not 0 <= j < v.dims[0]:
                return ("err", "index_out_of_bounds") if checked else UNDEF
            return ("ok", gather(v, [[j]] + [list(range(d)) for d in v.dims[1:]], [True] + [False] * (r - 1)))
        if op == "T" and len(w) == 1:
            if r != 2:
                return ("bad",)
            return ("ok", OV([v.dims[1], v.dims[0]], [v.at((j, i)) for i in range(v.dims[1]) for j in range(v.dims[0])]))
        if op == "permute":
            p = [int(x) for x in w[1:]]
            if len(p) != r:
                return ("bad",)
            if v.dims[0] == 0:
                return ("err", "empty_array")
            if any(not 0 <= x < r for x in p):
                return ("err", "invalid_dimension")
            nd = [v.dims[x] for x in p]
            if 0 in nd:
                return ("err", "invalid_dimension")
            if sorted(p) != list(range(r)):
                return UNDEF          # "each dimension must be provided once only"
            cells = []
            for ix in itertools.product(*[range(d) for d in nd]):
                jx = [0] * r
                for i, x in zip(ix, p):
                    jx[x] = i
                cells.append(v.at(jx))
            return ("ok", OV(nd, cells))
        if op == "diag" and len(w) == 2:
            if r != 2:
                return ("bad",)
            k = int(w[1])
            if v.dims[0] == 0:
                return ("null",)
            if v.dims[0] != v.dims[1]:
                return ("err", "invalid_operation")
            n = v.dims[0]
            if abs(k) > n:
                return UNDEF
            return ("ok", OV([n - abs(k)], [v.at((i, i + k) if k >= 0 else (i - k, i)) for i in range(n - abs(k))]))
        if op == "subdiag" and len(w) == 3:
            if r != 2:
                return ("bad",)
            b, e = int(w[1]), int(w[2])
            if v.dims[0] != v.dims[1]:
                return ("err", "invalid_operation")
            if b < 0 or b > e or e >= v.dims[0]:
                return ("err", "index_out_of_bounds")
            rr = list(range(b, e + 1))
            return ("ok", gather(v, [rr, rr], [False, False]))
        if op == "reshape":
            nd = [int(x) for x in w[1:]]
            if r != 1 or not 1 <= len(nd) <= 5:
                return ("bad",)
            n = 1
            for d in nd:
                n *= d
            if n != v.dims[0]:
                return ("err", "invalid_dimension")
            if any(d < 0 for d in nd):
                return UNDEF
            return ("ok", OV(nd, v.cells))
        if op == "softlink" and len(w) == 1:
            return ("ok", OV(v.dims, v.cells))
    except ValueError:
        return ("bad",)
    return ("bad",)


def parse_line(line):
    """'ok r=.. d=.. s=.. o=.. e=.. w=..' -> dict"""
    w = line.split(" ")
    if w[0] != "ok" or len(w) != 7:
        return None
    d = {}
    try:
        for t in w[1:]:
            k, x = t.split("=", 1)
            d[k] = x
        ints = lambda s: [int(x) for x in s.split(",")] if s else []
        out = {"r": int(d["r"]), "d": ints(d["d"]), "s": ints(d["s"]), "o": int(d["o"]), "e": ints(d["e"]), "w": {}}
        if d["w"]:
            for t in d["w"].split(";"):
                c, x = t.split(":")
                out["w"][int(c)] = int(x)
        return out
    except (KeyError, ValueError):
        return None


def packed(dims):
    s, e = [], 1
    for d in reversed(dims):
        s.append(e)
        e *= d
    return list(reversed(s))


def judge_view(v, line, vol):
    """compare one implementation line with the view the index expressions denote; None or a message"""
    o = parse_line(line)
    if o is None:
        return "expected a view, implementation answered %r" % line[:120]
    if o["r"] != len(v.dims):
        return "rank %d, the index expression denotes rank %d" % (o["r"], len(v.dims))
    if o["d"] != v.dims:
        return "extents %s, documented extents %s" % (o["d"], v.dims)
    if o["e"] != v.cells:
        k = next((i for i, (a, b) in enumerate(zip(o["e"], v.cells)) if a != b), min(len(o["e"]), len(v.cells)))
        return ("element number %d of the view reads parent cell %s, the index expression denotes cell %s"
                % (k, o["e"][k] if k < len(o["e"]) else "-", v.cells[k] if k < len(v.cells) else "-"))
    want = {}
    for j, c in enumerate(v.cells):
        want[c] = -(j + 1)
    if o["w"] != want:
        extra = sorted(set(o["w"]) - set(want))
        miss = sorted(set(want) - set(o["w"]))
        return ("writing through the view changed parent cells %s that it does not denote / left %s unchanged / stored "
                "wrong values" % (extra[:6], miss[:6]))
    if any(not 0 <= c < vol for c in o["e"]):
        return "view reads outside the parent allocation"
    if v.cells:
        if o["o"] != v.cells[0]:
            return "data() is parent cell %d but element (0,..,0) is cell %d" % (o["o"], v.cells[0])
        # offsets must reproduce the element addresses
        m = 1
        for k in range(len(v.dims) - 1, -1, -1):
            if v.dims[k] > 1 and o["s"][k] != v.cells[m] - v.cells[0]:
                return "offset(%d)=%d but consecutive elements along it are %d cells apart" % (k, o["s"][k], v.cells[m] - v.cells[0])
            m *= v.dims[k]
    return None


def oracle(lines_in, lines_out, checked):
    """judge one composition (list of op lines incl. the parent line) from the implementation's lines alone.
    returns (index, message) or None"""
    v, vol, last = None, 0, None
    for i, (op, out) in enumerate(zip(lines_in, lines_out)):
        w = op.split()
        if w[0] == "parent":
            dims = [int(x) for x in w[2:]]
            v = parent_view(w[1], dims)
            vol = len(v.cells)
            msg = judge_view(v, out, vol)
            if msg:
                return i, "fresh parent: " + msg
            last = parse_line(out)
            continue
        if w[0] == "contig":
            if v is None or v.null or not v.dims:
                exp = "bad-op"
            else:
                # is_contiguous() <=> the offsets the implementation itself reported are the packed row-major ones
                exp = "contig=%d" % (1 if last is not None and last["s"] == packed(last["d"]) else 0)
            if out != exp:
                return i, "is_contiguous(): implementation %r, offsets/extents of the view say %r" % (out, exp)
            continue
        res = oracle_apply(v, w, checked)
        if res is UNDEF:
            return None            # outside the property (never generated); stop judging this composition
        if res[0] == "bad":
            if out != "bad-op":
                return i, "operation does not exist for this rank, implementation answered %r" % out[:100]
        elif res[0] == "null":
            if out != "ok null":
                return i, "diag_vector of an empty matrix: expected an empty vector, got %r" % out[:100]
            v = OV([0], [], null=True)
        elif res[0] == "err":
            if out != "err " + res[1]:
                return i, "expected exception %s, implementation answered %r" % (res[1], out[:160])
        else:
            msg = judge_view(res[1], out, vol)
            if msg:
                return i, "%s: %s" % (w[0], msg)
            v = res[1]
            last = parse_line(out)
    return None


# ====================================================================== generators
class Gen:
    def __init__(self, rng, checked, malformed, depth, stats, contig=False, maxrank=5, pbad=0.3):
        self.rng, self.checked, self.malformed, self.depth, self.stats = rng, checked, malformed, depth, stats
        self.contig, self.maxrank, self.pbad = contig, maxrank, pbad
        # ranks of the parent: mostly low in the valid streams (more operations apply), uniform in the malformed one
        self.ranks = [1, 2, 3, 4, 5] if (malformed and pbad >= 0.3) else [1, 2, 2, 2, 3, 3, 4, 5]

    def count(self, key):
        self.stats[key] = self.stats.get(key, 0) + 1

    def parent(self):
        rng = self.rng
        r = rng.choice(self.ranks)
        cap = 240 if r <= 2 else 160
        while True:
            if r == 2 and rng.random() < 0.5:
                n = rng.randint(1, 7)
                dims = [n, n]
            elif r == 1:
                dims = [rng.choice([1, 2, 3, 4, 6, 8, 12, 16, 24, 30, 36, 60])]
            else:
                dims = [rng.randint(1, 6 if r <= 3 else 4) for _ in range(r)]
            n = 1
            for d in dims:
                n *= d
            if n <= cap:
                break
        order = "rm" if rng.random() < 0.75 else "cm"
        self.count("parent_rank_%d" % r)
        self.count("parent_" + order)
        return "parent %s %s" % (order, " ".join(map(str, dims))), parent_view(order, dims)

    def E(self, j, L):
        """write index j of a dimension of length L as k or end-K"""
        if self.rng.random() < 0.4:
            self.count("end_expr")
            return "e%d" % (L - 1 - j)
        return str(j)

    def bad_index(self, L):
        """an index outside 0..L-1, as a literal or through `end`"""
        rng = self.rng
        j = rng.choice([-1, L, L + 1, -2] if L > 0 else [0, -1, 1])
        side = "below" if j < 0 else "above"
        if rng.random() < 0.4:
            return "e%d" % (L - 1 - j), side + "/end"
        return str(j), side + "/int"

    def slice_arg(self, L, allow_scalar=True):
        rng = self.rng
        if L == 0:
            return "_", "all"
        k = rng.random()
        if k < 0.28 and allow_scalar:
            return "i:" + self.E(rng.randrange(L), L), "scalar"
        if k < 0.5:
            if L >= 2 and rng.random() < 0.04:
                e = rng.randrange(L - 1)
                return "r:%s,%s" % (self.E(e + 1, L), self.E(e, L)), "range-empty"
            b = rng.randrange(L); e = rng.randrange(b, L)
            return "r:%s,%s" % (self.E(b, L), self.E(e, L)), "range"
        if k < 0.8:
            s = rng.choice([1, 2, 2, 3, -1, -1, -2, -3, 5, -4])
            a = rng.randrange(L); b = rng.randrange(L)
            lo, hi = min(a, b), max(a, b)
            b, e = (lo, hi) if s > 0 else (hi, lo)
            return "s:%s,%s,%d" % (self.E(b, L), self.E(e, L), s), "stride+" if s > 0 else "stride-"
        return "_", "all"

    def op(self, v):
        """one operation on the oracle view v: (text, kind)"""
        rng = self.rng
        r = len(v.dims)
        bad = self.malformed and rng.random() < self.pbad
        choices = ["slice"] * 8 + ["subset"] * 2 + ["idx"] * 2 + ["softlink"] + ["permute"] * (2 if r > 1 else 1)
        if r == 2:
            square = v.dims[0] == v.dims[1]
            choices += ["T"] * 2 + ["diag"] * (3 if square else 1) + ["subdiag"] * (3 if square else 1)
        if r == 1:
            choices += ["reshape"] * 5
        kind = rng.choice(choices)
        empty_dim = any(d == 0 for d in v.dims)
        if kind == "slice":
            args, kinds = [], []
            for L in v.dims:
                a, k = self.slice_arg(L, allow_scalar=True)
                args.append(a); kinds.append(k)
            if all(k == "scalar" for k in kinds) and rng.random() < 0.85:
                j = rng.randrange(r)
                args[j] = "_"; kinds[j] = "all"
            for k in kinds:
                self.count("arg_" + k)
            if bad and self.checked:
                j = rng.randrange(r)
                L = v.dims[j]
                x, side = self.bad_index(L)
                what = rng.choice(["scalar", "begin", "end"])
                good = self.E(rng.randrange(L), L) if L > 0 else "0"
                if what == "scalar":
                    args[j] = "i:" + x
                elif what == "begin":
                    args[j] = rng.choice(["r:%s,%s" % (x, good), "s:%s,%s,%d" % (x, good, rng.choice([1, -1, 2]))])
                else:
                    args[j] = rng.choice(["r:%s,%s" % (good, x), "s:%s,%s,%d" % (good, x, rng.choice([1, -1, 2]))])
                self.count("malformed_slice_pos%d_%s_%s" % (j, what, side))
                # the remaining arguments must stay meaningful (non-negative extent): they are, by construction
                if what != "scalar":
                    # direction consistency of the malformed range itself: make sure the C++ extent is not negative
                    p = args[j][2:].split(",")
                    b, e = tok(p[0], L), tok(p[1], L)
                    s = int(p[2]) if args[j].startswith("s:") else 1
                    if cdiv(e + s - b, s) < 0:
                        args[j] = "i:" + x
            return "slice " + " ".join(args), "slice"
        if kind == "subset":
            if empty_dim and not (bad and self.checked):
                return "softlink", "softlink"
            t = []
            for L in v.dims:
                b = rng.randrange(L) if L else 0; e = rng.randrange(b, L) if L else 0
                t += [self.E(b, L), self.E(e, L)]
            if bad and self.checked:
                j = rng.randrange(2 * r)
                L = v.dims[j // 2]
                x, side = self.bad_index(L)
                t[j] = x
                k0 = j - (j % 2)
                if tok(t[k0 + 1], L) + 1 - tok(t[k0], L) < 0:     # keep the C++ extent non-negative
                    t[k0] = t[k0 + 1] = x
                self.count("malformed_subset_pos%d_%s" % (j, side))
            return "subset " + " ".join(t), "subset"
        if kind == "idx":
            L = v.dims[0]
            if bad and self.checked:
                x, side = self.bad_index(L)
                self.count("malformed_idx_" + side)
                return "idx " + x, "idx"
            if L == 0:
                return "softlink", "softlink"
            return "idx " + self.E(rng.randrange(L), L), "idx"
        if kind == "T":
            return "T", "T"
        if kind == "permute":
            p = list(range(r))
            rng.shuffle(p)
            if bad:
                j = rng.randrange(r)
                p[j] = rng.choice([-1, r, r + 1])
                self.count("malformed_permute")
            return "permute " + " ".join(map(str, p)), "permute"
        if kind == "diag":
            n = v.dims[0]
            if v.dims[0] != v.dims[1]:
                self.count("malformed_diag_nonsquare")
                return "diag %d" % rng.randint(-1, 1), "diag"
            if n == 0:
                return "diag 0", "diag"
            k = rng.randint(-n, n) if rng.random() < 0.15 else rng.randint(-(n - 1), n - 1)
            return "diag %d" % k, "diag"
        if kind == "subdiag":
            n = v.dims[0]
            if v.dims[0] != v.dims[1]:
                self.count("malformed_subdiag_nonsquare")
                return "subdiag 0 0", "subdiag"
            if bad or n == 0:
                b, e = rng.choice([(-1, 0), (1, 0), (0, n), (n, n), (2, 1)])
                self.count("malformed_subdiag_range")
                return "subdiag %d %d" % (b, e), "subdiag"
            b = rng.randrange(n); e = rng.randrange(b, n)
            return "subdiag %d %d" % (b, e), "subdiag"
        if kind == "reshape":
            n = v.dims[0]
            if n == 0:
                nd = rng.choice([[0], [0, 2], [3, 0], [2, 0, 2]])
            else:
                nd, m = [], n
                for _ in range(rng.randint(1, 5) - 1):
                    d = rng.choice([d for d in range(1, m + 1) if m % d == 0])
                    nd.append(d)
                    m //= d
                nd.append(m)
                rng.shuffle(nd)
            if bad:
                nd[rng.randrange(len(nd))] += 1
                self.count("malformed_reshape")
            return "reshape " + " ".join(map(str, nd)), "reshape"
        return "softlink", "softlink"

    def composition(self):
        """-> list of lines (parent first)"""
        line, v = self.parent()
        lines = [line]
        if self.contig:
            lines.append("contig")
        depth = self.rng.randint(1, self.depth)
        n = 0
        guard = 0
        while n < depth and guard < 4 * depth + 8:
            guard += 1
            if v is None or v.null or not v.dims:
                break
            text, kind = self.op(v)
            res = oracle_apply(v, text.split(), self.checked)
            if res is UNDEF or res[0] == "bad":
                self.count("regenerated")
                continue
            lines.append(text)
            self.count("op_" + kind)
            if res[0] == "err":
                self.count("error_" + res[1])
            elif res[0] == "null":
                v = OV([0], [], null=True)
                n += 1
            else:
                v = res[1]
                self.count("result_rank_%d" % len(v.dims))
                if not v.cells:
                    self.count("result_empty")
                n += 1
            if self.contig:
                lines.append("contig")
        return lines


def systematic_malformed():
    """bounds-checked build: every argument position of operator(), subset and operator[] for ranks 1..5, each with an
    index below 0 / above n-1, written as an int and through `end`; one composition per case"""
    out = []
    for r in range(1, 6):
        dims = [3, 4, 2, 3, 2][:r]
        head = "parent rm " + " ".join(map(str, dims))
        for j in range(r):
            L = dims[j]
            for x in ("-1", str(L), "e-1", "e%d" % L):          # -1, L, end+1 (= L), end-L (= -1)
                for form in ("i:%s", "r:%s,0", "r:0,%s", "s:%s,0,-1", "s:0,%s,2", "r:%s,e0", "s:e0,%s,-1"):
                    args = ["_" if k % 2 else "i:0" for k in range(r)]
                    args[j] = form % x
                    out.append([head, "slice " + " ".join(args), "softlink"])
                t = ["0", "e0"] * r
                for side in (0, 1):
                    t2 = list(t)
                    t2[2 * j + side] = x
                    if side == 0 and tok(x, L) > L - 1:
                        t2[2 * j + 1] = x                              # keep the C++ extent non-negative
                    if side == 1 and tok(x, L) < 0:
                        t2[2 * j] = x
                    out.append([head, "subset " + " ".join(t2), "softlink"])
        for x in ("-1", str(dims[0]), "e-1", "e%d" % dims[0]):
            out.append([head, "idx " + x, "softlink"])
    return out


# ====================================================================== running
def run_pair(exe, mode, comps):
    """run implementation and model on the compositions; -> (impl_lines, model_lines, rc, err)"""
    text = "mode %s\n" % mode + "".join("\n".join(c) + "\n" for c in comps)
    impl, rc, err = vcheck.run_impl(exe, [], text)
    model = vcheck.run_model("views", text)
    return impl, model, rc, err


def signature_of(err):
    if "is_contiguous" in err:
        return "F-08:is_contiguous-reads-offset-out-of-bounds"
    return None


def run_batch(ctx, exe, mode, comps, label):
    checked = (mode == "checked")
    todo = list(comps)
    crashes = 0
    while todo:
        impl, model, rc, err = run_pair(exe, mode, todo)
        if not impl or impl[0] != "mode " + mode:
            ctx.violation("harness build does not match the requested mode %s (%s): %r" % (mode, label, impl[:1]),
                          {"kind": "build-mode", "correspondence": CORR, "stderr": err[-2000:]}, tag="b", no_input=True)
            return
        pos = 1
        nxt = []
        for ci, c in enumerate(todo):
            n = len(c)
            il, ml = impl[pos:pos + n], model[pos:pos + n]
            pos += n
            nontrivial = len(c) >= 3
            ctx.count_case((mode, tuple(c)), nontrivial=nontrivial,
                           sample={"mode": mode, "ops": c, "impl_last": (il[-1][:200] if il else None)})
            if len(il) < n:
                # the implementation stopped inside this composition (sanitizer report / crash)
                crashes += 1
                shr = shrink(ctx, exe, mode, c, "crash")
                i2, _, rc2, err2 = run_pair(exe, mode, [shr])
                msg = "implementation stopped (rc=%s) while executing %r: %s" % (rc2, shr[min(len(i2) - 1, len(shr) - 1)] if i2 else "?", summarize(err2 or err))
                ctx.violation("%s [%s build]" % (msg, label),
                              {"kind": "oracle", "mode": mode, "lines": shr, "impl": i2[1:], "build": label, "message": msg,
                               "stderr": (err2 or err)[-3000:], "signature": signature_of(err2 or err)})
                nxt = todo[ci + 1:] if crashes < 3 else []
                break
            bad = oracle(c, il, checked)
            if bad is not None:
                ctx.cov["oracle_failures"] = ctx.cov.get("oracle_failures", 0) + 1
                if ctx.cov["oracle_failures"] <= 3:
                    shr = shrink(ctx, exe, mode, c, "oracle")
                    i2, m2, _, _ = run_pair(exe, mode, [shr])
                    b2 = oracle(shr, i2[1:], checked) or bad
                    ctx.violation("%s — after %r [%s build]" % (b2[1], shr[min(b2[0], len(shr) - 1)], label),
                                  {"kind": "oracle", "mode": mode, "lines": shr, "step": b2[0], "message": b2[1],
                                   "impl": i2[1:], "model": m2[1:], "build": label})
            elif vcheck.first_diff(il, ml) is not None:
                ctx.cov["disagreements_checked"] += 1
                if len(ctx.pending) < 2:
                    shr = shrink(ctx, exe, mode, c, "diff")
                    i2, m2, _, _ = run_pair(exe, mode, [shr])
                    ctx.pending.append({"kind": "correspondence", "correspondence": CORR, "mode": mode, "lines": shr,
                                        "impl": i2[1:], "model": m2[1:], "build": label,
                                        "first_difference": vcheck.first_diff(i2[1:], m2[1:])})
            ctx.cov["traces_validated_against_impl"] += 1
        todo = nxt


def summarize(err):
    for l in err.splitlines():
        if "ERROR: AddressSanitizer" in l or "runtime error" in l or "LeakSanitizer" in l:
            frames = [x.strip() for x in err.splitlines() if x.strip().startswith("#")][:2]
            return (l.strip() + " " + " ".join(frames))[:600]
    return err.strip()[-300:]


def shrink(ctx, exe, mode, c, what):
    """ddmin over the operations (the parent line stays)"""
    checked = (mode == "checked")
    head, ops = c[0], c[1:]

    def fails(sub):
        comp = [head] + sub
        il, ml, rc, err = run_pair(exe, mode, [comp])
        il, ml = il[1:], ml[1:]
        if what == "crash":
            return len(il) < len(comp)
        if len(il) < len(comp):
            return False
        if what == "oracle":
            return oracle(comp, il, checked) is not None
        return vcheck.first_diff(il, ml) is not None
    if not ops:
        return c
    if len(ops) == 1:
        return c
    return [head] + vcheck.ddmin(list(ops), fails, max_tests=60)


def load_corpus():
    d = os.path.join(vbuild.VERIF, "corpus", "C06")
    out = []
    if os.path.isdir(d):
        for fn in sorted(os.listdir(d)):
            if not fn.endswith(".case"):
                continue
            mode, lines = "unchecked", []
            for l in open(os.path.join(d, fn)):
                l = l.strip()
                if l.startswith("# mode"):
                    mode = l.split()[2]
                elif l and not l.startswith("#"):
                    lines.append(l)
            if lines:
                out.append((mode, lines))
    return out


def build_all():
    res, errs = {}, []

    def one(name, defs):
        try:
            res[name] = vbuild.build("views", DRIVERS, defines=defs)
        except Exception as e:      # re-raised in the main thread
            errs.append(e)
    th = [threading.Thread(target=one, args=("unchecked", [])),
          threading.Thread(target=one, args=("checked", ["ADEPT_BOUNDS_CHECKING"]))]
    for t in th:
        t.start()
    for t in th:
        t.join()
    if errs:
        raise errs[0]
    return res


def run(ctx, replay):
    thms = [NS + t for t in vcheck.prop_theorems("AdeptProofs/Props/C06.lean", "C06_")]
    fails = vcheck.lean_gate(ctx, ["AdeptProofs.Props.C06"], thms, required=[NS + r for r in REQUIRED])
    exes = build_all()
    ctx.pending = []
    ctx.assumptions += [
        "the default build is given admissible arguments only (scalar indices and range end points in 0..n-1, non-zero "
        "stride); permute is given a permutation; direction-inconsistent ranges further apart than one stride and "
        "diag_vector offsets beyond n yield an Array with a negative dimension in both builds (modelled as Err.undefined, "
        "outside the property)",
        "Index arithmetic does not overflow; element type int, passive arrays (views of active arrays share this code "
        "but are not executed here); ranks 1..5 (the C++ supports 7)",
    ]
    if replay:
        r = json.load(open(replay))
        mode = r.get("mode", "unchecked")
        run_batch(ctx, exes[mode], mode, [r["lines"]], mode)
        report_pending(ctx, fails)
        return
    quick = ctx.tier == "quick"
    depth = 4 if quick else 6
    n_valid, n_valid_chk, n_malf, n_contig = (3000, 800, 1500, 400) if quick else (60000, 14000, 26000, 4000)
    stats = {}
    corpus = load_corpus()
    for mode, lines in corpus:
        run_batch(ctx, exes[mode], mode, [lines], mode + "/corpus")
    ctx.notes["corpus_cases"] = len(corpus)
    # is_contiguous probes first (a crash there is finding F-08 on an unrepaired tree)
    g = Gen(ctx.rng, False, False, depth, stats, contig=True)
    comps = [["parent rm 6", "contig"], ["parent rm 2 3", "contig", "T", "contig"], ["parent cm 2 3", "contig", "T", "contig"]]
    comps += [g.composition() for _ in range(n_contig)]
    run_batch(ctx, exes["unchecked"], "unchecked", comps, "default/contig")
    for mode, n, malformed in (("unchecked", n_valid, False), ("checked", n_valid_chk, False), ("checked", n_malf, True)):
        # the "valid" streams still contain the errors that both builds raise (non-square diag_vector, bad
        # submatrix_on_diagonal range, reshape size mismatch, permute dimension out of range)
        g = Gen(ctx.rng, True, True, depth, stats) if malformed else GenValid(ctx.rng, mode == "checked", depth, stats)
        comps = [g.composition() for _ in range(n)]
        label = ("default" if mode == "unchecked" else "bounds-checking") + ("/malformed" if malformed else "/valid")
        step = 4000
        for k in range(0, len(comps), step):
            run_batch(ctx, exes[mode], mode, comps[k:k + step], label)
    sysm = systematic_malformed()
    ctx.notes["systematic_malformed_cases"] = len(sysm)
    run_batch(ctx, exes["checked"], "checked", sysm, "bounds-checking/systematic")
    ctx.notes["distribution"] = dict(sorted(stats.items()))
    ctx.cov["rule"] = ("compositions = parent (rank 1..5, row- or column-major, volume <= 240) followed by 1..%d view-forming "
                       "operations drawn from slice(int/end-k/range/stride(+/-)/__), subset, operator[], T, permute, diag_vector, "
                       "submatrix_on_diagonal, reshape, soft_link; %d admissible compositions on the default build, %d on the "
                       "bounds-checked build, %d with out-of-range values injected per argument position on the bounds-checked "
                       "build, %d with is_contiguous() probed after every step; non-trivial = at least two operations; distinct "
                       "= different (mode, op list)" % (depth, n_valid, n_valid_chk, n_malf, n_contig))
    ctx.cov["exhaustive"] = False
    report_pending(ctx, fails)


class GenValid(Gen):
    """admissible index values; still produces the errors both builds raise (non-square diag, bad permute/reshape/submatrix)"""
    def __init__(self, rng, checked, depth, stats):
        Gen.__init__(self, rng, checked, True, depth, stats, pbad=0.1)

    def op(self, v):
        # index values stay admissible: the malformed branch of slice/subset/idx is only taken for checked+malformed
        saved = self.checked
        self.checked = False
        try:
            return Gen.op(self, v)
        finally:
            self.checked = saved


def report_pending(ctx, fails):
    if ctx.violations:
        return
    for p in ctx.pending[:1]:
        ctx.violation("model and implementation disagree on a view composition (%s build, first differing line %s: impl %r / "
                      "model %r); the element-wise oracle found no composition on which the property itself fails"
                      % (p["build"], p["first_difference"],
                         (p["impl"][p["first_difference"]][:120] if p["first_difference"] is not None and p["first_difference"] < len(p["impl"]) else None),
                         (p["model"][p["first_difference"]][:120] if p["first_difference"] is not None and p["first_difference"] < len(p["model"]) else None)),
                      p, tag="c", no_input=True)
    if fails and not ctx.violations:
        ctx.violation("proof obligation of C06 no longer checks: " + fails[0][:400],
                      {"kind": "proof", "theorem": "AdeptProofs/Props/C06.lean", "failures": fails}, tag="p", no_input=True)
