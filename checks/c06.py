"""C06 — views address exactly the elements their index expressions denote.

proof:  lean/AdeptProofs/Props/C06.lean (address / rank / extent theorem per operation, composition over a list of
        operations, containment in the parent and in the allocation, rejection in the bounds-checked build,
        is_contiguous) over the model lean/AdeptModel/Views.lean.
tie:    hand-written model  <->  Array::operator()(int / end-k / range / stride / __), subset, operator[], T, permute,
        diag_vector, submatrix_on_diagonal, reshape, soft_link, is_contiguous, executed by harness/drv_views*.cpp on
        Array<r,int>, r = 1..5 (row- and column-major parents holding their own cell numbers).  After every
        operation: rank, extents, offsets, data()-parent.data(), every element (read through operator()), then a
        write of fresh values through the view and a diff of the whole parent allocation; compared exactly with the
        model.  Two builds: default (admissible arguments only) and -DADEPT_BOUNDS_CHECKING (also a malformed stream
        that puts an out-of-range value in every argument position).
        Integer-vector indexing (IndexedArray.h; op `ix`, harness/drv_views_idx*.cpp, model AdeptModel/IndexedViews.lean):
        A(S0,S1,..) on the current view of rank 1..4 with every S a scalar int / end-k / range / stride / __ /
        intVector / integer expression (tmp+2, end-tmp), at least one vector; the argument-type patterns are a menu
        compiled once (all 3 for rank 1, every mixture for rank 2, every mixture of int/end-k/range/__/intVector for
        rank 3, 12 fixed patterns for rank 4), the values come from the stream.  Answer: rank, extents, the values read
        by B = A(..), the diff of the whole parent allocation after A(..) = V (fresh values) and after A(..) = -7.  In the
        bounds-checked build also: entries n, n+1, -1 at every position of every index vector, bad scalars and range
        end points.
oracle: the composed index map evaluated element by element in Python (a view is the list of parent cells it
        denotes; no base/stride arithmetic, no use of the Lean model), judged against the implementation's output.
        For `ix`: per dimension the list of parent indices the selector denotes (plain integer arithmetic), the
        elements are the tuples of their product in index order; an element with a component outside 0..n-1 must not
        be accessed (bounds-checked build: index_out_of_bounds, and the only cells changed are cells of in-range
        elements holding a value assigned to them).
"""
import os, json, itertools, threading
import vbuild, vcheck

LEVEL = "proof"
NS = "Adept.Views."
REQUIRED = ["C06_slice_addr", "C06_slice_rank", "C06_range_extent", "C06_subset_addr", "C06_sub1_addr", "C06_T_addr",
            "C06_permute_addr", "C06_diag_addr", "C06_subdiag_addr", "C06_reshape_addr", "C06_softlink_addr",
            "C06_compose_addr", "C06_within_parent", "C06_cells_subset", "C06_within_allocation",
            "C06_checked_rejects", "C06_checked_rejects_sub1", "C06_checked_rejects_subset", "C06_checked_accepts",
            "C06_within_parent_checked", "C06_is_contiguous_iff",
            "C06_indexed_addr", "C06_indexed_extents", "C06_indexed_within_parent", "C06_indexed_read_write",
            "C06_indexed_write_through", "C06_indexed_checked_rejects"]
H = os.path.join(vbuild.VERIF, "harness")
DRIVERS = [os.path.join(H, f) for f in ("drv_views.cpp", "drv_views_r4.cpp", "drv_views_r5.cpp",
                                        "drv_views_r5i.cpp", "drv_views_r5e.cpp", "drv_views_idx.cpp",
                                        "drv_views_idx3.cpp", "drv_views_idx3v.cpp", "drv_views_idx4.cpp")]
CORR = ("AdeptModel/Views.lean, AdeptModel/IndexedViews.lean <-> Array view-forming member functions and IndexedArray "
        "(harness/drv_views*.cpp)")
SIG_EMPTY = "indexed-array-zero-extent-after-nonzero-leading-extent"


# ====================================================================== oracle: views as lists of parent cells
class OV:
    """a view = extents + the parent cell of every element, in index order (last index fastest)"""
    __slots__ = ("dims", "cells", "null")

    def __init__(self, dims, cells, null=False):
        self.dims, self.cells, self.null = list(dims), list(cells), null

    def at(self, ix):
        k = 0
        for i, d in zip(ix, self.dims):
            k = k * d + i
        return self.cells[k]


def parent_view(order, dims):
    n = 1
    for d in dims:
        n *= d
    if order == "rm":
        return OV(dims, range(n))
    cells = []
    for ix in itertools.product(*[range(d) for d in dims]):   # column-major: first index fastest in memory
        c, m = 0, 1
        for i, d in zip(ix, dims):
            c += i * m
            m *= d
        cells.append(c)
    return OV(dims, cells)


def tok(t, length):
    """E = k | eK (end - K)"""
    if t.startswith("e"):
        return length - 1 - int(t[1:])
    return int(t)


def cdiv(a, b):
    q = abs(a) // abs(b)
    return q if (a >= 0) == (b > 0) else -q


UNDEF = ("undef",)   # the C++ has no meaningful result; never generated, never judged


def sel_range(b, e, s, length, checked):
    """indices denoted by stride(b,e,s) in a dimension of this length"""
    if checked and not (0 <= b < length and 0 <= e < length):
        return "index_out_of_bounds"
    if s == 0 or cdiv(e + s - b, s) < 0:
        return UNDEF
    if not checked and not (0 <= b < length and 0 <= e < length):
        return UNDEF
    return list(range(b, e + (1 if s > 0 else -1), s))


def gather(v, sels, drop):
    """new view whose element (i0,i1,..) is v[sels[0][i0], sels[1][i1], ..]; dimensions in `drop` are removed"""
    nd = [len(s) for s, dr in zip(sels, drop) if not dr]
    cells = [v.at(ix) for ix in itertools.product(*sels)]
    return OV(nd, cells)


def oracle_apply(v, w, checked):
    """-> ('ok', OV) | ('err', class) | ('bad',) | ('null',) | UNDEF       (documented semantics, element by element)"""
    if v is None or v.null:
        return ("bad",)
    r = len(v.dims)
    op = w[0]
    try:
        if r == 0:
            return ("bad",)
        if op == "slice" or op == "subset":
            args = w[1:]
            if op == "subset":
                if len(args) != 2 * r:
                    return ("bad",)
                args = ["r:%s,%s" % (args[2 * k], args[2 * k + 1]) for k in range(r)]
            if len(args) != r:
                return ("bad",)
            sels, drop = [], []
            undef = False
            for a, L in zip(args, v.dims):
                if a == "_":
                    sels.append(list(range(L))); drop.append(False)
                elif a.startswith("i:"):
                    j = tok(a[2:], L)
                    if not 0 <= j < L:
                        if checked:
                            return ("err", "index_out_of_bounds") if not undef else UNDEF
                        undef = True
                    sels.append([j]); drop.append(True)
                else:
                    p = a[2:].split(",")
                    b, e = tok(p[0], L), tok(p[1], L)
                    s = int(p[2]) if a.startswith("s:") else 1
                    x = sel_range(b, e, s, L, checked)
                    if x == "index_out_of_bounds":
                        return ("err", x) if not undef else UNDEF
                    if x is UNDEF:
                        undef = True
                        x = []
                    sels.append(x); drop.append(False)
            if undef:
                return UNDEF
            return ("ok", gather(v, sels, drop))
        if op == "idx" and len(w) == 2:
            j = tok(w[1], v.dims[0])
            if not 0 <= j < v.dims[0]:
                return ("err", "index_out_of_bounds") if checked else UNDEF
            return ("ok", gather(v, [[j]] + [list(range(d)) for d in v.dims[1:]], [True] + [False] * (r - 1)))
        if op == "T" and len(w) == 1:
            if r != 2:
                return ("bad",)
            return ("ok", OV([v.dims[1], v.dims[0]], [v.at((j, i)) for i in range(v.dims[1]) for j in range(v.dims[0])]))
        if op == "permute":
            p = [int(x) for x in w[1:]]
            if len(p) != r:
                return ("bad",)
            if v.dims[0] == 0:
                return ("err", "empty_array")
            if any(not 0 <= x < r for x in p):
                return ("err", "invalid_dimension")
            nd = [v.dims[x] for x in p]
            if 0 in nd:
                return ("err", "invalid_dimension")
            if sorted(p) != list(range(r)):
                return UNDEF          # "each dimension must be provided once only"
            cells = []
            for ix in itertools.product(*[range(d) for d in nd]):
                jx = [0] * r
                for i, x in zip(ix, p):
                    jx[x] = i
                cells.append(v.at(jx))
            return ("ok", OV(nd, cells))
        if op == "diag" and len(w) == 2:
            if r != 2:
                return ("bad",)
            k = int(w[1])
            if v.dims[0] == 0:
                return ("null",)
            if v.dims[0] != v.dims[1]:
                return ("err", "invalid_operation")
            n = v.dims[0]
            if abs(k) > n:
                return UNDEF
            return ("ok", OV([n - abs(k)], [v.at((i, i + k) if k >= 0 else (i - k, i)) for i in range(n - abs(k))]))
        if op == "subdiag" and len(w) == 3:
            if r != 2:
                return ("bad",)
            b, e = int(w[1]), int(w[2])
            if v.dims[0] != v.dims[1]:
                return ("err", "invalid_operation")
            if b < 0 or b > e or e >= v.dims[0]:
                return ("err", "index_out_of_bounds")
            rr = list(range(b, e + 1))
            return ("ok", gather(v, [rr, rr], [False, False]))
        if op == "reshape":
            nd = [int(x) for x in w[1:]]
            if r != 1 or not 1 <= len(nd) <= 5:
                return ("bad",)
            n = 1
            for d in nd:
                n *= d
            if n != v.dims[0]:
                return ("err", "invalid_dimension")
            if any(d < 0 for d in nd):
                return UNDEF
            return ("ok", OV(nd, v.cells))
        if op == "softlink" and len(w) == 1:
            return ("ok", OV(v.dims, v.cells))
    except ValueError:
        return ("bad",)
    return ("bad",)



# ====================================================================== oracle: integer-vector indexing
IX_MENU4 = ("IEVA", "EIEV", "VIEI", "AVIE", "IVRE", "VVVV", "EAVV", "RVAI", "IIEV", "VEEI", "AIVE", "VRAV")
IX_VEC = "VXW"


def ix_letter(a):
    """letter of the C++ argument type the harness uses for selector token a (None: malformed)"""
    if a == "_":
        return "A"
    if a[:2] in ("v:", "x:", "w:"):
        return a[0].upper()
    if a.startswith("i:"):
        return "E" if a[2:3] == "e" else "I"
    if a[:2] in ("r:", "s:"):
        return "R"
    return None


def ix_compiled(letters):
    """is this argument-type pattern in the menu compiled into the harness (drv_views_idx.h)?"""
    r = len(letters)
    if not any(l in IX_VEC for l in letters):
        return False
    if r in (1, 2):
        return True
    if r == 3:
        return all(l in "IERAV" for l in letters)
    if r == 4:
        return "".join(letters) in IX_MENU4
    return False


def ints_of(t):
    return [int(x) for x in t.split(",")] if t else []


def oracle_ix(v, w, checked):
    """A(S0,S1,..) on the oracle view v -> ('bad',) | ('err', class) | UNDEF |
    ('ix', {'dims': extents, 'elems': parent index tuple of every element in index order, 'pdims': v.dims})"""
    if v is None or v.null or not v.dims:
        return ("bad",)
    args = w[1:]
    if len(args) != len(v.dims):
        return ("bad",)
    try:
        letters = [ix_letter(a) for a in args]
        if None in letters or not ix_compiled(letters):
            return ("bad",)
        sels, undef = [], False
        for a, L in zip(args, v.dims):
            if a == "_":
                sels.append((False, list(range(L))))
            elif a.startswith("i:"):
                sels.append((True, [tok(a[2:], L)]))
            elif a[0] in "vx":
                sels.append((False, ints_of(a[2:])))
            elif a[0] == "w":
                sels.append((False, [L - 1 - k for k in ints_of(a[2:])]))       # end - K
            else:
                p = a[2:].split(",")
                b, e = tok(p[0], L), tok(p[1], L)
                st = int(p[2]) if a.startswith("s:") else 1
                x = sel_range(b, e, st, L, checked)
                if x == "index_out_of_bounds":          # thrown by the constructor (get_size_with_len)
                    return ("err", x) if not undef else UNDEF
                if x is UNDEF:
                    undef = True
                    x = []
                sels.append((False, x))
        if undef:
            return UNDEF
    except ValueError:
        return ("bad",)
    dims = [len(x) for sc, x in sels if not sc]
    elems = [] if 0 in dims else list(itertools.product(*[x for _, x in sels]))
    return ("ix", {"dims": dims, "elems": elems, "pdims": list(v.dims)})


def parse_ix_line(line):
    """'ok r=.. d=.. e=.. w=.. z=..' -> dict; e: list or '!class'; w, z: (dict cell -> value, '' or '!class')"""
    w = line.split(" ")
    if w[0] != "ok" or len(w) != 6:
        return None
    d = {}
    try:
        for t in w[1:]:
            k, x = t.split("=", 1)
            d[k] = x
        out = {"r": int(d["r"]), "d": ints_of(d["d"])}
        out["e"] = d["e"] if d["e"].startswith("!") else ints_of(d["e"])
        for k in ("w", "z"):
            body, _, err = d[k].partition("!")
            m = {}
            if body:
                for t in body.split(";"):
                    c, x = t.split(":")
                    m[int(c)] = int(x)
            out[k] = (m, ("!" + err) if err else "")
        return out
    except (KeyError, ValueError):
        return None


def judge_ix(v, info, line, checked, vol):
    """compare the implementation's answer to `ix` with what the selectors denote; None or (message, signature)"""
    o = parse_ix_line(line)
    sig = None
    dims = info["dims"]
    if 0 in dims[1:] and dims[0] != 0:
        sig = SIG_EMPTY           # a zero extent behind a non-zero leading extent (IndexedArray::empty() tests dimension 0 only)
    if o is None:
        return "expected an indexed array, implementation answered %r" % line[:120], sig
    if o["r"] != len(dims):
        return "rank %d, the selectors denote rank %d" % (o["r"], len(dims)), sig
    if o["d"] != dims:
        return "extents %s, documented extents %s" % (o["d"], dims), sig
    pd = info["pdims"]
    inr = [all(0 <= i < L for i, L in zip(t, pd)) for t in info["elems"]]
    if not checked and not all(inr):
        return None                                    # inadmissible in the default build: outside the property (never generated)
    bad = next((k for k, ok in enumerate(inr) if not ok), None)
    cells = [v.at(t) if ok else None for t, ok in zip(info["elems"], inr)]
    if bad is None:
        if o["e"] != cells:
            if isinstance(o["e"], str):
                return "reading raised %s although every index is admissible" % o["e"][1:], sig
            k = next((i for i, (a, b) in enumerate(zip(o["e"], cells)) if a != b), min(len(o["e"]), len(cells)))
            return ("element number %d (parent index %s) reads parent cell %s, the selectors denote cell %s"
                    % (k, list(info["elems"][k]) if k < len(cells) else "-", o["e"][k] if k < len(o["e"]) else "-",
                       cells[k] if k < len(cells) else "-")), sig
        for key, val in (("w", lambda j: -(j + 1)), ("z", lambda j: -7)):
            want = {}
            for j, c in enumerate(cells):
                want[c] = val(j)
            got, err = o[key]
            if err:
                return "assignment (%s) raised %s although every index is admissible" % (key, err[1:]), sig
            if got != want:
                extra = sorted(set(got) - set(want))
                miss = sorted(set(want) - set(got))
                wrong = sorted(c for c in set(got) & set(want) if got[c] != want[c])
                return ("assignment through the indexed array (%s) changed parent cells %s that it does not denote / left %s "
                        "unchanged / stored wrong values in %s" % ("array" if key == "w" else "scalar", extra[:6], miss[:6], wrong[:6])), sig
        if any(not 0 <= c < vol for c in cells):
            return "indexed array reads outside the parent allocation", sig
        return None
    # bounds-checked build, some element has an index outside 0..n-1: it must not be accessed
    t = info["elems"][bad]
    which = "index %s of element number %d is outside the parent extents %s" % (list(t), bad, pd)
    if o["e"] != "!index_out_of_bounds":
        return "%s but reading raised no index_out_of_bounds (answer e=%s)" % (which, str(o["e"])[:80]), sig
    for key, val in (("w", lambda j: -(j + 1)), ("z", lambda j: -7)):
        got, err = o[key]
        if err != "!index_out_of_bounds":
            return "%s but the %s assignment raised %s" % (which, "array" if key == "w" else "scalar", err[1:] or "nothing"), sig
        allowed = {}
        for j, c in enumerate(cells):
            if c is not None:
                allowed.setdefault(c, set()).add(val(j))
        for c, x in got.items():
            if c not in allowed or x not in allowed[c]:
                return ("%s; the assignment changed parent cell %d to %d, which no admissible element of the selection "
                        "denotes" % (which, c, x)), sig
    return None


def parse_line(line):
    """'ok r=.. d=.. s=.. o=.. e=.. w=..' -> dict"""
    w = line.split(" ")
    if w[0] != "ok" or len(w) != 7:
        return None
    d = {}
    try:
        for t in w[1:]:
            k, x = t.split("=", 1)
            d[k] = x
        ints = lambda s: [int(x) for x in s.split(",")] if s else []
        out = {"r": int(d["r"]), "d": ints(d["d"]), "s": ints(d["s"]), "o": int(d["o"]), "e": ints(d["e"]), "w": {}}
        if d["w"]:
            for t in d["w"].split(";"):
                c, x = t.split(":")
                out["w"][int(c)] = int(x)
        return out
    except (KeyError, ValueError):
        return None


def packed(dims):
    s, e = [], 1
    for d in reversed(dims):
        s.append(e)
        e *= d
    return list(reversed(s))


def judge_view(v, line, vol):
    """compare one implementation line with the view the index expressions denote; None or a message"""
    o = parse_line(line)
    if o is None:
        return "expected a view, implementation answered %r" % line[:120]
    if o["r"] != len(v.dims):
        return "rank %d, the index expression denotes rank %d" % (o["r"], len(v.dims))
    if o["d"] != v.dims:
        return "extents %s, documented extents %s" % (o["d"], v.dims)
    if o["e"] != v.cells:
        k = next((i for i, (a, b) in enumerate(zip(o["e"], v.cells)) if a != b), min(len(o["e"]), len(v.cells)))
        return ("element number %d of the view reads parent cell %s, the index expression denotes cell %s"
                % (k, o["e"][k] if k < len(o["e"]) else "-", v.cells[k] if k < len(v.cells) else "-"))
    want = {}
    for j, c in enumerate(v.cells):
        want[c] = -(j + 1)
    if o["w"] != want:
        extra = sorted(set(o["w"]) - set(want))
        miss = sorted(set(want) - set(o["w"]))
        return ("writing through the view changed parent cells %s that it does not denote / left %s unchanged / stored "
                "wrong values" % (extra[:6], miss[:6]))
    if any(not 0 <= c < vol for c in o["e"]):
        return "view reads outside the parent allocation"
    if v.cells:
        if o["o"] != v.cells[0]:
            return "data() is parent cell %d but element (0,..,0) is cell %d" % (o["o"], v.cells[0])
        # offsets must reproduce the element addresses
        m = 1
        for k in range(len(v.dims) - 1, -1, -1):
            if v.dims[k] > 1 and o["s"][k] != v.cells[m] - v.cells[0]:
                return "offset(%d)=%d but consecutive elements along it are %d cells apart" % (k, o["s"][k], v.cells[m] - v.cells[0])
            m *= v.dims[k]
    return None


def oracle(lines_in, lines_out, checked):
    """judge one composition (list of op lines incl. the parent line) from the implementation's lines alone.
    returns (index, message) or None"""
    v, vol, last = None, 0, None
    for i, (op, out) in enumerate(zip(lines_in, lines_out)):
        w = op.split()
        if w[0] == "parent":
            dims = [int(x) for x in w[2:]]
            v = parent_view(w[1], dims)
            vol = len(v.cells)
            msg = judge_view(v, out, vol)
            if msg:
                return i, "fresh parent: " + msg
            last = parse_line(out)
            continue
        if w[0] == "contig":
            if v is None or v.null or not v.dims:
                exp = "bad-op"
            else:
                # is_contiguous() <=> the offsets the implementation itself reported are the packed row-major ones
                exp = "contig=%d" % (1 if last is not None and last["s"] == packed(last["d"]) else 0)
            if out != exp:
                return i, "is_contiguous(): implementation %r, offsets/extents of the view say %r" % (out, exp)
            continue
        if w[0] == "ix":
            res = oracle_ix(v, w, checked)
            if res is UNDEF:
                return None
            if res[0] == "bad":
                if out != "bad-op":
                    return i, "this indexing call is not in the compiled menu / does not exist, implementation answered %r" % out[:100]
            elif res[0] == "err":
                if out != "err " + res[1]:
                    return i, "expected exception %s from the indexing call, implementation answered %r" % (res[1], out[:160])
            else:
                msg = judge_ix(v, res[1], out, checked, vol)
                if msg:
                    return i, "ix: " + msg[0], msg[1]
            continue               # an indexed array is an expression: the current view is unchanged
        res = oracle_apply(v, w, checked)
        if res is UNDEF:
            return None            # outside the property (never generated); stop judging this composition
        if res[0] == "bad":
            if out != "bad-op":
                return i, "operation does not exist for this rank, implementation answered %r" % out[:100]
        elif res[0] == "null":
            if out != "ok null":
                return i, "diag_vector of an empty matrix: expected an empty vector, got %r" % out[:100]
            v = OV([0], [], null=True)
        elif res[0] == "err":
            if out != "err " + res[1]:
                return i, "expected exception %s, implementation answered %r" % (res[1], out[:160])
        else:
            msg = judge_view(res[1], out, vol)
            if msg:
                return i, "%s: %s" % (w[0], msg)
            v = res[1]
            last = parse_line(out)
    return None


# ====================================================================== generators
class Gen:
    def __init__(self, rng, checked, malformed, depth, stats, contig=False, maxrank=5, pbad=0.3, w_ix=5):
        self.rng, self.checked, self.malformed, self.depth, self.stats = rng, checked, malformed, depth, stats
        self.contig, self.maxrank, self.pbad, self.w_ix = contig, maxrank, pbad, w_ix
        # ranks of the parent: mostly low in the valid streams (more operations apply), uniform in the malformed one
        self.ranks = [1, 2, 3, 4, 5] if (malformed and pbad >= 0.3) else [1, 2, 2, 2, 3, 3, 4, 5]

    def count(self, key):
        self.stats[key] = self.stats.get(key, 0) + 1

    def parent(self):
        rng = self.rng
        r = rng.choice(self.ranks)
        cap = 240 if r <= 2 else 160
        while True:
            if r == 2 and rng.random() < 0.5:
                n = rng.randint(1, 7)
                dims = [n, n]
            elif r == 1:
                dims = [rng.choice([1, 2, 3, 4, 6, 8, 12, 16, 24, 30, 36, 60])]
            else:
                dims = [rng.randint(1, 6 if r <= 3 else 4) for _ in range(r)]
            n = 1
            for d in dims:
                n *= d
            if n <= cap:
                break
        order = "rm" if rng.random() < 0.75 else "cm"
        self.count("parent_rank_%d" % r)
        self.count("parent_" + order)
        return "parent %s %s" % (order, " ".join(map(str, dims))), parent_view(order, dims)

    def E(self, j, L):
        """write index j of a dimension of length L as k or end-K"""
        if self.rng.random() < 0.4:
            self.count("end_expr")
            return "e%d" % (L - 1 - j)
        return str(j)

    def bad_index(self, L):
        """an index outside 0..L-1, as a literal or through `end`"""
        rng = self.rng
        j = rng.choice([-1, L, L + 1, -2] if L > 0 else [0, -1, 1])
        side = "below" if j < 0 else "above"
        if rng.random() < 0.4:
            return "e%d" % (L - 1 - j), side + "/end"
        return str(j), side + "/int"

    def slice_arg(self, L, allow_scalar=True):
        rng = self.rng
        if L == 0:
            return "_", "all"
        k = rng.random()
        if k < 0.28 and allow_scalar:
            return "i:" + self.E(rng.randrange(L), L), "scalar"
        if k < 0.5:
            if L >= 2 and rng.random() < 0.04:
                e = rng.randrange(L - 1)
                return "r:%s,%s" % (self.E(e + 1, L), self.E(e, L)), "range-empty"
            b = rng.randrange(L); e = rng.randrange(b, L)
            return "r:%s,%s" % (self.E(b, L), self.E(e, L)), "range"
        if k < 0.8:
            s = rng.choice([1, 2, 2, 3, -1, -1, -2, -3, 5, -4])
            a = rng.randrange(L); b = rng.randrange(L)
            lo, hi = min(a, b), max(a, b)
            b, e = (lo, hi) if s > 0 else (hi, lo)
            return "s:%s,%s,%d" % (self.E(b, L), self.E(e, L), s), "stride+" if s > 0 else "stride-"
        return "_", "all"

    def op(self, v):
        """one operation on the oracle view v: (text, kind)"""
        rng = self.rng
        r = len(v.dims)
        bad = self.malformed and rng.random() < self.pbad
        choices = ["slice"] * 8 + ["subset"] * 2 + ["idx"] * 2 + ["softlink"] + ["permute"] * (2 if r > 1 else 1)
        if r == 2:
            square = v.dims[0] == v.dims[1]
            choices += ["T"] * 2 + ["diag"] * (3 if square else 1) + ["subdiag"] * (3 if square else 1)
        if r == 1:
            choices += ["reshape"] * 5
        empty_dim = any(d == 0 for d in v.dims)
        if r <= 4 and not empty_dim:
            choices += ["ix"] * self.w_ix
        kind = rng.choice(choices)
        if kind == "ix":
            return self.ix_op(v, bad)
        if kind == "slice":
            args, kinds = [], []
            for L in v.dims:
                a, k = self.slice_arg(L, allow_scalar=True)
                args.append(a); kinds.append(k)
            if all(k == "scalar" for k in kinds) and rng.random() < 0.85:
                j = rng.randrange(r)
                args[j] = "_"; kinds[j] = "all"
            for k in kinds:
                self.count("arg_" + k)
            if bad and self.checked:
                j = rng.randrange(r)
                L = v.dims[j]
                x, side = self.bad_index(L)
                what = rng.choice(["scalar", "begin", "end"])
                good = self.E(rng.randrange(L), L) if L > 0 else "0"
                if what == "scalar":
                    args[j] = "i:" + x
                elif what == "begin":
                    args[j] = rng.choice(["r:%s,%s" % (x, good), "s:%s,%s,%d" % (x, good, rng.choice([1, -1, 2]))])
                else:
                    args[j] = rng.choice(["r:%s,%s" % (good, x), "s:%s,%s,%d" % (good, x, rng.choice([1, -1, 2]))])
                self.count("malformed_slice_pos%d_%s_%s" % (j, what, side))
                # the remaining arguments must stay meaningful (non-negative extent): they are, by construction
                if what != "scalar":
                    # direction consistency of the malformed range itself: make sure the C++ extent is not negative
                    p = args[j][2:].split(",")
                    b, e = tok(p[0], L), tok(p[1], L)
                    s = int(p[2]) if args[j].startswith("s:") else 1
                    if cdiv(e + s - b, s) < 0:
                        args[j] = "i:" + x
            return "slice " + " ".join(args), "slice"
        if kind == "subset":
            if empty_dim and not (bad and self.checked):
                return "softlink", "softlink"
            t = []
            for L in v.dims:
                b = rng.randrange(L) if L else 0; e = rng.randrange(b, L) if L else 0
                t += [self.E(b, L), self.E(e, L)]
            if bad and self.checked:
                j = rng.randrange(2 * r)
                L = v.dims[j // 2]
                x, side = self.bad_index(L)
                t[j] = x
                k0 = j - (j % 2)
                if tok(t[k0 + 1], L) + 1 - tok(t[k0], L) < 0:     # keep the C++ extent non-negative
                    t[k0] = t[k0 + 1] = x
                self.count("malformed_subset_pos%d_%s" % (j, side))
            return "subset " + " ".join(t), "subset"
        if kind == "idx":
            L = v.dims[0]
            if bad and self.checked:
                x, side = self.bad_index(L)
                self.count("malformed_idx_" + side)
                return "idx " + x, "idx"
            if L == 0:
                return "softlink", "softlink"
            return "idx " + self.E(rng.randrange(L), L), "idx"
        if kind == "T":
            return "T", "T"
        if kind == "permute":
            p = list(range(r))
            rng.shuffle(p)
            if bad:
                j = rng.randrange(r)
                p[j] = rng.choice([-1, r, r + 1])
                self.count("malformed_permute")
            return "permute " + " ".join(map(str, p)), "permute"
        if kind == "diag":
            n = v.dims[0]
            if v.dims[0] != v.dims[1]:
                self.count("malformed_diag_nonsquare")
                return "diag %d" % rng.randint(-1, 1), "diag"
            if n == 0:
                return "diag 0", "diag"
            k = rng.randint(-n, n) if rng.random() < 0.15 else rng.randint(-(n - 1), n - 1)
            return "diag %d" % k, "diag"
        if kind == "subdiag":
            n = v.dims[0]
            if v.dims[0] != v.dims[1]:
                self.count("malformed_subdiag_nonsquare")
                return "subdiag 0 0", "subdiag"
            if bad or n == 0:
                b, e = rng.choice([(-1, 0), (1, 0), (0, n), (n, n), (2, 1)])
                self.count("malformed_subdiag_range")
                return "subdiag %d %d" % (b, e), "subdiag"
            b = rng.randrange(n); e = rng.randrange(b, n)
            return "subdiag %d %d" % (b, e), "subdiag"
        if kind == "reshape":
            n = v.dims[0]
            if n == 0:
                nd = rng.choice([[0], [0, 2], [3, 0], [2, 0, 2]])
            else:
                nd, m = [], n
                for _ in range(rng.randint(1, 5) - 1):
                    d = rng.choice([d for d in range(1, m + 1) if m % d == 0])
                    nd.append(d)
                    m //= d
                nd.append(m)
                rng.shuffle(nd)
            if bad:
                nd[rng.randrange(len(nd))] += 1
                self.count("malformed_reshape")
            return "reshape " + " ".join(map(str, nd)), "reshape"
        return "softlink", "softlink"


    # ------------------------------------------------------------ integer-vector indexing
    def ix_range(self, L, letter_end):
        """a non-empty range/stride selector; letter_end: write at least one end point through `end`"""
        rng = self.rng
        s = rng.choice([1, 1, 2, -1, -2, 3])
        a = rng.randrange(L); b = rng.randrange(L)
        lo, hi = min(a, b), max(a, b)
        b, e = (lo, hi) if s > 0 else (hi, lo)
        tb, te = self.E(b, L), self.E(e, L)
        if letter_end and not (tb.startswith("e") or te.startswith("e")):
            te = "e%d" % (L - 1 - e)
        if s == 1 and rng.random() < 0.7:
            return "r:%s,%s" % (tb, te)
        return "s:%s,%s,%d" % (tb, te, s)

    def ix_entries(self, L, maxlen):
        rng = self.rng
        m = rng.randint(1, maxlen)
        k = rng.random()
        if k < 0.25 and L >= 2:
            ent = rng.sample(range(L), min(m, L))              # distinct
        elif k < 0.35:
            ent = [rng.randrange(L)] * m                        # one entry repeated
        else:
            ent = [rng.randrange(L) for _ in range(m)]          # repeats allowed: the last write wins
        return ent

    def ix_op(self, v, bad):
        """A(S0,S1,..) with at least one index vector on the oracle view v (rank 1..4, no zero extent)"""
        rng = self.rng
        r = len(v.dims)
        if r == 1:
            letters = [rng.choice("VVXW")]
        elif r == 2:
            while True:
                letters = [rng.choice("IERRAVVVXW") for _ in range(2)]
                if any(l in IX_VEC for l in letters):
                    break
        elif r == 3:
            while True:
                letters = [rng.choice("IIEERAVVV") for _ in range(3)]
                if any(l in IX_VEC for l in letters):
                    break
        else:
            letters = list(rng.choice(IX_MENU4))
        nvec = sum(1 for l in letters if l in "VXWRA")
        maxlen = 5 if nvec <= 2 else (4 if nvec == 3 else 3)
        args = []
        for l, L in zip(letters, v.dims):
            if l == "I":
                args.append("i:%d" % rng.randrange(L))
            elif l == "E":
                args.append("i:e%d" % rng.randrange(L))
            elif l == "R":
                args.append(self.ix_range(L, False))
            elif l == "A":
                args.append("_")
            else:
                ent = self.ix_entries(L, maxlen)
                if l == "W":
                    ent = [L - 1 - x for x in ent]
                args.append("%s:%s" % (l.lower(), ",".join(map(str, ent))))
        self.count("ix_rank%d_%s" % (r, "".join(letters)) if r != 3 else "ix_rank3")
        for l in letters:
            self.count("ix_arg_" + l)
        if rng.random() < 0.04:
            # nothing selected: an empty index vector / range in the first non-scalar position (zero leading extent)
            j = next(k for k, l in enumerate(letters) if l not in "IE")
            if letters[j] in IX_VEC:
                args[j] = letters[j].lower() + ":"
                self.count("ix_empty_leading_vector")
            elif letters[j] == "R" and v.dims[j] >= 2:
                e = rng.randrange(v.dims[j] - 1)
                args[j] = "r:%d,%d" % (e + 1, e)
                self.count("ix_empty_leading_range")
        if bad and self.checked:
            # one inadmissible value: an index-vector entry, a scalar index or a range end point
            cand = [k for k, l in enumerate(letters) if l != "A"]
            j = rng.choice([k for k in cand if letters[k] in IX_VEC] * 3 + cand)
            L = v.dims[j]
            x = rng.choice([-1, L, L, L + 1, -2])
            side = "below" if x < 0 else ("at_n" if x == L else "above")
            l = letters[j]
            if l in IX_VEC:
                ent = ints_of(args[j][2:]) or [0]
                q = rng.randrange(len(ent))
                ent[q] = (L - 1 - x) if l == "W" else x
                args[j] = "%s:%s" % (l.lower(), ",".join(map(str, ent)))
                self.count("malformed_ix_entry_%s_%s" % (l, side))
            elif l in "IE":
                args[j] = "i:" + (("e%d" % (L - 1 - x)) if l == "E" else str(x))
                self.count("malformed_ix_scalar_%s_%s" % (l, side))
            else:
                good = rng.randrange(L)
                # keep the C++ extent non-negative: the bad end point is the far one in the direction of the stride
                if x < 0:
                    args[j] = rng.choice(["r:%d,%d" % (x, good), "s:%d,%d,-1" % (good, x), "s:e%d,%s,2" % (L - 1 - x, good)])
                else:
                    args[j] = rng.choice(["r:%d,%d" % (good, x), "s:%d,%d,-1" % (x, good), "s:%d,e%d,2" % (good, L - 1 - x)])
                self.count("malformed_ix_range_" + side)
        return "ix " + " ".join(args), "ix"

    def composition(self):
        """-> list of lines (parent first)"""
        line, v = self.parent()
        lines = [line]
        if self.contig:
            lines.append("contig")
        depth = self.rng.randint(1, self.depth)
        n = 0
        guard = 0
        while n < depth and guard < 4 * depth + 8:
            guard += 1
            if v is None or v.null or not v.dims:
                break
            text, kind = self.op(v)
            if kind == "ix":
                res = oracle_ix(v, text.split(), self.checked)
                if res is UNDEF or res[0] == "bad":
                    self.count("regenerated")
                    continue
                lines.append(text)
                self.count("op_ix")
                if res[0] == "err":
                    self.count("error_ix_constructor_" + res[1])
                else:
                    self.count("ix_result_rank_%d" % len(res[1]["dims"]))
                    if not res[1]["elems"]:
                        self.count("ix_result_empty")
                    elif any(not all(0 <= i < L for i, L in zip(t, v.dims)) for t in res[1]["elems"]):
                        self.count("ix_result_rejected_element")
                n += 1
                continue
            res = oracle_apply(v, text.split(), self.checked)
            if res is UNDEF or res[0] == "bad":
                self.count("regenerated")
                continue
            lines.append(text)
            self.count("op_" + kind)
            if res[0] == "err":
                self.count("error_" + res[1])
            elif res[0] == "null":
                v = OV([0], [], null=True)
                n += 1
            else:
                v = res[1]
                self.count("result_rank_%d" % len(v.dims))
                if not v.cells:
                    self.count("result_empty")
                n += 1
            if self.contig:
                lines.append("contig")
        return lines


def systematic_malformed():
    """bounds-checked build: every argument position of operator(), subset and operator[] for ranks 1..5, each with an
    index below 0 / above n-1, written as an int and through `end`; one composition per case"""
    out = []
    for r in range(1, 6):
        dims = [3, 4, 2, 3, 2][:r]
        head = "parent rm " + " ".join(map(str, dims))
        for j in range(r):
            L = dims[j]
            for x in ("-1", str(L), "e-1", "e%d" % L):          # -1, L, end+1 (= L), end-L (= -1)
                for form in ("i:%s", "r:%s,0", "r:0,%s", "s:%s,0,-1", "s:0,%s,2", "r:%s,e0", "s:e0,%s,-1"):
                    args = ["_" if k % 2 else "i:0" for k in range(r)]
                    args[j] = form % x
                    out.append([head, "slice " + " ".join(args), "softlink"])
                t = ["0", "e0"] * r
                for side in (0, 1):
                    t2 = list(t)
                    t2[2 * j + side] = x
                    if side == 0 and tok(x, L) > L - 1:
                        t2[2 * j + 1] = x                              # keep the C++ extent non-negative
                    if side == 1 and tok(x, L) < 0:
                        t2[2 * j] = x
                    out.append([head, "subset " + " ".join(t2), "softlink"])
        for x in ("-1", str(dims[0]), "e-1", "e%d" % dims[0]):
            out.append([head, "idx " + x, "softlink"])
    return out


IX_SYS_PATTERNS = {1: ["V", "X", "W"],
                   2: ["VI", "IV", "VE", "EV", "VA", "AV", "VR", "RV", "VV", "XW", "WX", "XI", "AW"],
                   3: ["VII", "IVI", "IIV", "IEV", "EIV", "VEI", "AVI", "RIV", "VAV", "VVV", "EVR", "IVA"],
                   4: list(IX_MENU4)}


def ix_valid_arg(letter, L, k):
    """an admissible selector of the given letter for a dimension of length L (k varies the values)"""
    if letter == "I":
        return "i:%d" % (k % L)
    if letter == "E":
        return "i:e%d" % (k % L)
    if letter == "R":
        return ["r:0,e0", "s:e0,0,-1", "s:0,%d,2" % (L - 1)][k % 3]
    if letter == "r":                       # plain end points: RangeIndex<int,int,int> for ranks 1-2
        return ["r:0,%d" % (L - 1), "s:%d,0,-1" % (L - 1), "s:0,%d,2" % (L - 1)][k % 3]
    if letter == "A":
        return "_"
    ent = [(k + 1) % L, 0, L - 1]
    if letter == "W":
        ent = [L - 1 - x for x in ent]
    return "%s:%s" % (letter.lower(), ",".join(map(str, ent)))


def systematic_malformed_ix():
    """bounds-checked build: for ranks 1..4 and a list of argument-type patterns per rank, every position of every
    index vector holding n, n+1 and -1 in turn (as intVector, as tmp+2, as end-tmp); every scalar position holding n
    and -1 (int and end-k); every range position with an end point n / -1.  The indexed array is a view strictly
    inside a larger parent, so that a missed test lands in the parent allocation.  One composition per case."""
    out = []
    for r in range(1, 5):
        big = [5, 6, 4, 5][:r]
        dims = [3, 4, 2, 3][:r]
        head = ["parent rm " + " ".join(map(str, big)),
                "subset " + " ".join("1 %d" % d for d in dims)]
        for pat in IX_SYS_PATTERNS[r]:
            base = [ix_valid_arg(l, L, k) for k, (l, L) in enumerate(zip(pat, dims))]
            out.append(head + ["ix " + " ".join(base)])
            for j, (l, L) in enumerate(zip(pat, dims)):
                if l in IX_VEC:
                    ent = ints_of(base[j][2:])
                    for q in range(len(ent)):
                        for x in (L, L + 1, -1):
                            e2 = list(ent)
                            e2[q] = (L - 1 - x) if l == "W" else x
                            a = list(base)
                            a[j] = "%s:%s" % (l.lower(), ",".join(map(str, e2)))
                            out.append(head + ["ix " + " ".join(a), "softlink"])
                elif l in "IE":
                    for x in (L, -1):
                        a = list(base)
                        a[j] = "i:" + (("e%d" % (L - 1 - x)) if l == "E" else str(x))
                        out.append(head + ["ix " + " ".join(a), "softlink"])
                elif l == "R":
                    for t in ("r:0,%d" % L, "r:-1,0", "s:%d,0,-1" % L, "s:e0,e%d,-1" % L, "r:0,e-1"):
                        a = list(base)
                        a[j] = t
                        out.append(head + ["ix " + " ".join(a), "softlink"])
    return out


def menu_sweep():
    """every argument-type pattern compiled into the harness, twice with different admissible values, on a view with
    pairwise different extents lying inside a larger parent (row- and column-major); run in both builds"""
    out = []
    for r in range(1, 5):
        big = [5, 6, 4, 5][:r]
        dims = [3, 4, 2, 5][:r]
        if r == 1:
            pats = ["V", "X", "W"]
        elif r == 2:
            pats = ["".join(p) for p in itertools.product("IErRAVXW", repeat=2)]
        elif r == 3:
            pats = ["".join(p) for p in itertools.product("IERAV", repeat=3)]
        else:
            pats = list(IX_MENU4)
        pats = [p for p in pats if any(l in IX_VEC for l in p)]
        for n, pat in enumerate(pats):
            head = ["parent %s %s" % ("cm" if n % 4 == 3 else "rm", " ".join(map(str, big))),
                    "subset " + " ".join("%d %d" % (b - d, b - 1) for b, d in zip(big, dims))]
            ops = ["ix " + " ".join(ix_valid_arg(l, L, k + v) for k, (l, L) in enumerate(zip(pat, dims))) for v in (0, 1)]
            out.append(head + ops)
    return out


def empty_extent_probes():
    """nothing selected in a LATER position (empty index vector / empty range behind a non-empty leading extent):
    no element exists, so nothing may be read or written.  (Pinned IndexedArray::empty() tests dimension 0 only:
    the scalar assignment then stores to cells / reads entry 0 of the empty vector; fixes/C06-indexed-empty-extent.patch)"""
    return [["parent rm 3 4", "ix v:1,0 v:"],
            ["parent rm 3 4", "ix v:1,0 r:2,1"],
            ["parent rm 2 5 4", "ix v:1,0 r:1,0 v:1"],
            ["parent rm 2 5 4", "ix v:1,0 v: v:1"],
            ["parent rm 2 5 4", "ix v:1,0 i:2 v:"],
            ["parent rm 2 5 4", "ix _ v: i:e0"],
            ["parent rm 2 3 2 3", "ix v:1 r:1,0 _ v:2,0"]]


# ====================================================================== running
def run_pair(exe, mode, comps):
    """run implementation and model on the compositions; -> (impl_lines, model_lines, rc, err)"""
    text = "mode %s\n" % mode + "".join("\n".join(c) + "\n" for c in comps)
    impl, rc, err = vcheck.run_impl(exe, [], text)
    model = vcheck.run_model("views", text)
    return impl, model, rc, err


def signature_of(err, lines=None, nout=None, checked=False):
    """signature of a crash: by the sanitizer report, or by the operation the implementation stopped in"""
    if "is_contiguous" in err:
        return "F-08:is_contiguous-reads-offset-out-of-bounds"
    if lines is not None and nout is not None and 0 <= nout < len(lines) and lines[nout].startswith("ix "):
        # replay the oracle up to the crashing `ix` to see whether it has a zero extent behind a non-zero leading one
        v = None
        for l in lines[:nout]:
            w = l.split()
            if w[0] == "parent":
                v = parent_view(w[1], [int(x) for x in w[2:]])
            elif w[0] not in ("contig", "ix") and v is not None:
                res = oracle_apply(v, w, checked)
                if res is UNDEF:
                    return None
                if res[0] == "ok":
                    v = res[1]
                elif res[0] == "null":
                    v = OV([0], [], null=True)
        res = oracle_ix(v, lines[nout].split(), checked)
        if res is not UNDEF and res[0] == "ix" and 0 in res[1]["dims"][1:] and res[1]["dims"][0] != 0:
            return SIG_EMPTY
    return None


def run_batch(ctx, exe, mode, comps, label):
    checked = (mode == "checked")
    todo = list(comps)
    crashes = 0
    while todo:
        impl, model, rc, err = run_pair(exe, mode, todo)
        if not impl or impl[0] != "mode " + mode:
            ctx.violation("harness build does not match the requested mode %s (%s): %r" % (mode, label, impl[:1]),
                          {"kind": "build-mode", "correspondence": CORR, "stderr": err[-2000:]}, tag="b", no_input=True)
            return
        pos = 1
        nxt = []
        for ci, c in enumerate(todo):
            n = len(c)
            il, ml = impl[pos:pos + n], model[pos:pos + n]
            pos += n
            nontrivial = len(c) >= 3
            ctx.count_case((mode, tuple(c)), nontrivial=nontrivial,
                           sample={"mode": mode, "ops": c, "impl_last": (il[-1][:200] if il else None)})
            if len(il) < n:
                # the implementation stopped inside this composition (sanitizer report / crash)
                crashes += 1
                shr = shrink(ctx, exe, mode, c, "crash")
                i2, _, rc2, err2 = run_pair(exe, mode, [shr])
                msg = "implementation stopped (rc=%s) while executing %r: %s" % (rc2, shr[min(len(i2) - 1, len(shr) - 1)] if i2 else "?", summarize(err2 or err))
                ctx.violation("%s [%s build]" % (msg, label),
                              {"kind": "oracle", "mode": mode, "lines": shr, "impl": i2[1:], "build": label, "message": msg,
                               "stderr": (err2 or err)[-3000:],
                               "signature": signature_of(err2 or err, shr, len(i2) - 1 if i2 else None, checked)})
                nxt = todo[ci + 1:] if crashes < 3 else []
                break
            bad = oracle(c, il, checked)
            if bad is not None:
                ctx.cov["oracle_failures"] = ctx.cov.get("oracle_failures", 0) + 1
                if ctx.cov["oracle_failures"] <= 3:
                    shr = shrink(ctx, exe, mode, c, "oracle")
                    i2, m2, _, _ = run_pair(exe, mode, [shr])
                    b2 = oracle(shr, i2[1:], checked) or bad
                    ctx.violation("%s — after %r [%s build]" % (b2[1], shr[min(b2[0], len(shr) - 1)], label),
                                  {"kind": "oracle", "mode": mode, "lines": shr, "step": b2[0], "message": b2[1],
                                   "impl": i2[1:], "model": m2[1:], "build": label,
                                   "signature": b2[2] if len(b2) > 2 else None})
            elif vcheck.first_diff(il, ml) is not None:
                ctx.cov["disagreements_checked"] += 1
                if len(ctx.pending) < 2:
                    shr = shrink(ctx, exe, mode, c, "diff")
                    i2, m2, _, _ = run_pair(exe, mode, [shr])
                    ctx.pending.append({"kind": "correspondence", "correspondence": CORR, "mode": mode, "lines": shr,
                                        "impl": i2[1:], "model": m2[1:], "build": label,
                                        "first_difference": vcheck.first_diff(i2[1:], m2[1:])})
            ctx.cov["traces_validated_against_impl"] += 1
        todo = nxt


def summarize(err):
    for l in err.splitlines():
        if "ERROR: AddressSanitizer" in l or "runtime error" in l or "LeakSanitizer" in l:
            frames = [x.strip() for x in err.splitlines() if x.strip().startswith("#")][:2]
            return (l.strip() + " " + " ".join(frames))[:600]
    return err.strip()[-300:]


def shrink(ctx, exe, mode, c, what):
    """ddmin over the operations (the parent line stays)"""
    checked = (mode == "checked")
    head, ops = c[0], c[1:]

    def fails(sub):
        comp = [head] + sub
        il, ml, rc, err = run_pair(exe, mode, [comp])
        il, ml = il[1:], ml[1:]
        if what == "crash":
            return len(il) < len(comp)
        if len(il) < len(comp):
            return False
        if what == "oracle":
            return oracle(comp, il, checked) is not None
        return vcheck.first_diff(il, ml) is not None
    if not ops:
        return c
    if len(ops) > 1:
        ops = vcheck.ddmin(list(ops), fails, max_tests=60)
    # then the entries of every index vector of every `ix` operation (ddmin over the entry list)
    budget = [40]
    for k, op in enumerate(ops):
        if not op.startswith("ix "):
            continue
        args = op.split()[1:]
        for j, a in enumerate(args):
            if a[:2] not in ("v:", "x:", "w:") or a.count(",") == 0:
                continue

            def fails_entries(ent, k=k, j=j):
                if budget[0] <= 0:
                    return False
                budget[0] -= 1
                a2 = list(args)
                a2[j] = a[:2] + ",".join(ent)
                return fails(ops[:k] + ["ix " + " ".join(a2)] + ops[k + 1:])
            ent = vcheck.ddmin(a[2:].split(","), fails_entries, max_tests=20)
            args[j] = a[:2] + ",".join(ent)
            ops = ops[:k] + ["ix " + " ".join(args)] + ops[k + 1:]
    return [head] + list(ops)


def load_corpus():
    d = os.path.join(vbuild.VERIF, "corpus", "C06")
    out = []
    if os.path.isdir(d):
        for fn in sorted(os.listdir(d)):
            if not fn.endswith(".case"):
                continue
            mode, lines = "unchecked", []
            for l in open(os.path.join(d, fn)):
                l = l.strip()
                if l.startswith("# mode"):
                    mode = l.split()[2]
                elif l and not l.startswith("#"):
                    lines.append(l)
            if lines:
                out.append((mode, lines))
    return out


def build_all():
    res, errs = {}, []

    def one(name, defs):
        try:
            res[name] = vbuild.build("views", DRIVERS, defines=defs)
        except Exception as e:      # re-raised in the main thread
            errs.append(e)
    th = [threading.Thread(target=one, args=("unchecked", [])),
          threading.Thread(target=one, args=("checked", ["ADEPT_BOUNDS_CHECKING"]))]
    for t in th:
        t.start()
    for t in th:
        t.join()
    if errs:
        raise errs[0]
    return res


def run(ctx, replay):
    thms = [NS + t for t in vcheck.prop_theorems("AdeptProofs/Props/C06.lean", "C06_")]
    fails = vcheck.lean_gate(ctx, ["AdeptProofs.Props.C06"], thms, required=[NS + r for r in REQUIRED])
    exes = build_all()
    ctx.pending = []
    ctx.assumptions += [
        "the default build is given admissible arguments only (scalar indices and range end points in 0..n-1, non-zero "
        "stride); permute is given a permutation; direction-inconsistent ranges further apart than one stride and "
        "diag_vector offsets beyond n yield an Array with a negative dimension in both builds (modelled as Err.undefined, "
        "outside the property)",
        "Index arithmetic does not overflow; element type int, passive arrays (views of active arrays share this code "
        "but are not executed here); ranks 1..5 (the C++ supports 7)",
        "integer-vector indexing: ranks 1..4, argument-type patterns of the compiled menu (drv_views_idx.h); the default "
        "build is given admissible index-vector entries only; a zero extent behind a non-zero leading extent is probed by "
        "seven fixed regression cases (finding F-47, fixed), the random streams select "
        "nothing only through the first non-scalar argument",
    ]
    if replay:
        r = json.load(open(replay))
        mode = r.get("mode", "unchecked")
        run_batch(ctx, exes[mode], mode, [r["lines"]], mode)
        report_pending(ctx, fails)
        return
    quick = ctx.tier == "quick"
    depth = 4 if quick else 6
    n_valid, n_valid_chk, n_malf, n_contig = (3000, 800, 1500, 400) if quick else (60000, 14000, 26000, 4000)
    stats = {}
    corpus = load_corpus()
    for mode, lines in corpus:
        run_batch(ctx, exes[mode], mode, [lines], mode + "/corpus")
    ctx.notes["corpus_cases"] = len(corpus)
    # is_contiguous probes first (a crash there is finding F-08 on an unrepaired tree)
    g = Gen(ctx.rng, False, False, depth, stats, contig=True)
    comps = [["parent rm 6", "contig"], ["parent rm 2 3", "contig", "T", "contig"], ["parent cm 2 3", "contig", "T", "contig"]]
    comps += [g.composition() for _ in range(n_contig)]
    run_batch(ctx, exes["unchecked"], "unchecked", comps, "default/contig")
    for mode, n, malformed in (("unchecked", n_valid, False), ("checked", n_valid_chk, False), ("checked", n_malf, True)):
        # the "valid" streams still contain the errors that both builds raise (non-square diag_vector, bad
        # submatrix_on_diagonal range, reshape size mismatch, permute dimension out of range)
        g = Gen(ctx.rng, True, True, depth, stats) if malformed else GenValid(ctx.rng, mode == "checked", depth, stats)
        comps = [g.composition() for _ in range(n)]
        label = ("default" if mode == "unchecked" else "bounds-checking") + ("/malformed" if malformed else "/valid")
        step = 4000
        for k in range(0, len(comps), step):
            run_batch(ctx, exes[mode], mode, comps[k:k + step], label)
    sysm = systematic_malformed()
    ctx.notes["systematic_malformed_cases"] = len(sysm)
    run_batch(ctx, exes["checked"], "checked", sysm, "bounds-checking/systematic")
    sweep = menu_sweep()
    ctx.notes["indexed_menu_patterns"] = len(sweep)
    run_batch(ctx, exes["unchecked"], "unchecked", sweep, "default/indexed-menu")
    run_batch(ctx, exes["checked"], "checked", sweep, "bounds-checking/indexed-menu")
    sysx = systematic_malformed_ix()
    ctx.notes["systematic_malformed_indexed_cases"] = len(sysx)
    run_batch(ctx, exes["checked"], "checked", sysx, "bounds-checking/systematic-indexed")
    # zero extent behind a non-zero leading extent: one process per probe (the pinned tree may stop in it)
    for mode in ("unchecked", "checked"):
        for c in empty_extent_probes():
            run_batch(ctx, exes[mode], mode, [c], ("default" if mode == "unchecked" else "bounds-checking") + "/indexed-empty-extent")
    ctx.notes["distribution"] = dict(sorted(stats.items()))
    ctx.cov["rule"] = ("compositions = parent (rank 1..5, row- or column-major, volume <= 240) followed by 1..%d view-forming "
                       "operations drawn from slice(int/end-k/range/stride(+/-)/__), subset, operator[], T, permute, diag_vector, "
                       "submatrix_on_diagonal, reshape, soft_link, and (ranks 1..4) integer-vector indexing A(S0,..) with "
                       "scalar/end-k/range/__/intVector/integer-expression selectors read and assigned through; %d admissible compositions on the default build, %d on the "
                       "bounds-checked build, %d with out-of-range values injected per argument position on the bounds-checked "
                       "build, %d with is_contiguous() probed after every step; non-trivial = at least two operations; distinct "
                       "= different (mode, op list)" % (depth, n_valid, n_valid_chk, n_malf, n_contig))
    ctx.cov["exhaustive"] = False
    report_pending(ctx, fails)


class GenValid(Gen):
    """admissible index values; still produces the errors both builds raise (non-square diag, bad permute/reshape/submatrix)"""
    def __init__(self, rng, checked, depth, stats):
        Gen.__init__(self, rng, checked, True, depth, stats, pbad=0.1)

    def op(self, v):
        # index values stay admissible: the malformed branch of slice/subset/idx is only taken for checked+malformed
        saved = self.checked
        self.checked = False
        try:
            return Gen.op(self, v)
        finally:
            self.checked = saved


def report_pending(ctx, fails):
    if ctx.violations:
        return
    for p in ctx.pending[:1]:
        ctx.violation("model and implementation disagree on a view composition (%s build, first differing line %s: impl %r / "
                      "model %r); the element-wise oracle found no composition on which the property itself fails"
                      % (p["build"], p["first_difference"],
                         (p["impl"][p["first_difference"]][:120] if p["first_difference"] is not None and p["first_difference"] < len(p["impl"]) else None),
                         (p["model"][p["first_difference"]][:120] if p["first_difference"] is not None and p["first_difference"] < len(p["model"]) else None)),
                      p, tag="c", no_input=True)
    if fails and not ctx.violations:
        ctx.violation("proof obligation of C06 no longer checks: " + fails[0][:400],
                      {"kind": "proof", "theorem": "AdeptProofs/Props/C06.lean", "failures": fails}, tag="p", no_input=True)
