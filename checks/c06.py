"""C06 — views address exactly the elements their index expressions denote.

proof:  lean/AdeptProofs/Props/C06.lean (address / rank / extent theorem per operation, composition over a list of
        operations, containment in the parent and in the allocation, rejection in the bounds-checked build,
        is_contiguous, evaluation of `end` arithmetic and of integer-vector expressions) over the model
        lean/AdeptModel/Views.lean.
tie:    hand-written model  <->  Array::operator()(int / index expression / range / stride / __), subset, operator[], T,
        permute, diag_vector, submatrix_on_diagonal, reshape, soft_link, is_contiguous, executed by harness/drv_views*.cpp
        on Array<r,int>, r = 1..6 (row- and column-major parents holding their own cell numbers), on ACTIVE arrays
        Array<r,double,true>, r = 1..3 (op `aparent`; also gradient_index() of every view) and on FixedArray<int,false,..>
        parents (op `fparent`: FixedArray.h has its own copy of every member).  Every member that has a const overload
        (operator() scalar and ranged, subset, operator[], T, soft_link, integer-vector operator()) is driven through the
        non-const AND the const object (op prefix `c`, chosen per operation), on views that are themselves views with
        non-unit / negative strides and non-zero begin.  After every operation: rank, extents, offsets,
        data()-parent.data(), every element (read through the const operator()), then a write of fresh values through
        the view (non-const operator()) and a diff of the whole parent allocation; compared exactly with the model.
        WHOLE-VIEW OPERATIONS (harness/drv_views_w.h): every view of rank >= 1 held by an Array (all ranks, all view kinds,
        passive, active, views of FixedArray parents) is then ALSO exercised through the library's own loops over "all
        elements" -- V = -5, V += 1000, B = V (B empty: takes the view's extents), V = B*2+3, the move assignment V2 =
        <temporary Array> (V2 a copy of the view object), sum(V), maxval(V), V.where(V > t) = -9, and for rank 1 count(V > t)
        / find(V > t) -- each on the parent holding its own cell numbers, followed by a before/after comparison of EVERY cell
        of the parent allocation (stray stores inside the allocation) under AddressSanitizer red zones of >= 512 bytes
        around it (stray accesses outside).  A selection WITHOUT elements (empty range r:k,k-1 / empty stride in ANY
        position) must be an empty array -- all extents zero, the view constructors' convention after F-76 -- and every
        whole-view operation must leave the parent alone, B stays empty, sum = maxval = 0 (reduce.h).  Zero-extent selectors
        are generated at random (9% of the range / stride arguments) and by a directed sweep: every rank 1..6 x every
        position x 7 empty selectors x every kind of neighbour selector, on passive rm/cm parents, strided receivers, active
        arrays and FixedArray parents, followed by members applied to the empty view.
        ELEMENT ACCESS: operator() with only scalar arguments (its own accessor function per class x rank x const-ness in
        Array.h / FixedArray.h; model elemAccess = sum of index*offset, fixedElemAccess = FixedArray's Horner form) is
        dispatched separately (every argument passed exactly as written, per position an int or end-k, and ONE argument, in
        any position, may be `end` arithmetic: end, end/k, k-end, k/end, (end-k)/m, ranks 1-2 more; harness/drv_views_el.h;
        const and non-const accessor) for Array<r,int> r = 1..6, active Array r = 1..3, FixedArray<int,false,..> 4 / 3x4 /
        3x3 / 2x3x4 / 2x3x4x5, and for objects of which only the element accessors are driven: FixedArray<int,false,..>
        3x2x5x4 / 2x3x1x4x5 / 3x1x4x2x6x5 (op `efparent`) and ACTIVE FixedArray<double,true,..> 4 / 3x4 / 2x3x4 / 3x2x5x4 (op
        `afparent`; rank 1 also operator[]).  A directed sweep puts 0 / middle / last index (bounds-checked build also n and
        -1) as int, as end-k and through every compiled shape of `end` arithmetic into every position of every such object
        (pairwise different extents), const and non-const; 7% of the random operator() calls on the other objects are
        element accesses (half of them with one argument rewritten as `end` arithmetic), 9% of the random parents are
        element-only objects.
        PERMUTE OVERLOADS: permute(const Index*), permute(const ExpressionSize<Rank>&) (op permuteE) and permute(i0,i1,..)
        (op permuteV, ranks 2..6; a -1 among the arguments raises invalid_dimension) of Array and FixedArray: a directed
        sweep and 40% of the random permute calls.
        Two builds: default (admissible arguments only) and -DADEPT_BOUNDS_CHECKING (also a malformed stream that puts an
        out-of-range value in every argument position).
        Index expressions: an index, range end point or stride is k, end-k, or one of the compiled shapes of `end`
        arithmetic (XSHAPES below = harness/drv_views.h: k-end, end/k, k/end, (end-k)/m, end, k+end, k*end, end-end/k,
        end+k, end*k, k-end/m, k*end-m, (k-end)*m, k/(end-m), k-(m-end), max(end-k,m), min(k,end), end*end/k,
        end/k+end/m: scalar-left, scalar-right and expression-expression forms of + - * / max min, nested), the integers
        solved so that the expression has the wanted value; rank 1: every shape in the roles scalar / range begin / range
        end / both / stride, rank 2: 8 shapes (scalar, begin, end), ranks 3..6: 4 shapes (scalar, begin); one such argument
        per call.
        Integer-vector indexing (IndexedArray.h; op `ix`, harness/drv_views_idx*.cpp, model AdeptModel/IndexedViews.lean):
        A(S0,S1,..) on the current view of rank 1..4 with every S a scalar / range / stride / __ / intVector / integer
        vector expression (tmp+2, end-tmp and the shapes VSHAPES: k-idx, idx*k, (end-idx)/k, idx+idx, k+idx, k*idx, idx/k,
        idx-k, end-idx*k, (k-idx)-end, k/idx, min(idx,k), max(k,idx)), at least one vector; the argument-type patterns are
        a menu compiled once, the values come from the stream.  The intVector of a selector is dense or itself a VIEW
        (layout prefix of the entry list: strided / reversed / offset part of a larger intVector, column / row of an
        intMatrix; Array::value_with_len_ must step with the view's offset) or a FixedArray<int,false,3> (selector f:).
        Answer: rank, extents, the values read by B = A(..), the
        diff of the whole parent allocation after A(..) = V (fresh values) and after A(..) = -7.  In the bounds-checked
        build also: entries n, n+1, -1 at every position of every index vector, bad scalars and range end points.
oracle: the composed index map evaluated element by element in Python (a view is the list of parent cells it
        denotes; no base/stride arithmetic, no use of the Lean model; index expressions evaluated by a small Python
        evaluator with C truncating division), judged against the implementation's output.  The expected outcome of every
        whole-view operation (cells changed and their values, extents and values of B, sum, maximum, count, positions) is
        derived from the list of denoted cells alone.
        For `ix`: per dimension the list of parent indices the selector denotes (plain integer arithmetic), the
        elements are the tuples of their product in index order; an element with a component outside 0..n-1 must not
        be accessed (bounds-checked build: index_out_of_bounds, and the only cells changed are cells of in-range
        elements holding a value assigned to them).
"""
import os, json, itertools, threading
import vbuild, vcheck

LEVEL = "proof"
NS = "Adept.Views."
REQUIRED = ["C06_slice_addr", "C06_slice_rank", "C06_range_extent", "C06_subset_addr", "C06_sub1_addr", "C06_T_addr",
            "C06_permute_addr", "C06_diag_addr", "C06_subdiag_addr", "C06_reshape_addr", "C06_softlink_addr",
            "C06_compose_addr", "C06_within_parent", "C06_cells_subset", "C06_within_allocation",
            "C06_checked_rejects", "C06_checked_rejects_sub1", "C06_checked_rejects_subset", "C06_checked_accepts",
            "C06_within_parent_checked", "C06_is_contiguous_iff",
            "C06_indexed_addr", "C06_indexed_extents", "C06_indexed_within_parent", "C06_indexed_read_write",
            "C06_indexed_write_through", "C06_indexed_checked_rejects",
            "C06_endexpr_forms", "C06_endexpr_operand_order", "C06_endexpr_reversal", "C06_endexpr_midpoint_admissible",
            "C06_vexpr_entry", "C06_stride_expr_addr",
            "C06_empty_view_canonical", "C06_nonempty_unchanged", "C06_reachable_canonical", "C06_isEmpty_iff_no_element",
            "C06_elem_own_dimension", "C06_elem_addr", "C06_elem_unchecked_total", "C06_elem_checked_iff",
            "C06_elem_is_rank0_slice", "C06_fixed_elem_addr", "C06_fixed_elem_unchecked_total", "C06_fixed_elem_checked_iff",
            "C06_permute_args_addr"]
H = os.path.join(vbuild.VERIF, "harness")
DRIVERS = [os.path.join(H, f) for f in
           ["drv_views.cpp"] + ["drv_views_r%d%s.cpp" % (r, x) for r in (4, 5, 6) for x in ("", "i", "e")] +
           ["drv_views_act.cpp", "drv_views_fix.cpp", "drv_views_fix4.cpp", "drv_views_x1.cpp", "drv_views_x2.cpp", "drv_views_x3.cpp",
            "drv_views_x4.cpp", "drv_views_x5.cpp", "drv_views_x6.cpp",
            "drv_views_idx.cpp", "drv_views_idx2a.cpp", "drv_views_idx2b.cpp", "drv_views_idx2c.cpp", "drv_views_idx2d.cpp",
            "drv_views_idx3.cpp", "drv_views_idx3r.cpp", "drv_views_idx3v.cpp", "drv_views_idx4.cpp",
            "drv_views_w123.cpp", "drv_views_w456.cpp", "drv_views_wact.cpp",
            "drv_views_ela.cpp", "drv_views_elb.cpp", "drv_views_elc.cpp", "drv_views_eld.cpp", "drv_views_ele.cpp"]]
CORR = ("AdeptModel/Views.lean, AdeptModel/IndexedViews.lean <-> Array view-forming member functions and IndexedArray "
        "(harness/drv_views*.cpp)")
SIG_EMPTY = "indexed-array-zero-extent-after-nonzero-leading-extent"
# guard zones around the parent allocation: AddressSanitizer red zones of at least 512 bytes (128 int / 64 double cells) on
# both sides of every heap block; inside the allocation every cell is compared before/after each whole-view operation
ASAN_OPTS = "detect_leaks=1:abort_on_error=0:halt_on_error=1:redzone=512"


# ====================================================================== oracle: views as lists of parent cells
class OV:
    """a view = extents + the parent cell of every element, in index order (last index fastest)"""
    __slots__ = ("dims", "cells", "null")

    def __init__(self, dims, cells, null=False):
        self.dims, self.cells, self.null = list(dims), list(cells), null

    def at(self, ix):
        k = 0
        for i, d in zip(ix, self.dims):
            k = k * d + i
        return self.cells[k]


def parent_view(order, dims):
    n = 1
    for d in dims:
        n *= d
    if order == "rm":
        return OV(dims, range(n))
    cells = []
    for ix in itertools.product(*[range(d) for d in dims]):   # column-major: first index fastest in memory
        c, m = 0, 1
        for i, d in zip(ix, dims):
            c += i * m
            m *= d
        cells.append(c)
    return OV(dims, cells)


# ---------------------------------------------------------------------- index expressions
# E = k | eK (end - K) | end | (E op E),  op = + - * / > (max) < (min); inside an index-vector expression also `v`.
# The harness compiles a menu of expression SHAPES (the text with every integer replaced by #): same lists, same order,
# as XSHAPES / VSHAPES of harness/drv_views.h and drv_views_idx.h.  The first XMENU[r] shapes exist for rank-r views.
XSHAPES = ["(#-end)", "(end/#)", "(#/end)", "((end-#)/#)", "end", "(#+end)", "(#*end)", "(end-(end/#))", "(end+#)", "(end*#)",
           "(#-(end/#))", "((#*end)-#)", "((#-end)*#)", "(#/(end-#))", "(#-(#-end))", "((end-#)>#)", "(#<end)",
           "((end*end)/#)", "((end/#)+(end/#))"]
XMENU = {1: 19, 2: 8, 3: 4, 4: 4, 5: 4, 6: 4}
# ELEMENT access (only scalar arguments, harness/drv_views_el.h): the first ELMENU[r] shapes, ONE rich argument per call in any
# position, for every kind of object
ELMENU = {1: 19, 2: 8, 3: 5, 4: 5, 5: 5, 6: 5}
VSHAPES = ["(#-v)", "(v*#)", "((end-v)/#)", "(v+v)", "(#+v)", "(#*v)", "(v/#)", "(v-#)", "(end-(v*#))", "((#-v)-end)", "(#/v)",
           "(v<#)", "(#>v)"]
NVMENU2 = 4


class Undef(Exception):
    """the C++ evaluation has undefined behaviour (division by zero): outside the property, never generated"""


def cdiv(a, b):
    if b == 0:
        raise Undef()
    q = abs(a) // abs(b)
    return q if (a >= 0) == (b > 0) else -q


def px_parse(t):
    """expression text -> tree: int | 'end' | 'v' | (op, left, right); ValueError when malformed"""
    def operand(i, depth):
        if depth > 12 or i >= len(t):
            raise ValueError(t)
        if t[i] == "(":
            l, i = operand(i + 1, depth + 1)
            if i >= len(t) or t[i] not in "+-*/<>":
                raise ValueError(t)
            op = t[i]
            r, i = operand(i + 1, depth + 1)
            if i >= len(t) or t[i] != ")":
                raise ValueError(t)
            return (op, l, r), i + 1
        if t.startswith("end", i):
            return "end", i + 3
        if t[i] == "v":
            return "v", i + 1
        j = i + 1 if t[i] == "-" else i
        k = j
        while k < len(t) and t[k].isdigit():
            k += 1
        if k == j:
            raise ValueError(t)
        return int(t[i:k]), k
    node, i = operand(0, 0)
    if i != len(t):
        raise ValueError(t)
    return node


def px_eval(n, end, v=None):
    """value of the tree with `end` = last index of the dimension (and v = one entry of the index vector)"""
    if isinstance(n, int):
        return n
    if n == "end":
        return end
    if n == "v":
        if v is None:
            raise ValueError("v")
        return v
    op, l, r = n
    a, b = px_eval(l, end, v), px_eval(r, end, v)
    if op == "+":
        return a + b
    if op == "-":
        return a - b
    if op == "*":
        return a * b
    if op == "/":
        return cdiv(a, b)
    if op == ">":
        return b if a < b else a
    return a if a < b else b


def px_shape(n):
    if isinstance(n, int):
        return "#"
    if isinstance(n, str):
        return n
    return "(%s%s%s)" % (px_shape(n[1]), n[0], px_shape(n[2]))


def px_fill(shape, consts):
    """the expression text of a shape with its integers"""
    it = iter(consts)
    return "".join(str(next(it)) if ch == "#" else ch for ch in shape)


def tok_rich(t):
    return t.startswith("(") or t == "end"


def tok_info(t):
    """-> ('I', None) | ('E', None) | ('X', shape number or None when the shape is not in the menu); ValueError if malformed"""
    if tok_rich(t):
        n = px_parse(t)
        sh = px_shape(n)
        if "v" in sh:
            raise ValueError(t)
        if sh == "(end-#)":
            return ("E", None)
        return ("X", XSHAPES.index(sh) if sh in XSHAPES else None)
    if t.startswith("e"):
        int(t[1:])
        return ("E", None)
    int(t)
    return ("I", None)


def tok(t, length):
    """value of an index expression for a dimension of this length"""
    if tok_rich(t):
        return px_eval(px_parse(t), length - 1)
    if t.startswith("e"):
        return length - 1 - int(t[1:])
    return int(t)


UNDEF = ("undef",)   # the C++ has no meaningful result; never generated, never judged
NOTCOMPILED = ("bad", "not-compiled")   # a legitimate call whose argument types are not in the harness menu


def arg_parts(a):
    """slice argument -> (kind, [tokens]) with kind S (scalar) / R (range, stride) / A (all); ValueError if malformed"""
    if a == "_":
        return "A", []
    if a.startswith("i:"):
        return "S", [a[2:]]
    p = a[2:].split(",")
    if a.startswith("r:") and len(p) == 2:
        return "R", p
    if a.startswith("s:") and len(p) == 3:
        if tok_info(p[2])[0] == "E":
            raise ValueError(a)
        return "R", p
    raise ValueError(a)


def slice_compiled(kind, r, args):
    """is this operator() call in the menu of argument types compiled into the harness (drv_views.h)?
    kind: P passive Array, A active Array, F FixedArray"""
    parts = [arg_parts(a) for a in args]
    infos = [[tok_info(t) for t in toks] for _, toks in parts]
    rich = [k for k, inf in enumerate(infos) if any(c == "X" for c, _ in inf)]
    if not rich:
        if kind == "P" and r == 6:
            return all(k != "A" or j == r - 1 for j, (k, _) in enumerate(parts))
        return True
    if len(rich) > 1:
        return False
    j = rich[0]
    k, inf = parts[j][0], infos[j]
    if all(kk == "S" for kk, _ in parts):
        # element access: one rich scalar in any position, every kind of object
        return inf[0][1] is not None and inf[0][1] < ELMENU[r]
    if kind != "P":
        return False
    lim = XMENU[r]
    if k == "S":
        ok = inf[0][1] is not None and inf[0][1] < lim
    else:
        rb, re_ = inf[0][0] == "X", inf[1][0] == "X"
        rs = len(inf) == 3 and inf[2][0] == "X"
        ids = [i for c, i in inf if c == "X"]
        if any(i is None or i >= lim for i in ids):
            return False
        if rb and not re_ and not rs:
            ok = True                                   # role begin
        elif re_ and not rb and not rs:
            ok = r <= 2                                 # role end
        elif rb and re_ and not rs:
            ok = r == 1 and ids[0] == ids[1]            # both, same shape
        elif rs and not rb and not re_:
            ok = r == 1                                 # role stride
        else:
            ok = False
    if not ok:
        return False
    if r >= 3:
        # the other arguments: scalars and __ (ranks 4..6: __ in the last position only)
        return all(kk == "S" or (kk == "A" and (r < 4 or jj == r - 1)) for jj, (kk, _) in enumerate(parts) if jj != j)
    return True


def tokens_compiled(kind, r, toks):
    """subset(b0,e0,..) / operator[](i): at most one rich token, passive ranks 1-2"""
    inf = [tok_info(t) for t in toks]
    rich = [i for c, i in inf if c == "X"]
    if not rich:
        return True
    return len(rich) == 1 and kind == "P" and r <= 2 and rich[0] is not None and rich[0] < XMENU[r]


def sel_range(b, e, s, length, checked):
    """indices denoted by stride(b,e,s) in a dimension of this length"""
    if checked and not (0 <= b < length and 0 <= e < length):
        return "index_out_of_bounds"
    if s == 0 or cdiv(e + s - b, s) < 0:
        return UNDEF
    if not checked and not (0 <= b < length and 0 <= e < length):
        return UNDEF
    return list(range(b, e + (1 if s > 0 else -1), s))


def constructed(dims, cells):
    """the Array a view-forming member returns: a selection without elements (some extent zero) is an EMPTY array, and an
    empty array has all extents zero (the library's convention for arrays without elements: Array::resize, clear(), the
    default constructor; repair F-76 makes the view constructors follow it)"""
    dims = list(dims)
    if 0 in dims:
        return OV([0] * len(dims), [])
    return OV(dims, cells)


def gather(v, sels, drop):
    """new view whose element (i0,i1,..) is v[sels[0][i0], sels[1][i1], ..]; dimensions in `drop` are removed"""
    nd = [len(s) for s, dr in zip(sels, drop) if not dr]
    cells = [v.at(ix) for ix in itertools.product(*sels)]
    return constructed(nd, cells)


CONST_OPS = ("slice", "subset", "idx", "T", "softlink")


def oracle_apply(v, w, checked, kind="P"):
    """-> ('ok', OV) | ('err', class) | ('bad',) | NOTCOMPILED | ('null',) | UNDEF   (documented semantics, element by element)
    kind: the object the member is called on (P passive Array, A active Array, F the FixedArray parent)"""
    if v is None or v.null:
        return ("bad",)
    r = len(v.dims)
    op = w[0]
    const = False
    if op.startswith("c") and op[1:] in ("slice", "subset", "idx", "T", "softlink", "permute", "permuteE", "permuteV", "diag", "subdiag", "reshape"):
        const, op = True, op[1:]
        if op not in CONST_OPS:
            return ("bad",)                 # permute, diag_vector, submatrix_on_diagonal, reshape have no const overload
    try:
        if r == 0:
            return ("bad",)
        if kind in "EG":
            # a FixedArray driven through its element accessors only: all-scalar operator(), rank 1 also operator[]
            if not ((op == "slice" and len(w) == r + 1 and all(a.startswith("i:") for a in w[1:])) or (op == "idx" and r == 1)):
                return ("bad",)
        if op in ("permuteE", "permuteV"):
            # permute(const ExpressionSize<Rank>&) = permute(&idim[0]); permute(i0,i1,..) (ranks 2..6): "Incorrect number of
            # dimensions provided to permute" (invalid_dimension) when an argument is -1, then permute(idim)
            p = [int(x) for x in w[1:]]
            if len(p) != r or (op == "permuteV" and not 2 <= r <= 6):
                return ("bad",)
            if op == "permuteV" and -1 in p:
                return ("err", "invalid_dimension")
            op = "permute"
        if op == "slice" or op == "subset":
            args = w[1:]
            if op == "subset":
                if len(args) != 2 * r:
                    return ("bad",)
                if not tokens_compiled(kind, r, args):
                    return NOTCOMPILED
                args = ["r:%s,%s" % (args[2 * k], args[2 * k + 1]) for k in range(r)]
            else:
                if len(args) != r:
                    return ("bad",)
                if not slice_compiled(kind, r, args):
                    return NOTCOMPILED
            sels, drop = [], []
            undef = False
            for a, L in zip(args, v.dims):
                if a == "_":
                    sels.append(list(range(L))); drop.append(False)
                elif a.startswith("i:"):
                    j = tok(a[2:], L)
                    if not 0 <= j < L:
                        if checked:
                            return ("err", "index_out_of_bounds") if not undef else UNDEF
                        undef = True
                    sels.append([j]); drop.append(True)
                else:
                    p = a[2:].split(",")
                    b, e = tok(p[0], L), tok(p[1], L)
                    s = tok(p[2], L) if a.startswith("s:") else 1
                    x = sel_range(b, e, s, L, checked)
                    if x == "index_out_of_bounds":
                        return ("err", x) if not undef else UNDEF
                    if x is UNDEF:
                        undef = True
                        x = []
                    sels.append(x); drop.append(False)
            if undef:
                return UNDEF
            return ("ok", gather(v, sels, drop))
        if op == "idx" and len(w) == 2:
            if not tokens_compiled(kind, r, [w[1]]):
                return NOTCOMPILED
            if const and kind == "F" and r > 1:
                return NOTCOMPILED          # FixedArray has no const operator[] for rank > 1
            j = tok(w[1], v.dims[0])
            if not 0 <= j < v.dims[0]:
                return ("err", "index_out_of_bounds") if checked else UNDEF
            return ("ok", gather(v, [[j]] + [list(range(d)) for d in v.dims[1:]], [True] + [False] * (r - 1)))
        if op == "T" and len(w) == 1:
            if r != 2:
                return ("bad",)
            return ("ok", OV([v.dims[1], v.dims[0]], [v.at((j, i)) for i in range(v.dims[1]) for j in range(v.dims[0])]))
        if op == "permute":
            p = [int(x) for x in w[1:]]
            if len(p) != r:
                return ("bad",)
            if v.dims[0] == 0:
                return ("err", "empty_array")
            if any(not 0 <= x < r for x in p):
                return ("err", "invalid_dimension")
            nd = [v.dims[x] for x in p]
            if 0 in nd:
                return ("err", "invalid_dimension")
            if sorted(p) != list(range(r)):
                return UNDEF          # "each dimension must be provided once only"
            cells = []
            for ix in itertools.product(*[range(d) for d in nd]):
                jx = [0] * r
                for i, x in zip(ix, p):
                    jx[x] = i
                cells.append(v.at(jx))
            return ("ok", OV(nd, cells))
        if op == "diag" and len(w) == 2:
            if r != 2:
                return ("bad",)
            k = int(w[1])
            if v.dims[0] == 0:
                return ("null",)
            if v.dims[0] != v.dims[1]:
                return ("err", "invalid_operation")
            n = v.dims[0]
            if abs(k) > n:
                return UNDEF
            return ("ok", OV([n - abs(k)], [v.at((i, i + k) if k >= 0 else (i - k, i)) for i in range(n - abs(k))]))
        if op == "subdiag" and len(w) == 3:
            if r != 2:
                return ("bad",)
            b, e = int(w[1]), int(w[2])
            if v.dims[0] != v.dims[1]:
                return ("err", "invalid_operation")
            if b < 0 or b > e or e >= v.dims[0]:
                return ("err", "index_out_of_bounds")
            rr = list(range(b, e + 1))
            return ("ok", gather(v, [rr, rr], [False, False]))
        if op == "reshape":
            nd = [int(x) for x in w[1:]]
            if r != 1 or kind == "F" or not 1 <= len(nd) <= (3 if kind == "A" else 6):
                return ("bad",)
            n = 1
            for d in nd:
                n *= d
            if n != v.dims[0]:
                return ("err", "invalid_dimension")
            if any(d < 0 for d in nd):
                return UNDEF
            return ("ok", constructed(nd, v.cells))
        if op == "softlink" and len(w) == 1:
            if kind == "F":
                return ("bad",)             # FixedArray has no soft_link
            return ("ok", constructed(v.dims, v.cells))
    except ValueError:
        return ("bad",)
    except Undef:
        return UNDEF
    return ("bad",)



# ====================================================================== oracle: integer-vector indexing
IX_MENU4 = ("IEVA", "EIEV", "VIEI", "AVIE", "IVRE", "VVVV", "EAVV", "RVAI", "IIEV", "VEEI", "AIVE", "VRAV")
IX_VEC = "VXW"
IX_PARTNER = "IERAV"        # partners of a vector expression U<n> (n < NVMENU2) in a rank-2 call (R: a range with an `end` end point)


def ix_letter(a):
    """letter of the C++ argument type the harness uses for selector token a (None: malformed / not in any menu):
    I int, E end-k, r range of ints, R range with an `end` end point, A __, V intVector, X tmp+2, W end-tmp,
    U<n> vector expression number n of VSHAPES, Y<n> rich scalar expression number n of XSHAPES, F FixedArray<int,false,3>"""
    if a == "_":
        return "A"
    try:
        if a[:2] in ("v:", "x:", "w:"):
            return a[0].upper() if layout_ok(a[2:]) else None
        if a.startswith("f:"):
            return "F" if "|" not in a and len(ints_of(a[2:])) == 3 else None
        if a.startswith("u:"):
            p = a[2:].split(":")
            if len(p) != 2 or not layout_ok(p[1]):
                return None
            sh = px_shape(px_parse(p[0]))
            return "U%d" % VSHAPES.index(sh) if sh in VSHAPES else None
        k, toks = arg_parts(a)
        inf = [tok_info(t) for t in toks]
        if k == "S":
            if inf[0][0] == "X":
                return "Y%d" % inf[0][1] if inf[0][1] is not None and inf[0][1] < XMENU[2] else None
            return inf[0][0]
        if any(c == "X" for c, _ in inf):
            return None                     # rich end points / strides are driven through `slice`, not through `ix`
        return "R" if "E" in (inf[0][0], inf[1][0]) else "r"
    except ValueError:
        return None


def ix_is_vec(l):
    return l in ("V", "X", "W", "F") or l.startswith("U")


def ix_compiled(letters):
    """is this argument-type pattern in the menu compiled into the harness (drv_views_idx.h)?"""
    r = len(letters)
    if not any(ix_is_vec(l) for l in letters):
        return False
    if r == 1:
        return True
    if r == 2:
        f, l = letters
        plain = lambda x: x in tuple("IErRAVXW")
        u2 = lambda x: x == "F" or (x.startswith("U") and int(x[1:]) < NVMENU2)
        return ((plain(f) and plain(l)) or (u2(f) and l in IX_PARTNER) or (u2(l) and f in IX_PARTNER)
                or (f.startswith("Y") and l == "V") or (l.startswith("Y") and f == "V"))
    if r == 3:
        us = [l for l in letters if l.startswith("U")]
        if us:                              # one vector expression (first NVMENU2 shapes) between two scalars
            return len(us) == 1 and int(us[0][1:]) < NVMENU2 and all(l in "IE" or l.startswith("U") for l in letters)
        return all(l in "IErRAV" for l in letters)
    if r == 4:
        return "".join("R" if l == "r" else l for l in letters) in IX_MENU4
    return False


def ints_of(t):
    """entry list `a,b,c`, possibly behind a layout prefix `L|` (the index vector is then a VIEW holding these entries in
    index order: sOFF.STR strided / reversed / offset part of a larger intVector, cK.NC / rK.NR column / row of an
    intMatrix; a view of an index vector is just another entry list, so the oracle ignores the layout)"""
    t = t.split("|")[-1]
    return [int(x) for x in t.split(",")] if t else []


def layout_ok(t):
    """is the layout prefix of an entry list (if any) one the harness can build? (ValueError if malformed)"""
    if "|" not in t:
        return True
    lay, ent = t.split("|")
    n = len(ints_of(ent))
    if lay[:1] not in ("s", "c", "r"):
        raise ValueError(t)
    p, q = [int(x) for x in lay[1:].split(".")]
    if n == 0:
        return True
    if lay[0] == "s":
        return q != 0 and 0 <= p <= 4096 and 0 <= p + (n - 1) * q <= 4096
    return 1 <= q <= 64 and 0 <= p < q


def oracle_ix(v, w, checked, kind="P"):
    """A(S0,S1,..) on the oracle view v -> ('bad',) | NOTCOMPILED | ('err', class) | UNDEF |
    ('ix', {'dims': extents, 'elems': parent index tuple of every element in index order, 'pdims': v.dims})"""
    if v is None or v.null or not v.dims or kind != "P":
        return ("bad",)
    args = w[1:]
    if len(args) != len(v.dims):
        return ("bad",)
    try:
        letters = [ix_letter(a) for a in args]
        if None in letters or not ix_compiled(letters):
            return NOTCOMPILED if None not in letters else ("bad",)
        sels, undef = [], False
        for a, L in zip(args, v.dims):
            if a == "_":
                sels.append((False, list(range(L))))
            elif a.startswith("i:"):
                sels.append((True, [tok(a[2:], L)]))
            elif a[0] in "vxf":
                sels.append((False, ints_of(a[2:])))
            elif a[0] == "w":
                sels.append((False, [L - 1 - k for k in ints_of(a[2:])]))       # end - K
            elif a[0] == "u":
                ve, ent = a[2:].split(":")
                tree = px_parse(ve)
                sels.append((False, [px_eval(tree, L - 1, x) for x in ints_of(ent)]))
            else:
                p = a[2:].split(",")
                b, e = tok(p[0], L), tok(p[1], L)
                st = tok(p[2], L) if a.startswith("s:") else 1
                x = sel_range(b, e, st, L, checked)
                if x == "index_out_of_bounds":          # thrown by the constructor (get_size_with_len)
                    return ("err", x) if not undef else UNDEF
                if x is UNDEF:
                    undef = True
                    x = []
                sels.append((False, x))
        if undef:
            return UNDEF
    except ValueError:
        return ("bad",)
    except Undef:
        return UNDEF
    dims = [len(x) for sc, x in sels if not sc]
    elems = [] if 0 in dims else list(itertools.product(*[x for _, x in sels]))
    return ("ix", {"dims": dims, "elems": elems, "pdims": list(v.dims)})


def parse_ix_line(line):
    """'ok r=.. d=.. e=.. w=.. z=..' -> dict; e: list or '!class'; w, z: (dict cell -> value, '' or '!class')"""
    w = line.split(" ")
    if w[0] != "ok" or len(w) != 6:
        return None
    d = {}
    try:
        for t in w[1:]:
            k, x = t.split("=", 1)
            d[k] = x
        out = {"r": int(d["r"]), "d": ints_of(d["d"])}
        out["e"] = d["e"] if d["e"].startswith("!") else ints_of(d["e"])
        for k in ("w", "z"):
            body, _, err = d[k].partition("!")
            m = {}
            if body:
                for t in body.split(";"):
                    c, x = t.split(":")
                    m[int(c)] = int(x)
            out[k] = (m, ("!" + err) if err else "")
        return out
    except (KeyError, ValueError):
        return None


def judge_ix(v, info, line, checked, vol):
    """compare the implementation's answer to `ix` with what the selectors denote; None or (message, signature)"""
    o = parse_ix_line(line)
    sig = None
    dims = info["dims"]
    if 0 in dims[1:] and dims[0] != 0:
        sig = SIG_EMPTY           # a zero extent behind a non-zero leading extent (IndexedArray::empty() tests dimension 0 only)
    if o is None:
        return "expected an indexed array, implementation answered %r" % line[:120], sig
    if o["r"] != len(dims):
        return "rank %d, the selectors denote rank %d" % (o["r"], len(dims)), sig
    if o["d"] != dims:
        return "extents %s, documented extents %s" % (o["d"], dims), sig
    pd = info["pdims"]
    inr = [all(0 <= i < L for i, L in zip(t, pd)) for t in info["elems"]]
    if not checked and not all(inr):
        return None                                    # inadmissible in the default build: outside the property (never generated)
    bad = next((k for k, ok in enumerate(inr) if not ok), None)
    cells = [v.at(t) if ok else None for t, ok in zip(info["elems"], inr)]
    if bad is None:
        if o["e"] != cells:
            if isinstance(o["e"], str):
                return "reading raised %s although every index is admissible" % o["e"][1:], sig
            k = next((i for i, (a, b) in enumerate(zip(o["e"], cells)) if a != b), min(len(o["e"]), len(cells)))
            return ("element number %d (parent index %s) reads parent cell %s, the selectors denote cell %s"
                    % (k, list(info["elems"][k]) if k < len(cells) else "-", o["e"][k] if k < len(o["e"]) else "-",
                       cells[k] if k < len(cells) else "-")), sig
        for key, val in (("w", lambda j: -(j + 1)), ("z", lambda j: -7)):
            want = {}
            for j, c in enumerate(cells):
                want[c] = val(j)
            got, err = o[key]
            if err:
                return "assignment (%s) raised %s although every index is admissible" % (key, err[1:]), sig
            if got != want:
                extra = sorted(set(got) - set(want))
                miss = sorted(set(want) - set(got))
                wrong = sorted(c for c in set(got) & set(want) if got[c] != want[c])
                return ("assignment through the indexed array (%s) changed parent cells %s that it does not denote / left %s "
                        "unchanged / stored wrong values in %s" % ("array" if key == "w" else "scalar", extra[:6], miss[:6], wrong[:6])), sig
        if any(not 0 <= c < vol for c in cells):
            return "indexed array reads outside the parent allocation", sig
        return None
    # bounds-checked build, some element has an index outside 0..n-1: it must not be accessed
    t = info["elems"][bad]
    which = "index %s of element number %d is outside the parent extents %s" % (list(t), bad, pd)
    if o["e"] != "!index_out_of_bounds":
        return "%s but reading raised no index_out_of_bounds (answer e=%s)" % (which, str(o["e"])[:80]), sig
    for key, val in (("w", lambda j: -(j + 1)), ("z", lambda j: -7)):
        got, err = o[key]
        if err != "!index_out_of_bounds":
            return "%s but the %s assignment raised %s" % (which, "array" if key == "w" else "scalar", err[1:] or "nothing"), sig
        allowed = {}
        for j, c in enumerate(cells):
            if c is not None:
                allowed.setdefault(c, set()).add(val(j))
        for c, x in got.items():
            if c not in allowed or x not in allowed[c]:
                return ("%s; the assignment changed parent cell %d to %d, which no admissible element of the selection "
                        "denotes" % (which, c, x)), sig
    return None


WHOLE_FIELDS = ("f", "a", "b", "x", "v", "m", "h", "n")     # the whole-view operations of harness/drv_views_w.h, in this order
WHOLE_TEXT = {"f": "V = -5", "a": "V += 1000", "b": "B = V (B empty)", "x": "V = B*2+3", "v": "V2 = <temporary Array holding B*3+1> (V2 a copy of the view object)",
              "m": "sum(V), maxval(V)", "h": "V.where(V > t) = -9", "n": "count(V > t), find(V > t)"}


def parse_line(line):
    """'ok r=.. d=.. s=.. o=.. e=.. w=..' [+ ' f=.. a=.. b=.. x=.. v=.. m=.. h=.. n=..'] -> dict
    whole-view fields (key 'whole', None when absent): cell maps for f a x v h, (extents, values) for b, (sum, max) for m,
    (count, positions) or None for n; a field in which the library raised is the string '!class/...'"""
    w = line.split(" ")
    if w[0] != "ok" or len(w) not in (7, 7 + len(WHOLE_FIELDS)):
        return None
    d = {}
    try:
        for t in w[1:]:
            k, x = t.split("=", 1)
            d[k] = x
        ints = lambda s: [int(x) for x in s.split(",")] if s else []

        def cellmap(t):
            m = {}
            if t:
                for u in t.split(";"):
                    c, x = u.split(":")
                    m[int(c)] = int(x)
            return m
        out = {"r": int(d["r"]), "d": ints(d["d"]), "s": ints(d["s"]), "o": int(d["o"]), "e": ints(d["e"]), "w": cellmap(d["w"]),
               "whole": None}
        if len(w) > 7:
            if [t.split("=", 1)[0] for t in w[7:]] != list(WHOLE_FIELDS):
                return None
            wh = {}
            for k in WHOLE_FIELDS:
                t = d[k]
                if t.startswith("!"):
                    wh[k] = t
                elif k in "faxvh":
                    wh[k] = cellmap(t)
                elif k == "b":
                    dd, vv = t.split("|")
                    wh[k] = (ints(dd), ints(vv))
                elif k == "m":
                    a, b = t.split(",")
                    wh[k] = (int(a), int(b))
                else:
                    if t == "-":
                        wh[k] = None
                    else:
                        n, pos = t.split("|")
                        wh[k] = (int(n), ints(pos))
            out["whole"] = wh
        return out
    except (KeyError, ValueError):
        return None


def whole_expected(v, vol):
    """what the whole-view operations must do, from the list of cells the view denotes alone (the parent holds its own
    cell numbers; t = vol // 2)"""
    C = v.cells
    t = vol // 2
    return {"f": {c: -5 for c in C}, "a": {c: c + 1000 for c in C}, "b": (list(v.dims), list(C)),
            "x": {c: 2 * c + 3 for c in C}, "v": {c: 3 * c + 1 for c in C},
            "m": (sum(C), max(C) if C else 0),
            "h": {c: -9 for c in C if c > t},
            "n": (sum(1 for c in C if c > t), [j for j, c in enumerate(C) if c > t]) if len(v.dims) == 1 else None}


def judge_whole(v, o, vol):
    """the whole-view part of an answer; None or a message"""
    wh = o["whole"]
    if wh is None:
        return "the view was not exercised through the whole-view operations (answer without the fields f= .. n=)"
    if len(set(v.cells)) != len(v.cells):
        return None                         # (no admissible operation makes a view denote a cell twice)
    exp = whole_expected(v, vol)
    for k in WHOLE_FIELDS:
        got, want = wh[k], exp[k]
        if got == want:
            continue
        what = "whole-view operation %s on a view of extents %s denoting %d element(s)" % (WHOLE_TEXT[k], v.dims, len(v.cells))
        if isinstance(got, str):
            return "%s raised %s" % (what, got[1:].split("/")[0])
        if k in "faxvh":
            extra = sorted(set(got) - set(want))
            miss = sorted(set(want) - set(got))
            wrong = sorted(c for c in set(got) & set(want) if got[c] != want[c])
            return ("%s changed parent cells %s that the view does not denote / left %s of its cells unchanged / stored wrong "
                    "values in %s" % (what, extra[:6], miss[:6], wrong[:6]))
        if k == "b":
            if got[0] != want[0]:
                return "%s: B has the extents %s, the view has %s" % (what, got[0], want[0])
            return "%s: B holds %s.., the view denotes the cells %s.." % (what, got[1][:8], want[1][:8])
        if k == "m":
            return "%s returned (%d, %d), the denoted cells have sum %d and maximum %d%s" % (
                what, got[0], got[1], want[0], want[1], "" if v.cells else " (no element: 0, 0)")
        return "%s returned %s, the denoted cells give %s" % (what, got, want)
    return None


def packed(dims):
    s, e = [], 1
    for d in reversed(dims):
        s.append(e)
        e *= d
    return list(reversed(s))


def judge_view(v, line, vol, whole=True):
    """compare one implementation line with the view the index expressions denote; None or a message.
    whole: the answer must carry the whole-view operations (every view of rank >= 1 held by an Array)"""
    o = parse_line(line)
    if o is None:
        return "expected a view, implementation answered %r" % line[:120]
    if o["r"] != len(v.dims):
        return "rank %d, the index expression denotes rank %d" % (o["r"], len(v.dims))
    if o["d"] != v.dims:
        if 0 in o["d"] and v.dims == [0] * len(v.dims) and not v.cells:
            return ("extents %s: the selection has no element, so the view must be an EMPTY array, and an empty array has all "
                    "extents zero (Array::resize / clear(); empty() tests dimension 0 only, the library's loops over all "
                    "elements are guarded by it)" % o["d"])
        return "extents %s, documented extents %s" % (o["d"], v.dims)
    if o["e"] != v.cells:
        k = next((i for i, (a, b) in enumerate(zip(o["e"], v.cells)) if a != b), min(len(o["e"]), len(v.cells)))
        return ("element number %d of the view reads parent cell %s, the index expression denotes cell %s"
                % (k, o["e"][k] if k < len(o["e"]) else "-", v.cells[k] if k < len(v.cells) else "-"))
    want = {}
    for j, c in enumerate(v.cells):
        want[c] = -(j + 1)
    if o["w"] != want:
        extra = sorted(set(o["w"]) - set(want))
        miss = sorted(set(want) - set(o["w"]))
        return ("writing through the view changed parent cells %s that it does not denote / left %s unchanged / stored "
                "wrong values" % (extra[:6], miss[:6]))
    if any(not 0 <= c < vol for c in o["e"]):
        return "view reads outside the parent allocation"
    if v.cells:
        if o["o"] != v.cells[0]:
            return "data() is parent cell %d but element (0,..,0) is cell %d" % (o["o"], v.cells[0])
        # offsets must reproduce the element addresses
        m = 1
        for k in range(len(v.dims) - 1, -1, -1):
            if v.dims[k] > 1 and o["s"][k] != v.cells[m] - v.cells[0]:
                return "offset(%d)=%d but consecutive elements along it are %d cells apart" % (k, o["s"][k], v.cells[m] - v.cells[0])
            m *= v.dims[k]
    if whole and v.dims:
        return judge_whole(v, o, vol)
    return None


FIXED_MENU = ([4], [3, 4], [3, 3], [2, 3, 4], [2, 3, 4, 5])      # the FixedArray<int,false,...> parents compiled into the harness
# FixedArrays driven through their ELEMENT accessors only: passive rank 4..6 (kind E), ACTIVE rank 1..4 (kind G)
FIXED_ELEM_MENU = ([3, 2, 5, 4], [2, 3, 1, 4, 5], [3, 1, 4, 2, 6, 5])
FIXED_ACTIVE_MENU = ([4], [3, 4], [2, 3, 4], [3, 2, 5, 4])
PARENT_WORDS = ("parent", "aparent", "fparent", "efparent", "afparent")
KIND_NAME = {"P": "passive", "A": "active", "F": "fixedarray", "E": "fixedarray_elements", "G": "active_fixedarray_elements"}
FIXED_T_IS_VIEW = [False]                          # set by run() from fixed_T_probes()
SIG_FIXED_T = "fixedarray-T-returns-copy"


def parent_of(w):
    """parent line -> (kind, OV) or None when the line is not an admissible parent line"""
    try:
        if w[0] in ("parent", "aparent") and len(w) >= 3 and w[1] in ("rm", "cm"):
            dims = [int(x) for x in w[2:]]
            if not 1 <= len(dims) <= (6 if w[0] == "parent" else 3) or any(d < 1 for d in dims):
                return None
            return ("P" if w[0] == "parent" else "A"), parent_view(w[1], dims)
        if w[0] == "fparent":
            dims = [int(x) for x in w[1:]]
            return ("F", parent_view("rm", dims)) if dims in FIXED_MENU else None
        if w[0] == "efparent":
            dims = [int(x) for x in w[1:]]
            return ("E", parent_view("rm", dims)) if dims in FIXED_ELEM_MENU else None
        if w[0] == "afparent":
            dims = [int(x) for x in w[1:]]
            return ("G", parent_view("rm", dims)) if dims in FIXED_ACTIVE_MENU else None
    except ValueError:
        pass
    return None


def oracle(lines_in, lines_out, checked, limit=None):
    """judge one composition (list of op lines incl. the parent line) from the implementation's lines alone.
    returns (index, message) or None.  limit (a list): receives the number of leading lines on which the model has to
    agree with the implementation (everything before a call whose argument types are not compiled into the harness)"""
    v, vol, last, kind = None, 0, None, "P"
    for i, (op, out) in enumerate(zip(lines_in, lines_out)):
        w = op.split()
        if w[0] in PARENT_WORDS:
            pk = parent_of(w)
            if pk is None:
                if out != "bad-op":
                    return i, "not a parent the harness can build, implementation answered %r" % out[:100]
                continue
            kind, v = pk
            vol = len(v.cells)
            msg = judge_view(v, out, vol, whole=(kind not in "FEG"))
            if msg:
                return i, "fresh parent: " + msg
            last = parse_line(out)
            continue
        if w[0] == "contig":
            if v is None or v.null or not v.dims or kind in "FEG":
                exp = "bad-op"
            else:
                # is_contiguous() <=> the offsets the implementation itself reported are the packed row-major ones
                exp = "contig=%d" % (1 if last is not None and last["s"] == packed(last["d"]) else 0)
            if out != exp:
                return i, "is_contiguous(): implementation %r, offsets/extents of the view say %r" % (out, exp)
            continue
        if w[0] in ("ix", "cix"):
            res = oracle_ix(v, w, checked, kind)
            if res is UNDEF:
                return None
            if res[0] == "bad":
                if out != "bad-op":
                    return i, "this indexing call is not in the compiled menu / does not exist, implementation answered %r" % out[:100]
                if res is NOTCOMPILED:
                    if limit is not None:
                        limit.append(i)
                    return None
            elif res[0] == "err":
                if out != "err " + res[1]:
                    return i, "expected exception %s from the indexing call, implementation answered %r" % (res[1], out[:160])
            else:
                msg = judge_ix(v, res[1], out, checked, vol)
                if msg:
                    return i, "%s: %s" % (w[0], msg[0]), msg[1]
            continue               # an indexed array is an expression: the current view is unchanged
        res = oracle_apply(v, w, checked, kind)
        if res is UNDEF:
            return None            # outside the property (never generated); stop judging this composition
        if res[0] == "bad":
            if out != "bad-op":
                return i, "operation does not exist for this rank / object, implementation answered %r" % out[:100]
            if res is NOTCOMPILED:
                if limit is not None:
                    limit.append(i)
                return None        # the model answers such a call, the harness cannot make it: stop here
        elif res[0] == "null":
            if out != "ok null":
                return i, "diag_vector of an empty matrix: expected an empty vector, got %r" % out[:100]
            v = OV([0], [], null=True)
        elif res[0] == "err":
            if out != "err " + res[1]:
                return i, "expected exception %s, implementation answered %r" % (res[1], out[:160])
        else:
            msg = judge_view(res[1], out, vol, whole=False)
            if msg:
                if kind == "F" and w[0] in ("T", "cT"):
                    return i, "FixedArray::T() does not return a view of the FixedArray: " + msg, SIG_FIXED_T
                return i, "%s: %s" % (w[0], msg)
            if res[1].dims:
                msg = judge_whole(res[1], parse_line(out), vol)
                if msg:
                    return i, "%s: %s" % (w[0], msg)
            v = res[1]
            last = parse_line(out)
            if kind in "FE":
                kind = "P"         # the view returned by a FixedArray member is an ordinary Array
            if kind == "G":
                kind = "A"
            if kind == "A" and w[0] in ("softlink", "csoftlink"):
                # an active array without Storage cannot be sliced further (invalid_operation, not a view): nothing to judge
                if limit is not None:
                    limit.append(i + 1)
                return None
    return None


# ====================================================================== generators
# ---------------------------------------------------------------------- writing a value as an index expression
def solve_shape(rng, shape, target, end, v=None, pool=None):
    """integers for the # of a shape such that the expression has the value `target` for a dimension whose last index is
    `end` (and index-vector entry v); -> list of ints or None.  All but one integer are drawn from a small pool, the
    last one is searched; no division by zero is executed."""
    n = shape.count("#")
    if n == 0:
        try:
            return [] if px_eval(px_parse(shape), end, v) == target else None
        except Undef:
            return None
    pool = pool or [1, 2, 3, -1, -2, 4, 5, 0, end, end + 1, 2 * end, 6, -3]
    cand = sorted(range(-90, 91), key=lambda k: (abs(k), k < 0))
    for _ in range(8):
        consts = [rng.choice(pool) for _ in range(n)]
        free = rng.randrange(n)
        start = rng.randrange(6)
        for k in cand[start:] + cand[:start]:
            consts[free] = k
            try:
                if px_eval(px_parse(px_fill(shape, consts)), end, v) == target:
                    return list(consts)
            except Undef:
                pass
    return None


def rich_token(rng, target, L, limit, stats=None, role="scalar"):
    """an index expression of one of the first `limit` shapes of XSHAPES with the value `target` for a dimension of
    length L, or None"""
    ids = list(range(limit))
    rng.shuffle(ids)
    for i in ids[:6]:
        c = solve_shape(rng, XSHAPES[i], target, L - 1)
        if c is not None:
            if stats is not None:
                stats["rich_%s_shape_%s" % (role, XSHAPES[i])] = stats.get("rich_%s_shape_%s" % (role, XSHAPES[i]), 0) + 1
            return px_fill(XSHAPES[i], c)
    return None


def index_layout(rng, n):
    """a layout for an index vector of n entries that is a VIEW: strided / reversed / offset part of a larger intVector
    (sOFF.STR), column of an intMatrix (cK.NC), row of an intMatrix (rK.NR)"""
    k = rng.random()
    if k < 0.65:
        st = rng.choice([2, 2, 3, -1, -1, -2, -3, 1])
        off = rng.randrange(0, 4) if st > 0 else (n - 1) * (-st) + rng.randrange(0, 3)
        if st == 1 and off == 0:
            off = 2
        return "s%d.%d" % (off, st)
    m = rng.randint(2, 4)
    return "%s%d.%d" % ("c" if k < 0.9 else "r", rng.randrange(m), m)


def vexpr_token(rng, targets, L, ids, stats=None):
    """`u:VE:raw entries` whose entries evaluate to `targets` for a dimension of length L (shape out of ids), or None"""
    ids = list(ids)
    rng.shuffle(ids)
    for i in ids[:5]:
        shape = VSHAPES[i]
        for _ in range(4):
            consts = [rng.choice([1, 2, -1, 3, L - 1, L, 2 * L, 12, 0, -2, 24]) for _ in range(shape.count("#"))]
            try:
                tree = px_parse(px_fill(shape, consts))
            except ValueError:
                continue
            raw = []
            for t in targets:
                x = None
                for k in sorted(range(-90, 91), key=lambda k: (abs(k), k < 0)):
                    try:
                        if px_eval(tree, L - 1, k) == t:
                            x = k
                            break
                    except Undef:
                        pass
                if x is None:
                    break
                raw.append(x)
            if len(raw) == len(targets):
                if stats is not None:
                    stats["vector_expr_shape_%s" % shape] = stats.get("vector_expr_shape_%s" % shape, 0) + 1
                return "u:%s:%s" % (px_fill(shape, consts), ",".join(map(str, raw)))
    return None


class Gen:
    def __init__(self, rng, checked, malformed, depth, stats, contig=False, maxrank=6, pbad=0.3, w_ix=5, kinds="PPPPPPPPPPPPPPPPAAFFEG"):
        self.rng, self.checked, self.malformed, self.depth, self.stats = rng, checked, malformed, depth, stats
        self.contig, self.maxrank, self.pbad, self.w_ix, self.kinds = contig, maxrank, pbad, w_ix, kinds
        # ranks of the parent: mostly low in the valid streams (more operations apply), uniform in the malformed one
        self.ranks = [1, 2, 3, 4, 5, 6] if (malformed and pbad >= 0.3) else [1, 2, 2, 2, 3, 3, 4, 5, 6]
        self.fixed_T_is_view = FIXED_T_IS_VIEW[0]   # FixedArray::T() is generated only where it is a view (finding, see fixed_T_probes)
        self.p_rich = 0.3          # an eligible call gets one argument rewritten as `end` arithmetic
        self.p_const = 0.5         # a member with a const overload is called through it
        self.p_empty = 0.09        # a range / stride argument selects nothing (zero extent, in whatever position)
        self.p_element = 0.07      # an operator() call has only scalar arguments (element access, ends the composition)
        self.p_rich_element = 0.5  # ... and one of its arguments (any position) is written as `end` arithmetic
        self.p_permute_form = 0.4  # permute goes through permute(ExpressionSize) / permute(i0,i1,..) instead of permute(const Index*)

    def count(self, key):
        self.stats[key] = self.stats.get(key, 0) + 1

    def parent(self):
        """-> (line, oracle view, kind): P passive Array<r,int>, A active Array<r,double,true>, F FixedArray parent"""
        rng = self.rng
        kind = rng.choice(self.kinds)
        if kind == "F":
            dims = list(rng.choice(FIXED_MENU))
            self.count("parent_fixed_rank_%d" % len(dims))
            return "fparent " + " ".join(map(str, dims)), parent_view("rm", dims), "F"
        if kind in "EG":
            dims = list(rng.choice(FIXED_ELEM_MENU if kind == "E" else FIXED_ACTIVE_MENU))
            self.count("parent_%s_rank_%d" % (KIND_NAME[kind], len(dims)))
            return ("efparent " if kind == "E" else "afparent ") + " ".join(map(str, dims)), parent_view("rm", dims), kind
        r = rng.choice(self.ranks) if kind == "P" else rng.choice([1, 2, 2, 3])
        cap = 240 if r <= 2 else 160
        while True:
            if r == 2 and rng.random() < 0.5:
                n = rng.randint(1, 7)
                dims = [n, n]
            elif r == 1:
                dims = [rng.choice([1, 2, 3, 4, 6, 8, 12, 16, 24, 30, 36, 60])]
            else:
                dims = [rng.randint(1, 6 if r <= 3 else (4 if r <= 5 else 3)) for _ in range(r)]
            n = 1
            for d in dims:
                n *= d
            if n <= cap:
                break
        order = "rm" if rng.random() < 0.75 else "cm"
        self.count(("parent_rank_%d" if kind == "P" else "parent_active_rank_%d") % r)
        self.count("parent_" + order)
        return "%s %s %s" % ("parent" if kind == "P" else "aparent", order, " ".join(map(str, dims))), parent_view(order, dims), kind

    # ------------------------------------------------------------ `end` arithmetic: value-preserving rewriting of one argument
    def enrich_slice(self, args, dims, kind):
        """rewrite the tokens of ONE argument of an operator() call as rich index expressions with the same values
        (roles: scalar / begin / end / begin and end / stride, as far as compiled for this rank); None if not possible"""
        rng = self.rng
        r = len(dims)
        if all(a.startswith("i:") for a in args):
            return self.enrich_element(args, dims)
        if kind != "P":
            return None
        if r >= 3 and all(d > 0 for d in dims) and rng.random() < 0.5:
            # ranks 3..6: the other arguments of such a call are scalars and __: rewrite the ranges among them
            args = [a if (a.startswith("i:") or (a == "_" and (r < 4 or k == r - 1))) else ("_" if (r < 4 or k == r - 1) else "i:e0")
                    for k, a in enumerate(args)]
            keep = rng.randrange(r)
            if dims[keep] > 0 and args[keep] == "_":
                args[keep] = "r:%d,e0" % rng.randrange(dims[keep])
        cand = [j for j, a in enumerate(args) if a != "_"]
        rng.shuffle(cand)
        for j in cand:
            a, L = args[j], dims[j]
            lim = XMENU[r]
            try:
                if a.startswith("i:"):
                    t = rich_token(rng, tok(a[2:], L), L, lim, self.stats, "scalar")
                    new = None if t is None else "i:" + t
                else:
                    p = a[2:].split(",")
                    if len(p) == 2:
                        p.append("1")
                    roles = ["b", "e", "be", "s"] if r == 1 else (["b", "e"] if r == 2 else ["b"])      # (as compiled)
                    role = rng.choice(roles)
                    q = list(p)
                    if "b" in role:
                        q[0] = rich_token(rng, tok(p[0], L), L, lim, self.stats, "begin")
                    if "e" in role:
                        if role == "be" and q[0] is not None:
                            # both end points: the same shape (one C++ type RangeIndex<X,X,int>)
                            sh = px_shape(px_parse(q[0]))
                            c = solve_shape(rng, sh, tok(p[1], L), L - 1)
                            q[1] = None if c is None else px_fill(sh, c)
                        else:
                            q[1] = rich_token(rng, tok(p[1], L), L, lim, self.stats, "end")
                    if role == "s":
                        q[2] = rich_token(rng, tok(p[2], L), L, lim, self.stats, "stride")
                    new = None if None in q else "s:" + ",".join(q)
            except (ValueError, Undef):
                new = None
            if new is None:
                continue
            out = list(args)
            out[j] = new
            try:
                if slice_compiled(kind, r, out):
                    self.count("rich_slice_rank_%d" % r)
                    return out
            except ValueError:
                pass
        return None

    def enrich_element(self, args, dims):
        """element access: ONE argument, in a random position, rewritten as `end` arithmetic with the same value (every kind
        of object; harness/drv_views_el.h); None if no shape gives the value"""
        rng = self.rng
        r = len(dims)
        cand = list(range(r))
        rng.shuffle(cand)
        for j in cand:
            try:
                t = rich_token(rng, tok(args[j][2:], dims[j]), dims[j], ELMENU[r], self.stats, "element")
            except (ValueError, Undef):
                t = None
            if t is not None:
                out = list(args)
                out[j] = "i:" + t
                self.count("rich_element_rank_%d_pos_%d" % (r, j))
                return out
        return None

    def enrich_tokens(self, toks, lens, kind, r, what):
        """subset / operator[]: one token rewritten as a rich expression"""
        if kind != "P" or r > 2:
            return None
        j = self.rng.randrange(len(toks))
        try:
            t = rich_token(self.rng, tok(toks[j], lens[j]), lens[j], XMENU[r], self.stats, what)
        except (ValueError, Undef):
            return None
        if t is None:
            return None
        out = list(toks)
        out[j] = t
        self.count("rich_%s_rank_%d" % (what, r))
        return out

    def finish(self, text, kind_of_op, v, kind):
        """the rewriting applied to a generated operation: one argument as `end` arithmetic, const overload"""
        rng = self.rng
        w = text.split()
        r = len(v.dims)
        if w[0] == "slice" and all(a.startswith("i:") for a in w[1:]):
            if rng.random() < self.p_rich_element:
                out = self.enrich_element(w[1:], v.dims)
                if out:
                    w = ["slice"] + out
        elif rng.random() < self.p_rich:
            if w[0] == "slice":
                out = self.enrich_slice(w[1:], v.dims, kind)
                if out:
                    w = ["slice"] + out
            elif w[0] == "subset":
                out = self.enrich_tokens(w[1:], [v.dims[k // 2] for k in range(2 * r)], kind, r, "subset")
                if out:
                    w = ["subset"] + out
            elif w[0] == "idx":
                out = self.enrich_tokens(w[1:], [v.dims[0]], kind, r, "idx")
                if out:
                    w = ["idx"] + out
        if w[0] == "permute" and rng.random() < self.p_permute_form:
            w[0] = "permuteV" if (2 <= r <= 6 and rng.random() < 0.5) else "permuteE"
            self.count("permute_overload_" + w[0])
        if w[0] in CONST_OPS and rng.random() < self.p_const and not (w[0] == "idx" and kind == "F" and r > 1):
            w[0] = "c" + w[0]
            self.count("const_" + kind_of_op)
        return " ".join(w), kind_of_op

    def E(self, j, L):
        """write index j of a dimension of length L as k or end-K"""
        if self.rng.random() < 0.4:
            self.count("end_expr")
            return "e%d" % (L - 1 - j)
        return str(j)

    def bad_index(self, L):
        """an index outside 0..L-1, as a literal or through `end`"""
        rng = self.rng
        j = rng.choice([-1, L, L + 1, -2] if L > 0 else [0, -1, 1])
        side = "below" if j < 0 else "above"
        if rng.random() < 0.4:
            return "e%d" % (L - 1 - j), side + "/end"
        return str(j), side + "/int"

    def slice_arg(self, L, allow_scalar=True):
        rng = self.rng
        if L == 0:
            return "_", "all"
        k = rng.random()
        if k < 0.28 and allow_scalar:
            return "i:" + self.E(rng.randrange(L), L), "scalar"
        if k < 0.5:
            if L >= 2 and rng.random() < self.p_empty:
                e = rng.randrange(L - 1)
                return "r:%s,%s" % (self.E(e + 1, L), self.E(e, L)), "range-empty"
            b = rng.randrange(L); e = rng.randrange(b, L)
            return "r:%s,%s" % (self.E(b, L), self.E(e, L)), "range"
        if k < 0.8:
            if L >= 2 and rng.random() < self.p_empty:
                # empty stride: the direction is wrong by less than one stride, (e + s - b) / s == 0
                s = rng.choice([2, 3, 5, -2, -3, -4])
                lo = rng.randrange(L - 1)
                hi = rng.randrange(lo + 1, min(L, lo + abs(s)))
                b, e = (hi, lo) if s > 0 else (lo, hi)
                return "s:%s,%s,%d" % (self.E(b, L), self.E(e, L), s), "stride-empty"
            s = rng.choice([1, 2, 2, 3, -1, -1, -2, -3, 5, -4])
            a = rng.randrange(L); b = rng.randrange(L)
            lo, hi = min(a, b), max(a, b)
            b, e = (lo, hi) if s > 0 else (hi, lo)
            return "s:%s,%s,%d" % (self.E(b, L), self.E(e, L), s), "stride+" if s > 0 else "stride-"
        return "_", "all"

    def op(self, v, okind="P"):
        """one operation on the oracle view v held by an object of kind okind (P/A/F): (text, kind of operation)"""
        text, kind = self.op_plain(v, okind)
        if kind == "ix":
            return text, kind
        return self.finish(text, kind, v, okind)

    def op_plain(self, v, okind):
        rng = self.rng
        r = len(v.dims)
        bad = self.malformed and rng.random() < self.pbad
        if okind in "EG":
            # only the element accessors of these objects are driven
            self.count("element_access_rank_%d_on_%s" % (r, KIND_NAME[okind]))
            if r == 1 and rng.random() < 0.4:
                if bad and self.checked:
                    x, side = self.bad_index(v.dims[0])
                    self.count("malformed_idx_" + side)
                    return "idx " + x, "idx"
                return "idx " + self.E(rng.randrange(v.dims[0]), v.dims[0]), "idx"
            args = ["i:" + self.E(rng.randrange(L), L) for L in v.dims]
            if bad and self.checked:
                j = rng.randrange(r)
                x, side = self.bad_index(v.dims[j])
                args[j] = "i:" + x
                self.count("malformed_slice_pos%d_scalar_%s" % (j, side))
            return "slice " + " ".join(args), "slice"
        choices = ["slice"] * 8 + ["subset"] * 2 + ["idx"] * 2 + ["softlink"] * (0 if okind == "F" else 1) + ["permute"] * (2 if r > 1 else 1)
        if r == 2:
            square = v.dims[0] == v.dims[1]
            choices += ["T"] * (2 if okind != "F" or self.fixed_T_is_view else 0) + ["diag"] * (3 if square else 1) + ["subdiag"] * (3 if square else 1)
        if r == 1 and okind != "F":
            choices += ["reshape"] * 5
        empty_dim = any(d == 0 for d in v.dims)
        if r <= 4 and not empty_dim and okind == "P":
            choices += ["ix"] * self.w_ix
        kind = rng.choice(choices)
        if kind == "ix":
            return self.ix_op(v, bad)
        if kind == "slice":
            args, kinds = [], []
            for L in v.dims:
                a, k = self.slice_arg(L, allow_scalar=True)
                args.append(a); kinds.append(k)
            if not empty_dim and rng.random() < self.p_element:
                # element access: every argument a scalar, per position an int or end-k
                args = ["i:" + self.E(rng.randrange(L), L) for L in v.dims]
                kinds = ["scalar"] * r
                self.count("element_access_rank_%d_on_%s" % (r, KIND_NAME[okind]))
            elif all(k == "scalar" for k in kinds) and rng.random() < 0.85:
                j = rng.randrange(r)
                args[j] = "_"; kinds[j] = "all"
            if r == 6:
                # rank 6: the harness has `__` in the last position only; elsewhere the whole dimension is written as a range
                for j in range(r - 1):
                    if args[j] == "_" and v.dims[j] > 0:
                        args[j] = "r:0,e0"; kinds[j] = "range"
                if empty_dim and any(args[j] == "_" for j in range(r - 1)):
                    return "softlink", "softlink"      # (an empty rank-6 view: `__` elsewhere is not compiled)
            for k in kinds:
                self.count("arg_" + k)
            for j, k in enumerate(kinds):
                if k.endswith("-empty"):
                    self.count("zero_extent_rank%d_pos%d" % (r, j))
            if bad and self.checked:
                j = rng.randrange(r)
                L = v.dims[j]
                x, side = self.bad_index(L)
                what = rng.choice(["scalar", "begin", "end"])
                good = self.E(rng.randrange(L), L) if L > 0 else "0"
                if what == "scalar":
                    args[j] = "i:" + x
                elif what == "begin":
                    args[j] = rng.choice(["r:%s,%s" % (x, good), "s:%s,%s,%d" % (x, good, rng.choice([1, -1, 2]))])
                else:
                    args[j] = rng.choice(["r:%s,%s" % (good, x), "s:%s,%s,%d" % (good, x, rng.choice([1, -1, 2]))])
                self.count("malformed_slice_pos%d_%s_%s" % (j, what, side))
                # the remaining arguments must stay meaningful (non-negative extent): they are, by construction
                if what != "scalar":
                    # direction consistency of the malformed range itself: make sure the C++ extent is not negative
                    p = args[j][2:].split(",")
                    b, e = tok(p[0], L), tok(p[1], L)
                    s = int(p[2]) if args[j].startswith("s:") else 1
                    if cdiv(e + s - b, s) < 0:
                        args[j] = "i:" + x
            return "slice " + " ".join(args), "slice"
        if kind == "subset":
            if empty_dim and not (bad and self.checked):
                return "softlink", "softlink"
            t = []
            for L in v.dims:
                b = rng.randrange(L) if L else 0; e = rng.randrange(b, L) if L else 0
                t += [self.E(b, L), self.E(e, L)]
            if bad and self.checked:
                j = rng.randrange(2 * r)
                L = v.dims[j // 2]
                x, side = self.bad_index(L)
                t[j] = x
                k0 = j - (j % 2)
                if tok(t[k0 + 1], L) + 1 - tok(t[k0], L) < 0:     # keep the C++ extent non-negative
                    t[k0] = t[k0 + 1] = x
                self.count("malformed_subset_pos%d_%s" % (j, side))
            return "subset " + " ".join(t), "subset"
        if kind == "idx":
            L = v.dims[0]
            if bad and self.checked:
                x, side = self.bad_index(L)
                self.count("malformed_idx_" + side)
                return "idx " + x, "idx"
            if L == 0:
                return "softlink", "softlink"
            return "idx " + self.E(rng.randrange(L), L), "idx"
        if kind == "T":
            return "T", "T"
        if kind == "permute":
            p = list(range(r))
            rng.shuffle(p)
            if bad:
                j = rng.randrange(r)
                p[j] = rng.choice([-1, r, r + 1])
                self.count("malformed_permute")
            return "permute " + " ".join(map(str, p)), "permute"
        if kind == "diag":
            n = v.dims[0]
            if v.dims[0] != v.dims[1]:
                self.count("malformed_diag_nonsquare")
                return "diag %d" % rng.randint(-1, 1), "diag"
            if n == 0:
                return "diag 0", "diag"
            k = rng.randint(-n, n) if rng.random() < 0.15 else rng.randint(-(n - 1), n - 1)
            return "diag %d" % k, "diag"
        if kind == "subdiag":
            n = v.dims[0]
            if v.dims[0] != v.dims[1]:
                self.count("malformed_subdiag_nonsquare")
                return "subdiag 0 0", "subdiag"
            if bad or n == 0:
                b, e = rng.choice([(-1, 0), (1, 0), (0, n), (n, n), (2, 1)])
                self.count("malformed_subdiag_range")
                return "subdiag %d %d" % (b, e), "subdiag"
            b = rng.randrange(n); e = rng.randrange(b, n)
            return "subdiag %d %d" % (b, e), "subdiag"
        if kind == "reshape":
            n = v.dims[0]
            if n == 0:
                nd = rng.choice([[0], [0, 2], [3, 0], [2, 0, 2]])
            else:
                nd, m = [], n
                for _ in range(rng.randint(1, 3 if okind == "A" else 6) - 1):
                    d = rng.choice([d for d in range(1, m + 1) if m % d == 0])
                    nd.append(d)
                    m //= d
                nd.append(m)
                rng.shuffle(nd)
            if bad:
                nd[rng.randrange(len(nd))] += 1
                self.count("malformed_reshape")
            return "reshape " + " ".join(map(str, nd)), "reshape"
        return "softlink", "softlink"


    # ------------------------------------------------------------ integer-vector indexing
    def ix_range(self, L, letter_end):
        """a non-empty range/stride selector; letter_end: write at least one end point through `end`"""
        rng = self.rng
        s = rng.choice([1, 1, 2, -1, -2, 3])
        a = rng.randrange(L); b = rng.randrange(L)
        lo, hi = min(a, b), max(a, b)
        b, e = (lo, hi) if s > 0 else (hi, lo)
        tb, te = self.E(b, L), self.E(e, L)
        if letter_end and not (tb.startswith("e") or te.startswith("e")):
            te = "e%d" % (L - 1 - e)
        if s == 1 and rng.random() < 0.7:
            return "r:%s,%s" % (tb, te)
        return "s:%s,%s,%d" % (tb, te, s)

    def ix_entries(self, L, maxlen):
        rng = self.rng
        m = rng.randint(1, maxlen)
        k = rng.random()
        if k < 0.25 and L >= 2:
            ent = rng.sample(range(L), min(m, L))              # distinct
        elif k < 0.35:
            ent = [rng.randrange(L)] * m                        # one entry repeated
        else:
            ent = [rng.randrange(L) for _ in range(m)]          # repeats allowed: the last write wins
        return ent

    def ix_op(self, v, bad):
        """A(S0,S1,..) with at least one index vector on the oracle view v (rank 1..4, no zero extent)"""
        rng = self.rng
        r = len(v.dims)
        if r == 1:
            letters = [rng.choice("VVXW")]
        elif r == 2:
            while True:
                letters = [rng.choice("IERRAVVVXW") for _ in range(2)]
                if any(l in IX_VEC for l in letters):
                    break
        elif r == 3:
            while True:
                letters = [rng.choice("IIEERAVVV") for _ in range(3)]
                if any(l in IX_VEC for l in letters):
                    break
        else:
            letters = list(rng.choice(IX_MENU4))
        nvec = sum(1 for l in letters if l in "VXWRA")
        maxlen = 5 if nvec <= 2 else (4 if nvec == 3 else 3)
        args = []
        for l, L in zip(letters, v.dims):
            if l == "I":
                args.append("i:%d" % rng.randrange(L))
            elif l == "E":
                args.append("i:e%d" % rng.randrange(L))
            elif l == "R":
                args.append(self.ix_range(L, False))
            elif l == "A":
                args.append("_")
            else:
                ent = self.ix_entries(L, maxlen)
                if l == "W":
                    ent = [L - 1 - x for x in ent]
                args.append("%s:%s" % (l.lower(), ",".join(map(str, ent))))
        self.count("ix_rank%d_%s" % (r, "".join(letters)) if r != 3 else "ix_rank3")
        for l in letters:
            self.count("ix_arg_" + l)
        if rng.random() < 0.04:
            # nothing selected: an empty index vector / range in the first non-scalar position (zero leading extent)
            j = next(k for k, l in enumerate(letters) if l not in "IE")
            if letters[j] in IX_VEC:
                args[j] = letters[j].lower() + ":"
                self.count("ix_empty_leading_vector")
            elif letters[j] == "R" and v.dims[j] >= 2:
                e = rng.randrange(v.dims[j] - 1)
                args[j] = "r:%d,%d" % (e + 1, e)
                self.count("ix_empty_leading_range")
        if bad and self.checked:
            # one inadmissible value: an index-vector entry, a scalar index or a range end point
            cand = [k for k, l in enumerate(letters) if l != "A"]
            j = rng.choice([k for k in cand if letters[k] in IX_VEC] * 3 + cand)
            L = v.dims[j]
            x = rng.choice([-1, L, L, L + 1, -2])
            side = "below" if x < 0 else ("at_n" if x == L else "above")
            l = letters[j]
            if l in IX_VEC:
                ent = ints_of(args[j][2:]) or [0]
                q = rng.randrange(len(ent))
                ent[q] = (L - 1 - x) if l == "W" else x
                args[j] = "%s:%s" % (l.lower(), ",".join(map(str, ent)))
                self.count("malformed_ix_entry_%s_%s" % (l, side))
            elif l in "IE":
                args[j] = "i:" + (("e%d" % (L - 1 - x)) if l == "E" else str(x))
                self.count("malformed_ix_scalar_%s_%s" % (l, side))
            else:
                good = rng.randrange(L)
                # keep the C++ extent non-negative: the bad end point is the far one in the direction of the stride
                if x < 0:
                    args[j] = rng.choice(["r:%d,%d" % (x, good), "s:%d,%d,-1" % (good, x), "s:e%d,%s,2" % (L - 1 - x, good)])
                else:
                    args[j] = rng.choice(["r:%d,%d" % (good, x), "s:%d,%d,-1" % (x, good), "s:%d,e%d,2" % (good, L - 1 - x)])
                self.count("malformed_ix_range_" + side)
        # value-preserving rewriting: an index vector as an integer-vector expression over an intVector (u:VE:raw),
        # a scalar next to an intVector as `end` arithmetic; then the const overload
        if r <= 3 and rng.random() < 0.45:
            cand = [k for k, a in enumerate(args) if a[:2] in ("v:", "x:", "w:") and len(a) > 2]
            if r == 2:
                cand += [k for k, a in enumerate(args) if a.startswith("i:") and args[1 - k].startswith("v:")]
            rng.shuffle(cand)
            for k in cand[:2]:
                a, L = args[k], v.dims[k]
                if a.startswith("i:"):
                    t = rich_token(rng, tok(a[2:], L), L, XMENU[2], self.stats, "ix_scalar")
                    new = None if t is None else "i:" + t
                else:
                    ent = ints_of(a[2:])
                    if a[0] == "w":
                        ent = [L - 1 - x for x in ent]
                    new = vexpr_token(rng, ent, L, range(len(VSHAPES)) if r == 1 else range(NVMENU2), self.stats)
                if new is None:
                    continue
                out = list(args)
                out[k] = new
                letters2 = [ix_letter(x) for x in out]
                if None not in letters2 and ix_compiled(letters2):
                    args = out
                    self.count("ix_rank%d_rewritten_%s" % (r, "scalar" if a.startswith("i:") else "vector"))
                    break
        # the index vector itself as a view / a FixedArray (value-preserving: the selector denotes the same entries)
        for k, a in enumerate(args):
            if a[:2] not in ("v:", "x:", "w:", "u:") or a.endswith(":") or "|" in a:
                continue
            if a.startswith("v:") and a.count(",") == 2 and r <= 2 and rng.random() < 0.3:
                out = list(args)
                out[k] = "f:" + a[2:]
                l2 = [ix_letter(x) for x in out]
                if None not in l2 and ix_compiled(l2):
                    args = out
                    self.count("ix_index_vector_FixedArray")
                    continue
            if rng.random() < 0.5:
                head, ent = a[:a.rindex(":") + 1], a[a.rindex(":") + 1:]
                lay = index_layout(rng, ent.count(",") + 1)
                args[k] = head + lay + "|" + ent
                self.count("ix_index_vector_view_" + {"s": "strided", "c": "matrix_column", "r": "matrix_row"}[lay[0]]
                           + ("_reversed" if lay[0] == "s" and "-" in lay else ""))
        if rng.random() < self.p_const:
            self.count("const_ix")
            return "cix " + " ".join(args), "ix"
        return "ix " + " ".join(args), "ix"

    def composition(self):
        """-> list of lines (parent first)"""
        line, v, okind = self.parent()
        lines = [line]
        if self.contig and okind not in "FEG":
            lines.append("contig")
        depth = self.rng.randint(1, self.depth)
        n = 0
        guard = 0
        while n < depth and guard < 4 * depth + 8:
            guard += 1
            if v is None or v.null or not v.dims:
                break
            text, kind = self.op(v, okind)
            if kind == "ix":
                res = oracle_ix(v, text.split(), self.checked, okind)
                if res is UNDEF or res[0] == "bad":
                    self.count("regenerated")
                    continue
                lines.append(text)
                self.count("op_ix")
                if res[0] == "err":
                    self.count("error_ix_constructor_" + res[1])
                else:
                    self.count("ix_result_rank_%d" % len(res[1]["dims"]))
                    if not res[1]["elems"]:
                        self.count("ix_result_empty")
                    elif any(not all(0 <= i < L for i, L in zip(t, v.dims)) for t in res[1]["elems"]):
                        self.count("ix_result_rejected_element")
                n += 1
                continue
            res = oracle_apply(v, text.split(), self.checked, okind)
            if res is UNDEF or res[0] == "bad":
                self.count("regenerated")
                continue
            lines.append(text)
            self.count("op_" + kind)
            self.count("op_on_" + KIND_NAME[okind])
            if res[0] == "err":
                self.count("error_" + res[1])
            elif res[0] == "null":
                v = OV([0], [], null=True)
                n += 1
            else:
                if v.cells and len(v.cells) > 1:
                    # the object the member was called on: was it itself a view with a non-unit stride / non-zero begin?
                    if v.cells[0] != 0:
                        self.count("receiver_nonzero_begin")
                    if v.cells[-1] - v.cells[-2] != 1:
                        self.count("receiver_last_stride_%s" % ("negative" if v.cells[-1] < v.cells[-2] else "non_unit"))
                v = res[1]
                if okind in "FE":
                    okind = "P"
                if okind == "G":
                    okind = "A"
                if okind == "A" and kind == "softlink":
                    # a soft link of an ACTIVE array cannot be sliced further (the view constructor raises
                    # invalid_operation for an active array without Storage): the composition ends here
                    self.count("active_softlink_ends_composition")
                    break
                self.count("result_rank_%d" % len(v.dims))
                if not v.cells:
                    self.count("result_empty")
                n += 1
            if self.contig and okind != "F":
                lines.append("contig")
        return lines


def systematic_malformed():
    """bounds-checked build: every argument position of operator(), subset and operator[] for ranks 1..6, each with an
    index below 0 / above n-1, written as an int and through `end`; one composition per case, through the non-const and
    (every second case) the const overload"""
    out = []
    for r in range(1, 7):
        dims = [3, 4, 2, 3, 2, 2][:r]
        head = "parent rm " + " ".join(map(str, dims))
        for j in range(r):
            L = dims[j]
            for x in ("-1", str(L), "e-1", "e%d" % L):          # -1, L, end+1 (= L), end-L (= -1)
                for form in ("i:%s", "r:%s,0", "r:0,%s", "s:%s,0,-1", "s:0,%s,2", "r:%s,e0", "s:e0,%s,-1"):
                    args = [("_" if r < 6 or k == r - 1 else "r:0,e0") if k % 2 else "i:0" for k in range(r)]
                    args[j] = form % x
                    out.append([head, ("cslice " if len(out) % 2 else "slice ") + " ".join(args), "softlink"])
                t = ["0", "e0"] * r
                for side in (0, 1):
                    t2 = list(t)
                    t2[2 * j + side] = x
                    if side == 0 and tok(x, L) > L - 1:
                        t2[2 * j + 1] = x                              # keep the C++ extent non-negative
                    if side == 1 and tok(x, L) < 0:
                        t2[2 * j] = x
                    out.append([head, ("csubset " if len(out) % 2 else "subset ") + " ".join(t2), "softlink"])
        for x in ("-1", str(dims[0]), "e-1", "e%d" % dims[0]):
            out.append([head, "idx " + x, "softlink"])
            out.append([head, "cidx " + x, "softlink"])
    return out


IX_SYS_PATTERNS = {1: ["V", "X", "W"],
                   2: ["VI", "IV", "VE", "EV", "VA", "AV", "VR", "RV", "VV", "XW", "WX", "XI", "AW"],
                   3: ["VII", "IVI", "IIV", "IEV", "EIV", "VEI", "AVI", "RIV", "VAV", "VVV", "EVR", "IVA"],
                   4: list(IX_MENU4)}


def ix_valid_arg(letter, L, k):
    """an admissible selector of the given letter for a dimension of length L (k varies the values)"""
    if letter == "I":
        return "i:%d" % (k % L)
    if letter == "E":
        return "i:e%d" % (k % L)
    if letter == "R":
        return ["r:0,e0", "s:e0,0,-1", "s:0,%d,2" % (L - 1)][k % 3]
    if letter == "r":                       # plain end points: RangeIndex<int,int,int> for ranks 1-2
        return ["r:0,%d" % (L - 1), "s:%d,0,-1" % (L - 1), "s:0,%d,2" % (L - 1)][k % 3]
    if letter == "A":
        return "_"
    ent = [(k + 1) % L, 0, L - 1]
    if letter == "W":
        ent = [L - 1 - x for x in ent]
    return "%s:%s" % (letter.lower(), ",".join(map(str, ent)))


def systematic_malformed_ix():
    """bounds-checked build: for ranks 1..4 and a list of argument-type patterns per rank, every position of every
    index vector holding n, n+1 and -1 in turn (as intVector, as tmp+2, as end-tmp); every scalar position holding n
    and -1 (int and end-k); every range position with an end point n / -1.  The indexed array is a view strictly
    inside a larger parent, so that a missed test lands in the parent allocation.  One composition per case."""
    out = []
    for r in range(1, 5):
        big = [5, 6, 4, 5][:r]
        dims = [3, 4, 2, 3][:r]
        head = ["parent rm " + " ".join(map(str, big)),
                "subset " + " ".join("1 %d" % d for d in dims)]
        for pat in IX_SYS_PATTERNS[r]:
            base = [ix_valid_arg(l, L, k) for k, (l, L) in enumerate(zip(pat, dims))]
            out.append(head + ["ix " + " ".join(base)])
            for j, (l, L) in enumerate(zip(pat, dims)):
                if l in IX_VEC:
                    ent = ints_of(base[j][2:])
                    for q in range(len(ent)):
                        for x in (L, L + 1, -1):
                            e2 = list(ent)
                            e2[q] = (L - 1 - x) if l == "W" else x
                            a = list(base)
                            a[j] = "%s:%s" % (l.lower(), ",".join(map(str, e2)))
                            out.append(head + ["ix " + " ".join(a), "softlink"])
                elif l in "IE":
                    for x in (L, -1):
                        a = list(base)
                        a[j] = "i:" + (("e%d" % (L - 1 - x)) if l == "E" else str(x))
                        out.append(head + ["ix " + " ".join(a), "softlink"])
                elif l == "R":
                    for t in ("r:0,%d" % L, "r:-1,0", "s:%d,0,-1" % L, "s:e0,e%d,-1" % L, "r:0,e-1"):
                        a = list(base)
                        a[j] = t
                        out.append(head + ["ix " + " ".join(a), "softlink"])
    return out


INDEX_LAYOUTS = ("s0.2", "s1.3", "s2.-1", "s6.-2", "s3.1", "c1.3", "c0.2", "r1.2")


def index_view_sweep(rng, checked, stats):
    """index vectors that are themselves VIEWS (seed C06_8: Array::value_with_len_ must step with the view's own offset):
    for ranks 1..4, every argument-type pattern of IX_SYS_PATTERNS and every position holding an intVector / tmp+2 /
    end-tmp, the vector is given as a strided (2, 3), reversed (-1, -2) and offset part of a larger intVector and as a
    column / row of an intMatrix; rank 1 also every integer-vector expression shape over such a view; and a
    FixedArray<int,false,3> as index vector (rank 1, rank 2 with every partner in either order).  The indexed array is a
    view strictly inside a larger parent; const and non-const operator().  Bounds-checked build: also an entry n / -1."""
    out = []
    def add(head, args):
        out.append(head + [("cix " if len(out) % 2 else "ix ") + " ".join(args), "softlink"])
    for r in range(1, 5):
        big = [5, 6, 4, 5][:r]
        dims = [3, 4, 2, 3][:r]
        head = ["parent %s %s" % ("rm" if r % 2 else "cm", " ".join(map(str, big))), "subset " + " ".join("1 %d" % d for d in dims)]
        for pn, pat in enumerate(IX_SYS_PATTERNS[r]):
            base = [ix_valid_arg(l, L, k + pn) for k, (l, L) in enumerate(zip(pat, dims))]
            for j, (l, L) in enumerate(zip(pat, dims)):
                if l not in IX_VEC:
                    continue
                for lay in INDEX_LAYOUTS:
                    a = list(base)
                    a[j] = base[j][:2] + lay + "|" + base[j][2:]
                    add(head, a)
                    stats["sweep_index_view_%s_rank%d" % (lay, r)] = stats.get("sweep_index_view_%s_rank%d" % (lay, r), 0) + 1
                if checked:
                    ent = ints_of(base[j][2:])
                    for lay, q, x in (("s0.2", 1, L), ("s4.-2", 2, -1), ("c1.3", 0, L + 1)):
                        e2 = list(ent)
                        e2[q] = (L - 1 - x) if l == "W" else x
                        a = list(base)
                        a[j] = base[j][:2] + lay + "|" + ",".join(map(str, e2))
                        add(head, a)
    L = 10
    pre1 = ["parent rm 11", "slice s:e0,1,-1"]
    for sid in range(len(VSHAPES)):
        for lay in ("s1.2", "s4.-2", "c1.2"):
            ent = rng.sample(range(L), 3)
            if sid == VSHAPES.index("(v+v)"):
                ent = [2 * (x // 2) for x in ent]
            t = vexpr_token(rng, ent, L, [sid], stats)
            if t is not None:
                add(pre1, [t[:t.rindex(":") + 1] + lay + "|" + t[t.rindex(":") + 1:]])
    # FixedArray<int,false,3> as the index vector
    pre2 = ["parent cm 6 7", "slice s:e0,1,-1 s:1,e0,2"]           # 5 x 3
    for variant in (["ok", "ok"] + (["bad0", "bad1", "bad2"] if checked else [])):
        ent = rng.sample(range(L), 3)
        if variant.startswith("bad"):
            ent[int(variant[3])] = rng.choice([-1, L, L + 1])
        add(pre1, ["f:" + ",".join(map(str, ent))])
        for partner in IX_PARTNER:
            for pos in (0, 1):
                Lv = (5, 3)[pos]
                ent = rng.sample(range(Lv), 3)
                if variant.startswith("bad"):
                    ent[int(variant[3])] = rng.choice([-1, Lv])
                args = [None, None]
                args[pos] = "f:" + ",".join(map(str, ent))
                args[1 - pos] = ix_valid_arg(partner, (5, 3)[1 - pos], pos + len(out))
                add(pre2, args)
    return out


def menu_sweep():
    """every argument-type pattern compiled into the harness, twice with different admissible values, on a view with
    pairwise different extents lying inside a larger parent (row- and column-major); run in both builds"""
    out = []
    for r in range(1, 5):
        big = [5, 6, 4, 5][:r]
        dims = [3, 4, 2, 5][:r]
        if r == 1:
            pats = ["V", "X", "W"]
        elif r == 2:
            pats = ["".join(p) for p in itertools.product("IErRAVXW", repeat=2)]
        elif r == 3:
            pats = ["".join(p) for p in itertools.product("IERAV", repeat=3)]
        else:
            pats = list(IX_MENU4)
        pats = [p for p in pats if any(l in IX_VEC for l in p)]
        for n, pat in enumerate(pats):
            head = ["parent %s %s" % ("cm" if n % 4 == 3 else "rm", " ".join(map(str, big))),
                    "subset " + " ".join("%d %d" % (b - d, b - 1) for b, d in zip(big, dims))]
            ops = ["ix " + " ".join(ix_valid_arg(l, L, k + v) for k, (l, L) in enumerate(zip(pat, dims))) for v in (0, 1)]
            out.append(head + ops)
    return out


def empty_extent_probes():
    """nothing selected in a LATER position (empty index vector / empty range behind a non-empty leading extent):
    no element exists, so nothing may be read or written.  (Pinned IndexedArray::empty() tests dimension 0 only:
    the scalar assignment then stores to cells / reads entry 0 of the empty vector; fixes/C06-indexed-empty-extent.patch)"""
    return [["parent rm 3 4", "ix v:1,0 v:"],
            ["parent rm 3 4", "ix v:1,0 r:2,1"],
            ["parent rm 2 5 4", "ix v:1,0 r:1,0 v:1"],
            ["parent rm 2 5 4", "ix v:1,0 v: v:1"],
            ["parent rm 2 5 4", "ix v:1,0 i:2 v:"],
            ["parent rm 2 5 4", "ix _ v: i:e0"],
            ["parent rm 2 3 2 3", "ix v:1 r:1,0 _ v:2,0"]]


def strided_view_op(dims):
    """an operator() call that turns a view of these extents into one with non-unit / negative strides and a non-zero
    begin in every dimension that is long enough"""
    args = []
    for k, L in enumerate(dims):
        if L >= 3:
            args.append("s:e0,1,-1" if k % 2 == 0 else "s:1,e0,2")
        elif L == 2:
            args.append("s:1,0,-1")
        else:
            args.append("r:0,e0" if len(dims) == 6 and k < 5 else "_")
    return "slice " + " ".join(args)


def const_sweep():
    """every member that has a const overload, called through the const AND the non-const object, on a receiver that is
    itself a view with non-unit / negative strides and a non-zero begin (and on the view of that view), for every rank,
    row- and column-major parents, active arrays and FixedArray parents.  One composition per call; run in both builds."""
    out = []
    parents = [("parent %s" % o, d) for o in ("rm", "cm") for d in ([7], [4, 5], [3, 4, 3], [3, 2, 3, 3], [2, 3, 2, 3, 2], [2, 2, 3, 2, 2, 3])]
    parents += [("aparent rm", [6]), ("aparent cm", [4, 3]), ("aparent rm", [3, 2, 3])]
    for head, dims in parents:
        kind = "A" if head.startswith("a") else "P"
        r = len(dims)
        pre = [head + " " + " ".join(map(str, dims)), strided_view_op(dims)]
        v = oracle_apply(parent_of(pre[0].split())[1], pre[1].split(), False, kind)[1]
        nd = v.dims
        rng6 = lambda a, k: a if not (r == 6 and k < 5 and a == "_") else "r:0,e0"
        calls = []
        calls.append("slice " + " ".join("r:1,e0" if L >= 2 else rng6("_", k) for k, L in enumerate(nd)))
        calls.append("slice " + " ".join("s:e0,%d,-1" % (1 if L >= 2 else 0) for L in nd))
        calls.append("slice " + " ".join(("i:%d" % (L - 1)) if k % 2 == 0 else ("r:%d,e0" % (1 if L >= 2 else 0)) for k, L in enumerate(nd)))
        calls.append("slice " + " ".join(("r:1,%d" % (L - 1)) if (k % 2 == 0 and L >= 2) else "i:e0" for k, L in enumerate(nd)))
        calls.append("slice " + " ".join("i:%d" % (L - 1) for L in nd))
        calls.append("slice " + " ".join("i:e%d" % (L - 1) for L in nd))
        if r >= 2:
            calls.append("slice " + " ".join(["i:1" if nd[0] >= 2 else "i:0"] + [rng6("_", k + 1) for k in range(r - 1)]))
            calls.append("slice " + " ".join([rng6("_", k) if k == r - 1 else "i:e0" for k in range(r)]))
        calls.append("subset " + " ".join("%d e0" % (1 if L >= 2 else 0) for L in nd))
        calls.append("subset " + " ".join("%d %d" % ((1, L - 1) if L >= 2 else (0, 0)) for L in nd))
        calls.append("idx %d" % (nd[0] - 1))
        calls.append("idx e%d" % (nd[0] - 1))
        calls.append("softlink")
        if r == 2:
            calls.append("T")
        if kind == "P" and r <= 4:
            pat = {1: "V", 2: "VR", 3: "IVR", 4: "IVRE"}[r]
            calls.append("ix " + " ".join(ix_valid_arg(l, L, k) for k, (l, L) in enumerate(zip(pat, nd))))
        for c in calls:
            for prefix in ("", "c"):
                out.append(pre + [prefix + c])
                out.append(pre + [strided_view_op(nd), prefix + c] if all(L >= 2 for L in nd) and "ix" not in c else pre + [prefix + c, "softlink"])
    for dims in FIXED_MENU:
        head = "fparent " + " ".join(map(str, dims))
        r = len(dims)
        calls = ["slice " + " ".join("r:1,e0" for _ in dims), "slice " + " ".join("s:e0,0,-2" for _ in dims),
                 "slice " + " ".join("i:%d" % (L - 1) for L in dims), "slice " + " ".join("i:e0" if k else "_" for k in range(r)),
                 "slice " + " ".join("i:1" if k != r - 1 else "s:%d,1,-1" % (dims[k] - 1) for k in range(r)),
                 "subset " + " ".join("1 e0" for _ in dims), "subset " + " ".join("0 %d" % (L - 2) for L in dims),
                 "idx 1", "idx e0"]
        if r == 2:
            calls += (["T"] if FIXED_T_IS_VIEW[0] else []) + ["permute 1 0", "diag 1", "diag -1", "subdiag 1 2"]
        if r == 3:
            calls += ["permute 2 0 1", "permute 1 2 0"]
        for c in calls:
            for prefix in ("", "c"):
                if prefix and c.split()[0] not in CONST_OPS or (prefix and c.startswith("idx") and r > 1):
                    continue
                out.append([head, prefix + c, "softlink"])
    return out


def rich_sweep(rng, checked, stats):
    """every compiled shape of `end` arithmetic, in every role (scalar index, range begin, range end, both, stride) and
    every argument position, ranks 1..6 (the receiver is a reversed / strided view of the parent; ranks 3..6: the first
    four shapes, roles scalar and begin), operator() / subset /
    operator[], const and non-const; the integers of each expression are solved for a random admissible value.  In the
    bounds-checked build also every shape holding the values -1 and n as a scalar index and as range end points."""
    out = []
    for r in (1, 2, 3, 4, 5, 6):
        dims = {1: [9], 2: [5, 6], 3: [4, 5, 3], 4: [3, 4, 3, 4], 5: [3, 2, 4, 3, 3], 6: [3, 2, 3, 2, 3, 3]}[r]
        pre = ["parent %s %s" % ("rm" if r != 2 else "cm", " ".join(map(str, dims))), strided_view_op(dims)]
        nd = oracle_apply(parent_of(pre[0].split())[1], pre[1].split(), False, "P")[1].dims
        roles = {1: ["S", "B", "E", "BE", "ST"], 2: ["S", "B", "E"]}.get(r, ["S", "B"])
        for sid in range(XMENU[r]):
            shape = XSHAPES[sid]
            for role in roles:
                for j in range(r):
                    L = nd[j]
                    vals = [rng.randrange(L), rng.randrange(L)]
                    lo, hi = min(vals), max(vals)
                    want = [("ok", lo, hi)]
                    if checked:
                        want += [("bad", -1, hi), ("bad", lo, L)]
                    for tag, lo2, hi2 in want:
                        def tk(val):
                            c = solve_shape(rng, shape, val, L - 1)
                            return None if c is None else px_fill(shape, c)
                        if role == "S":
                            t = tk(lo2 if tag == "ok" or lo2 < 0 else hi2)
                            arg = None if t is None else "i:" + t
                        elif role == "B":
                            t = tk(lo2)
                            arg = None if t is None else "r:%s,%d" % (t, min(hi2, L - 1))
                        elif role == "E":
                            t = tk(hi2)
                            arg = None if t is None else "r:%d,%s" % (max(lo2, 0), t)
                        elif role == "BE":
                            t1, t2 = tk(lo2), tk(hi2)
                            arg = None if None in (t1, t2) else "s:%s,%s,1" % (t1, t2)
                        else:
                            st = rng.choice([1, 2, 3])
                            t = tk(st)
                            arg = None if t is None or tag != "ok" else "s:%d,%d,%s" % (lo2, hi2, t)
                        if arg is None:
                            continue
                        others = [("i:e0" if (k + j) % 2 or (r >= 4 and k != r - 1) else "_") for k in range(r)] if r >= 3 else \
                                 [("i:%d" % (nd[k] - 1), "r:0,e0", "_")[(k + j + sid) % 3] for k in range(r)]
                        args = list(others)
                        args[j] = arg
                        if not slice_compiled("P", r, args):
                            continue
                        stats["sweep_rich_%s_%s" % (role, shape)] = stats.get("sweep_rich_%s_%s" % (role, shape), 0) + 1
                        out.append(pre + [("cslice " if (sid + j) % 2 else "slice ") + " ".join(args), "softlink"])
            if r <= 2:
                L = nd[0]
                for val in [rng.randrange(L)] + ([-1, L] if checked else []):
                    c = solve_shape(rng, shape, val, L - 1)
                    if c is None:
                        continue
                    t = px_fill(shape, c)
                    out.append(pre + [("cidx " if sid % 2 else "idx ") + t, "softlink"])
                    sub = ["0", "e0"] * r
                    for pos in range(2 * r):
                        Lp = nd[pos // 2]
                        # admissible for this dimension, or (bounds-checked build) -1 / the extent
                        c2 = solve_shape(rng, shape, (val % Lp) if 0 <= val < L else (val if val < 0 else Lp), Lp - 1)
                        if c2 is None:
                            continue
                        s2 = list(sub)
                        s2[pos] = px_fill(shape, c2)
                        b, e = tok(s2[pos - pos % 2], Lp), tok(s2[pos - pos % 2 + 1], Lp)
                        if e + 1 - b < 0:
                            continue
                        out.append(pre + [("csubset " if (sid + pos) % 2 else "subset ") + " ".join(s2), "softlink"])
    return out


def vexpr_sweep(rng, checked, stats):
    """every compiled integer-vector expression as an index vector: rank 1 (all shapes), rank 2 (the first NVMENU2 shapes
    with every partner I E R A V in either order; every rich scalar shape of the rank-2 menu next to an intVector), rank 3
    (the first NVMENU2 shapes in every position between two scalars), through
    the const and the non-const operator(); entries admissible, and in the bounds-checked build also one entry -1 / n"""
    out = []
    pre1 = ["parent rm 11", "slice s:e0,1,-1"]                      # 10 elements, reversed, begin 10
    pre2 = ["parent cm 6 7", "slice s:e0,1,-1 s:1,e0,2"]           # 5 x 3
    for sid in range(len(VSHAPES)):
        for variant in (["ok", "ok"] + (["bad-1", "badn"] if checked else [])):
            L = 10
            ent = [rng.randrange(L) for _ in range(3)]
            if sid == VSHAPES.index("(v+v)"):
                ent = [2 * (x // 2) for x in ent]
            if variant == "bad-1":
                ent[rng.randrange(3)] = -1 if sid != VSHAPES.index("(v+v)") else -2
            if variant == "badn":
                ent[rng.randrange(3)] = L
            t = vexpr_token(rng, ent, L, [sid], stats)
            if t is not None:
                out.append(pre1 + [("cix " if len(out) % 2 else "ix ") + t, "softlink"])
            if sid < NVMENU2:
                for partner in IX_PARTNER:
                    for pos in (0, 1):
                        Lv = (5, 3)[pos]
                        ent = [rng.randrange(Lv) for _ in range(2)]
                        if sid == VSHAPES.index("(v+v)"):
                            ent = [2 * (x // 2) for x in ent]
                        if variant == "badn":
                            ent[0] = Lv
                        if variant == "bad-1":
                            ent[1] = -1 if sid != VSHAPES.index("(v+v)") else -2
                        t = vexpr_token(rng, ent, Lv, [sid], stats)
                        if t is None:
                            continue
                        args = [None, None]
                        args[pos] = t
                        args[1 - pos] = ix_valid_arg(partner, (5, 3)[1 - pos], sid + pos)
                        out.append(pre2 + [("cix " if (sid + pos) % 2 else "ix ") + " ".join(args), "softlink"])
    pre3 = ["parent rm 4 5 6", "slice s:e0,1,-1 s:1,e0,2 s:e0,1,-1"]    # 3 x 2 x 5
    d3 = (3, 2, 5)
    for sid in range(NVMENU2):
        for pos in range(3):
            for variant in (["ok"] + (["badn", "bad-1"] if checked else [])):
                Lv = d3[pos]
                ent = [rng.randrange(Lv) for _ in range(2)]
                if sid == VSHAPES.index("(v+v)"):
                    ent = [2 * (x // 2) for x in ent]
                if variant == "badn":
                    ent[0] = Lv
                if variant == "bad-1":
                    ent[1] = -1 if sid != VSHAPES.index("(v+v)") else -2
                t = vexpr_token(rng, ent, Lv, [sid], stats)
                if t is None:
                    continue
                args = [("i:%d" % rng.randrange(d3[k])) if (k + sid) % 2 else ("i:e%d" % rng.randrange(d3[k])) for k in range(3)]
                args[pos] = t
                out.append(pre3 + [("cix " if (sid + pos) % 2 else "ix ") + " ".join(args), "softlink"])
    for sid in range(XMENU[2]):
        for pos in (0, 1):
            Ls = (5, 3)[pos]
            for val in [rng.randrange(Ls)] + ([-1, Ls] if checked else []):
                c = solve_shape(rng, XSHAPES[sid], val, Ls - 1)
                if c is None:
                    continue
                args = [None, None]
                args[pos] = "i:" + px_fill(XSHAPES[sid], c)
                args[1 - pos] = ix_valid_arg("V", (5, 3)[1 - pos], sid)
                stats["sweep_ix_rich_scalar_%s" % XSHAPES[sid]] = stats.get("sweep_ix_rich_scalar_%s" % XSHAPES[sid], 0) + 1
                out.append(pre2 + [("cix " if (sid + pos) % 2 else "ix ") + " ".join(args), "softlink"])
    return out


ZERO_SELECTORS = ("r:2,1", "r:e0,e1", "r:1,0", "s:2,1,2", "s:e1,e2,3", "s:1,2,-2", "s:0,e1,-3")
NEIGHBOURS = ("scalar", "range", "stride+", "stride-", "all")


def neighbour_arg(kind, L, k, r, last):
    """an admissible selector of the given kind for a dimension of length L >= 3 (k varies the values)"""
    if kind == "scalar":
        return ("i:%d" % (k % L)) if k % 2 else ("i:e%d" % (k % L))
    if kind == "range":
        return "r:1,e0" if k % 2 else "r:0,%d" % (L - 2)
    if kind == "stride+":
        return "s:0,e0,2" if k % 2 else "s:1,%d,2" % (L - 1)
    if kind == "stride-":
        return "s:e0,0,-1" if k % 2 else "s:%d,1,-2" % (L - 1)
    return "_" if (r < 6 or last) else "r:0,e0"


def zero_extent_sweep():
    """a selector that selects NOTHING (empty range r:k,k-1 written with ints and with `end`, empty stride of either sign:
    direction wrong by less than one stride) in EVERY position of operator() for every rank 1..6, with every kind of
    neighbour selector (scalar / range / stride+ / stride- / __) in the other positions, on passive row- and column-major
    parents, on a strided / reversed receiver, on active arrays (ranks 1..3) and on FixedArray parents (ranks 1..4);
    likewise subset with an empty pair in every position; then members applied to the empty view (soft_link, operator()
    with __, T, permute, reshape of an empty vector to (0), (0,2), (3,0), (2,0,2), diag_vector, operator[]).  The view
    denotes no element: every whole-view operation must leave every cell of the parent alone, B = V must give an empty B,
    sum and maxval 0.  One composition per case; run in both builds."""
    out = []
    objects = []
    for r in range(1, 7):
        dims = {1: [7], 2: [4, 5], 3: [3, 4, 5], 4: [3, 4, 3, 5], 5: [3, 3, 4, 3, 3], 6: [3, 3, 3, 3, 3, 3]}[r]
        objects.append((["parent rm " + " ".join(map(str, dims))], dims, r))
        if r <= 4:
            objects.append((["parent cm " + " ".join(map(str, dims))], dims, r))
            pre = ["parent rm " + " ".join(map(str, [d + 1 for d in dims])), strided_view_op([d + 1 for d in dims])]
            nd = oracle_apply(parent_of(pre[0].split())[1], pre[1].split(), False, "P")[1].dims
            if all(L >= 3 for L in nd):
                objects.append((pre, nd, r))
        if r <= 3:
            objects.append((["aparent %s %s" % ("rm" if r != 2 else "cm", " ".join(map(str, dims)))], dims, r))
    for dims in ([4], [3, 4], [2, 3, 4], [2, 3, 4, 5]):
        objects.append((["fparent " + " ".join(map(str, dims))], dims, len(dims)))
    n = 0
    for pre, dims, r in objects:
        fixed = pre[0].startswith("fparent")
        for j in range(r):
            L = dims[j]
            for zs in ZERO_SELECTORS:
                p = zs[2:].split(",")
                try:
                    if not (0 <= tok(p[0], L) < L and 0 <= tok(p[1], L) < L):
                        continue
                except ValueError:
                    continue
                for nk in NEIGHBOURS:
                    args = []
                    for k in range(r):
                        if k == j:
                            args.append(zs)
                        elif dims[k] >= 3:
                            args.append(neighbour_arg(nk, dims[k], k + n, r, k == r - 1))
                        else:
                            args.append("i:e0" if nk == "scalar" else ("_" if (r < 6 or k == r - 1) else "r:0,e0"))
                    n += 1
                    active = pre[0].startswith("aparent")
                    after = ["softlink"] if not (fixed or active) else []
                    rr = sum(1 for a in args if not a.startswith("i:"))
                    follow = [("c" if n % 2 else "") + "slice " + " ".join("_" for _ in range(rr))] if rr < 6 else []
                    if rr == 2:
                        follow += ["T", "diag 0"] if n % 2 else ["permute 1 0"]
                    if rr == 1:
                        follow += ["reshape " + ("0", "0 2", "3 0", "2 0 2")[n % 4]]
                    if rr >= 3 and n % 2:
                        follow += ["permute " + " ".join(map(str, reversed(range(rr))))]
                    if active:
                        follow += ["softlink"]      # (ends the composition: an active soft link cannot be sliced further)
                    out.append(pre + [("cslice " if n % 3 == 0 else "slice ") + " ".join(args)] + after + follow)
            # subset with an empty pair in this position (needs L >= 2)
            if L >= 2:
                t = []
                for k in range(r):
                    t += (["1", "0"] if (j + r) % 2 else ["e0", "e1"]) if k == j else ["0", "e0"]
                n += 1
                out.append(pre + [("csubset " if n % 2 else "subset ") + " ".join(t)] + ([] if fixed else ["softlink"]))
    return out


def element_sweep(checked, rng):
    """ELEMENT access A(i0,..,ir-1) with only scalar arguments, every argument passed as written: for passive Arrays of
    rank 1..6 (row-major; column-major to rank 4), active Arrays of rank 1..3, the FixedArray parents of rank 1..4, the
    element-only FixedArrays of rank 4..6 (3x2x5x4, 2x3x1x4x5, 3x1x4x2x6x5) and the ACTIVE FixedArrays of rank 1..4, all with
    PAIRWISE DIFFERENT extents (an index resolved against the length of another dimension then names another element or is
    wrongly range-tested).
    (a) every position x {int, end-k} x {0, middle, last index; bounds-checked build also n and -1, which must raise
        index_out_of_bounds} x {the other positions all ints / all end-k / alternating} x {non-const, const accessor};
    (b) every position x every compiled shape of `end` arithmetic (end, end/k, k-end, k/end, (end-k)/m; ranks 1-2 the first 8)
        x {non-const, const}, value and neighbour pattern rotating; bounds-checked build also n and -1 through a rotating shape.
    One composition per case."""
    out = []
    objects = []
    for r, dims in ((1, [5]), (2, [3, 4]), (3, [2, 3, 4]), (4, [2, 3, 4, 5]), (5, [1, 2, 3, 4, 5]), (6, [1, 2, 3, 4, 5, 6])):
        objects.append(("parent rm " + " ".join(map(str, dims)), dims))
        if r <= 4:
            objects.append(("parent cm " + " ".join(map(str, reversed(dims))), list(reversed(dims))))
        if r <= 3:
            objects.append(("aparent %s %s" % ("rm" if r != 2 else "cm", " ".join(map(str, dims))), dims))
        if r <= 4:
            objects.append(("fparent " + " ".join(map(str, dims if r > 1 else [4])), dims if r > 1 else [4]))
    for dims in FIXED_ELEM_MENU:
        objects.append(("efparent " + " ".join(map(str, dims)), list(dims)))
    for dims in FIXED_ACTIVE_MENU:
        objects.append(("afparent " + " ".join(map(str, dims)), list(dims)))

    def others(dims, j, pat, x):
        args = []
        for k in range(len(dims)):
            f = pat if pat != "alt" else ("end" if (k + j) % 2 else "int")
            val = (k + 2 * j + x) % dims[k]
            args.append("i:" + (str(val) if f == "int" else "e%d" % (dims[k] - 1 - val)))
        return args
    n = 0
    for head, dims in objects:
        r = len(dims)
        pats = ("int", "end", "alt") if 2 <= r <= 4 else (("int", "end") if r > 1 else ("int",))
        for j in range(r):
            L = dims[j]
            good = sorted(set([0, L // 2, L - 1]))
            vals = good + ([L, -1] if checked else [])
            for form in ("int", "end"):
                for x in vals:
                    for pat in pats:
                        args = others(dims, j, pat, x)
                        args[j] = "i:" + (str(x) if form == "int" else "e%d" % (L - 1 - x))
                        for prefix in ("", "c"):
                            out.append([head, prefix + "slice " + " ".join(args)])
            # (b) `end` arithmetic in this position
            shapes = list(range(min(ELMENU[r], 8)))
            for prefix in ("", "c"):
                for sh in shapes:
                    for att in range(len(good)):
                        n += 1
                        x = good[(n + att) % len(good)]
                        c = solve_shape(rng, XSHAPES[sh], x, L - 1)
                        if c is not None:
                            args = others(dims, j, pats[n % len(pats)], x)
                            args[j] = "i:" + px_fill(XSHAPES[sh], c)
                            out.append([head, prefix + "slice " + " ".join(args)])
                            break
                if checked:
                    for x in (L, -1):
                        for att in range(len(shapes)):
                            n += 1
                            sh = shapes[(n + att) % len(shapes)]
                            c = solve_shape(rng, XSHAPES[sh], x, L - 1)
                            if c is not None:
                                args = others(dims, j, pats[n % len(pats)], x)
                                args[j] = "i:" + px_fill(XSHAPES[sh], c)
                                out.append([head, prefix + "slice " + " ".join(args)])
                                break
    # rank-1 operator[] of the element-only objects (FixedArray rank 1: its own accessor pair, active and passive)
    for head, L in (("afparent 4", 4), ("fparent 4", 4)):
        for x in [0, 1, 3] + ([4, -1] if checked else []):
            for t in (str(x), "e%d" % (L - 1 - x)):
                for prefix in ("", "c"):
                    out.append([head, prefix + "idx " + t])
    return out


def permute_overload_sweep():
    """the three overloads of permute -- permute(const Index*), permute(const ExpressionSize<Rank>&), permute(i0,i1,..) -- of
    Array (passive ranks 1..6, active 2..3) and FixedArray (ranks 2..4): a cyclic and a reversing permutation each, a repeated
    dimension, an out-of-range dimension and (separate arguments) a -1 among the arguments; on a strided receiver too"""
    out = []
    objs = [("parent rm 2 3", 2), ("parent cm 2 3 4", 3), ("parent rm 2 3 2 2", 4), ("parent rm 1 2 3 2 2", 5), ("parent rm 2 1 2 3 1 2", 6),
            ("aparent rm 2 3", 2), ("aparent rm 2 3 4", 3), ("fparent 3 4", 2), ("fparent 2 3 4", 3), ("fparent 2 3 4 5", 4), ("parent rm 6", 1)]
    for head, r in objs:
        cyc = list(range(1, r)) + [0]
        rev = list(reversed(range(r)))
        bads = []
        if r >= 2:
            bads = [[0] * r, rev[:-1] + [r], rev[:-1] + [-1], [-1] + rev[1:]]
        for form in ("permute", "permuteE", "permuteV"):
            if form == "permuteV" and r < 2:
                continue
            for p in [cyc, rev] + bads:
                out.append([head, "%s %s" % (form, " ".join(map(str, p)))])
            if head.startswith("parent") and r >= 2:
                pre = "slice " + " ".join(["s:e0,0,-1"] + ["_"] * (r - 1)) if r < 6 else "slice " + " ".join(["s:e0,0,-1"] + ["r:0,e0"] * (r - 2) + ["_"])
                out.append([head, pre, "%s %s" % (form, " ".join(map(str, cyc)))])
    return out


def fixed_T_probes():
    """FixedArray::T(): documented (like every slicing member of FixedArray) to return an Array that links to the data of
    the FixedArray.  The pinned FixedArray::my_T builds `Array<2> out(*this)`, which for a FixedArray argument is the
    copying constructor from an expression: the result is a transposed COPY, writes through M.T() are lost (finding;
    /tmp/bld_c06/finding_2).  The random streams call T() on a FixedArray only where these probes pass."""
    return [["fparent 3 4", "T"], ["fparent 3 3", "cT"], ["fparent 3 4", "cT"], ["fparent 3 3", "T"]]


# ====================================================================== running
def run_pair(exe, mode, comps):
    """run implementation and model on the compositions; -> (impl_lines, model_lines, rc, err)"""
    text = "mode %s\n" % mode + "".join("\n".join(c) + "\n" for c in comps)
    impl, rc, err = vcheck.run_impl(exe, [], text, env={"ASAN_OPTIONS": ASAN_OPTS})
    model = vcheck.run_model("views", text)
    return impl, model, rc, err


def signature_of(err, lines=None, nout=None, checked=False):
    """signature of a crash: by the sanitizer report, or by the operation the implementation stopped in"""
    if "is_contiguous" in err:
        return "F-08:is_contiguous-reads-offset-out-of-bounds"
    if lines is not None and nout is not None and 0 <= nout < len(lines) and lines[nout].split()[0] in ("ix", "cix"):
        # replay the oracle up to the crashing `ix` to see whether it has a zero extent behind a non-zero leading one
        v, kind = None, "P"
        for l in lines[:nout]:
            w = l.split()
            if w[0] in PARENT_WORDS:
                pk = parent_of(w)
                if pk is not None:
                    kind, v = pk
            elif w[0] not in ("contig", "ix", "cix") and v is not None:
                res = oracle_apply(v, w, checked, kind)
                if res is UNDEF:
                    return None
                if res[0] == "ok":
                    v = res[1]
                    kind = "P" if kind in "FE" else ("A" if kind == "G" else kind)
                elif res[0] == "null":
                    v = OV([0], [], null=True)
        res = oracle_ix(v, lines[nout].split(), checked, kind)
        if res is not UNDEF and res[0] == "ix" and 0 in res[1]["dims"][1:] and res[1]["dims"][0] != 0:
            return SIG_EMPTY
    return None


def run_batch(ctx, exe, mode, comps, label):
    checked = (mode == "checked")
    todo = list(comps)
    crashes = 0
    while todo:
        impl, model, rc, err = run_pair(exe, mode, todo)
        if not impl or impl[0] != "mode " + mode:
            ctx.violation("harness build does not match the requested mode %s (%s): %r" % (mode, label, impl[:1]),
                          {"kind": "build-mode", "correspondence": CORR, "stderr": err[-2000:]}, tag="b", no_input=True)
            return
        pos = 1
        nxt = []
        for ci, c in enumerate(todo):
            n = len(c)
            il, ml = impl[pos:pos + n], model[pos:pos + n]
            pos += n
            nontrivial = len(c) >= 3
            ctx.count_case((mode, tuple(c)), nontrivial=nontrivial,
                           sample={"mode": mode, "ops": c, "impl_last": (il[-1][:200] if il else None)})
            if len(il) < n:
                # the implementation stopped inside this composition (sanitizer report / crash)
                crashes += 1
                shr = shrink(ctx, exe, mode, c, "crash")
                i2, _, rc2, err2 = run_pair(exe, mode, [shr])
                msg = "implementation stopped (rc=%s) while executing %r: %s" % (rc2, shr[min(len(i2) - 1, len(shr) - 1)] if i2 else "?", summarize(err2 or err))
                ctx.violation("%s [%s build]" % (msg, label),
                              {"kind": "oracle", "mode": mode, "lines": shr, "impl": i2[1:], "build": label, "message": msg,
                               "stderr": (err2 or err)[-3000:],
                               "signature": signature_of(err2 or err, shr, len(i2) - 1 if i2 else None, checked)})
                nxt = todo[ci + 1:] if crashes < 3 else []
                break
            limit = []
            bad = oracle(c, il, checked, limit)
            if limit:
                # a call whose argument types the harness does not have (hand-written case): the model is compared up to it
                il, ml = il[:limit[0]], ml[:limit[0]]
                ctx.cov["not_compiled_calls_skipped"] = ctx.cov.get("not_compiled_calls_skipped", 0) + 1
            if bad is not None:
                ctx.cov["oracle_failures"] = ctx.cov.get("oracle_failures", 0) + 1
                if ctx.cov["oracle_failures"] <= 3:
                    shr = shrink(ctx, exe, mode, c, "oracle")
                    i2, m2, _, _ = run_pair(exe, mode, [shr])
                    b2 = oracle(shr, i2[1:], checked) or bad
                    ctx.violation("%s — after %r [%s build]" % (b2[1], shr[min(b2[0], len(shr) - 1)], label),
                                  {"kind": "oracle", "mode": mode, "lines": shr, "step": b2[0], "message": b2[1],
                                   "impl": i2[1:], "model": m2[1:], "build": label,
                                   "signature": b2[2] if len(b2) > 2 else None})
            elif vcheck.first_diff(il, ml) is not None:
                ctx.cov["disagreements_checked"] += 1
                if len(ctx.pending) < 2:
                    shr = shrink(ctx, exe, mode, c, "diff")
                    i2, m2, _, _ = run_pair(exe, mode, [shr])
                    ctx.pending.append({"kind": "correspondence", "correspondence": CORR, "mode": mode, "lines": shr,
                                        "impl": i2[1:], "model": m2[1:], "build": label,
                                        "first_difference": vcheck.first_diff(i2[1:], m2[1:])})
            ctx.cov["traces_validated_against_impl"] += 1
        todo = nxt


def summarize(err):
    for l in err.splitlines():
        if "ERROR: AddressSanitizer" in l or "runtime error" in l or "LeakSanitizer" in l:
            frames = [x.strip() for x in err.splitlines() if x.strip().startswith("#")][:2]
            return (l.strip() + " " + " ".join(frames))[:600]
    return err.strip()[-300:]


def shrink(ctx, exe, mode, c, what):
    """ddmin over the operations (the parent line stays)"""
    checked = (mode == "checked")
    head, ops = c[0], c[1:]

    def fails(sub):
        comp = [head] + sub
        il, ml, rc, err = run_pair(exe, mode, [comp])
        il, ml = il[1:], ml[1:]
        if what == "crash":
            return len(il) < len(comp)
        if len(il) < len(comp):
            return False
        if what == "oracle":
            return oracle(comp, il, checked) is not None
        limit = []
        if oracle(comp, il, checked, limit) is not None:
            return False
        if limit:
            il, ml = il[:limit[0]], ml[:limit[0]]
        return vcheck.first_diff(il, ml) is not None
    if not ops:
        return c
    if len(ops) > 1:
        ops = vcheck.ddmin(list(ops), fails, max_tests=60)
    # then the entries of every index vector of every `ix` operation (ddmin over the entry list)
    budget = [40]
    for k, op in enumerate(ops):
        if op.split()[0] not in ("ix", "cix"):
            continue
        args = op.split()[1:]
        for j, a in enumerate(args):
            if a[:2] not in ("v:", "x:", "w:", "u:") or a.count(",") == 0:      # (f: has exactly three entries)
                continue
            pre = a[:max(a.rindex(":"), a.rfind("|")) + 1]          # `v:` / `u:EXPR:` / `v:s1.2|`

            def fails_entries(ent, k=k, j=j, pre=pre):
                if budget[0] <= 0:
                    return False
                budget[0] -= 1
                a2 = list(args)
                a2[j] = pre + ",".join(ent)
                return fails(ops[:k] + [op.split()[0] + " " + " ".join(a2)] + ops[k + 1:])
            ent = vcheck.ddmin(a[len(pre):].split(","), fails_entries, max_tests=20)
            args[j] = pre + ",".join(ent)
            ops = ops[:k] + [op.split()[0] + " " + " ".join(args)] + ops[k + 1:]
    return [head] + list(ops)


def load_corpus():
    d = os.path.join(vbuild.VERIF, "corpus", "C06")
    out = []
    if os.path.isdir(d):
        for fn in sorted(os.listdir(d)):
            if not fn.endswith(".case"):
                continue
            mode, lines = "unchecked", []
            for l in open(os.path.join(d, fn)):
                l = l.strip()
                if l.startswith("# mode"):
                    mode = l.split()[2]
                elif l and not l.startswith("#"):
                    lines.append(l)
            if lines:
                out.append((mode, lines))
    return out


def build_all():
    res, errs = {}, []

    def one(name, defs):
        try:
            # -O0: the dispatch templates instantiate thousands of small functions; optimising them (and instrumenting the
            # optimised code) costs ten times the compile time and observes nothing more
            res[name] = vbuild.build("views", DRIVERS, defines=defs, opt="-O0")
        except Exception as e:      # re-raised in the main thread
            errs.append(e)
    th = [threading.Thread(target=one, args=("unchecked", [])),
          threading.Thread(target=one, args=("checked", ["ADEPT_BOUNDS_CHECKING"]))]
    for t in th:
        t.start()
    for t in th:
        t.join()
    if errs:
        raise errs[0]
    return res


def run(ctx, replay):
    thms = [NS + t for t in vcheck.prop_theorems("AdeptProofs/Props/C06.lean", "C06_")]
    fails = vcheck.lean_gate(ctx, ["AdeptProofs.Props.C06"], thms, required=[NS + r for r in REQUIRED])
    exes = build_all()
    ctx.pending = []
    ctx.assumptions += [
        "the default build is given admissible arguments only (scalar indices and range end points in 0..n-1, non-zero "
        "stride); permute is given a permutation; direction-inconsistent ranges further apart than one stride and "
        "diag_vector offsets beyond n yield an Array with a negative dimension in both builds (modelled as Err.undefined, "
        "outside the property)",
        "Index arithmetic does not overflow and no index expression divides by zero (C++ undefined behaviour; modelled as "
        "`err undefined`, never generated); element types int (passive, FixedArray) and double (active); ranks 1..6 "
        "(Array<7,..> cannot be instantiated in the pinned tree: the enable_if of permute(i0,..) is a hard error); unary "
        "minus on an index expression does not compile in the pinned tree (UnaryOperation::value_with_len_)",
        "argument types: the compiled menus of harness/drv_views.h (plain arguments: every mixture for passive ranks 1-2, "
        "int family or end-k family per call for ranks 3-6 / active / FixedArray, rank 6 with __ in the last position only; "
        "`end` arithmetic: XSHAPES in one argument per call, passive arrays); active arrays: ranks 1..3, no "
        "integer-vector indexing; FixedArray parents: 4, 3x4, 3x3, 2x3x4, 2x3x4x5; element access (only scalar arguments): every "
        "mixture of int / end-k per position for every kind of object, one `end`-arithmetic argument per call (ranks 5-6: "
        "the other arguments then all int or all end-k); FixedArrays of rank 5-6 and ACTIVE FixedArrays (ranks 1..4) are "
        "driven through their element accessors only (rank-7 Array / FixedArray cannot be instantiated in the pinned tree)",
        "a selection without elements is an empty array with ALL extents zero (candidate repair F-76 of the two view "
        "constructors of Array, following Array::resize; the documentation does not give the extents of an empty selection); "
        "IndexedArray selections (op ix) keep per-dimension extents (IndexedArray::empty() tests every dimension); maxval "
        "of a view without elements is 0 (reduce.h: 'Return zero if any of these functions applied to an empty array'); the "
        "whole-view operations are executed on a copy of the view object (the copy constructor links) because an assignment "
        "to an EMPTY array legitimately resizes / clears that object; they are not applied to the FixedArray parent object "
        "itself nor to IndexedArray expressions (which have their own read / assign probes)",
        "integer-vector indexing: ranks 1..4, argument-type patterns of the compiled menu (drv_views_idx.h); the default "
        "build is given admissible index-vector entries only; a zero extent behind a non-zero leading extent is probed by "
        "seven fixed regression cases (finding F-47, fixed), the random streams select "
        "nothing only through the first non-scalar argument",
    ]
    if replay:
        r = json.load(open(replay))
        mode = r.get("mode", "unchecked")
        run_batch(ctx, exes[mode], mode, [r["lines"]], mode)
        report_pending(ctx, fails)
        return
    quick = ctx.tier == "quick"
    # FixedArray::T(): is it a view on this tree?  (reported with its signature where it is not; generated only where it is)
    probes = fixed_T_probes()
    impl, _, _, _ = run_pair(exes["unchecked"], "unchecked", probes)
    FIXED_T_IS_VIEW[0] = len(impl) == 1 + sum(len(c) for c in probes) and all(
        oracle(c, impl[1 + 2 * k:3 + 2 * k], False) is None for k, c in enumerate(probes))
    ctx.notes["fixedarray_T_is_a_view"] = FIXED_T_IS_VIEW[0]
    for mode in ("unchecked", "checked"):
        for c in probes:
            run_batch(ctx, exes[mode], mode, [c], ("default" if mode == "unchecked" else "bounds-checking") + "/fixedarray-T")
    depth = 4 if quick else 6
    n_valid, n_valid_chk, n_malf, n_contig = (4500, 1500, 2500, 500) if quick else (110000, 28000, 48000, 6000)
    stats = {}
    corpus = load_corpus()
    for mode, lines in corpus:
        run_batch(ctx, exes[mode], mode, [lines], mode + "/corpus")
    ctx.notes["corpus_cases"] = len(corpus)
    # is_contiguous probes first (a crash there is finding F-08 on an unrepaired tree)
    g = Gen(ctx.rng, False, False, depth, stats, contig=True)
    comps = [["parent rm 6", "contig"], ["parent rm 2 3", "contig", "T", "contig"], ["parent cm 2 3", "contig", "T", "contig"]]
    comps += [g.composition() for _ in range(n_contig)]
    run_batch(ctx, exes["unchecked"], "unchecked", comps, "default/contig")
    for mode, n, malformed in (("unchecked", n_valid, False), ("checked", n_valid_chk, False), ("checked", n_malf, True)):
        # the "valid" streams still contain the errors that both builds raise (non-square diag_vector, bad
        # submatrix_on_diagonal range, reshape size mismatch, permute dimension out of range)
        g = Gen(ctx.rng, True, True, depth, stats) if malformed else GenValid(ctx.rng, mode == "checked", depth, stats)
        comps = [g.composition() for _ in range(n)]
        label = ("default" if mode == "unchecked" else "bounds-checking") + ("/malformed" if malformed else "/valid")
        step = 4000
        for k in range(0, len(comps), step):
            run_batch(ctx, exes[mode], mode, comps[k:k + step], label)
    # nothing selected, in every position of every rank; element access in every position of every rank: both builds
    zsw = zero_extent_sweep()
    ctx.notes["zero_extent_sweep_cases"] = len(zsw)
    for mode in ("unchecked", "checked"):
        lab = "default" if mode == "unchecked" else "bounds-checking"
        run_batch(ctx, exes[mode], mode, zsw, lab + "/zero-extent-sweep")
        esw = element_sweep(mode == "checked", ctx.rng)
        ctx.notes["element_access_sweep_cases_" + mode] = len(esw)
        run_batch(ctx, exes[mode], mode, esw, lab + "/element-access-sweep")
    psw = permute_overload_sweep()
    ctx.notes["permute_overload_sweep_cases"] = len(psw)
    for mode in ("unchecked", "checked"):
        run_batch(ctx, exes[mode], mode, psw, ("default" if mode == "unchecked" else "bounds-checking") + "/permute-overload-sweep")
    sysm = systematic_malformed()
    ctx.notes["systematic_malformed_cases"] = len(sysm)
    run_batch(ctx, exes["checked"], "checked", sysm, "bounds-checking/systematic")
    # const overloads on strided / reversed / offset receivers, every rank and kind of object, both builds
    csw = const_sweep()
    ctx.notes["const_sweep_cases"] = len(csw)
    run_batch(ctx, exes["unchecked"], "unchecked", csw, "default/const-sweep")
    run_batch(ctx, exes["checked"], "checked", csw, "bounds-checking/const-sweep")
    # `end` arithmetic: every shape x role x position, and every integer-vector expression, both builds
    for mode in ("unchecked", "checked"):
        lab = "default" if mode == "unchecked" else "bounds-checking"
        rsw = rich_sweep(ctx.rng, mode == "checked", stats)
        ctx.notes["end_arithmetic_sweep_cases_" + mode] = len(rsw)
        run_batch(ctx, exes[mode], mode, rsw, lab + "/end-arithmetic-sweep")
        vsw = vexpr_sweep(ctx.rng, mode == "checked", stats)
        ctx.notes["vector_expression_sweep_cases_" + mode] = len(vsw)
        run_batch(ctx, exes[mode], mode, vsw, lab + "/vector-expression-sweep")
        isw = index_view_sweep(ctx.rng, mode == "checked", stats)
        ctx.notes["index_vector_view_sweep_cases_" + mode] = len(isw)
        run_batch(ctx, exes[mode], mode, isw, lab + "/index-vector-view-sweep")
    sweep = menu_sweep()
    ctx.notes["indexed_menu_patterns"] = len(sweep)
    run_batch(ctx, exes["unchecked"], "unchecked", sweep, "default/indexed-menu")
    run_batch(ctx, exes["checked"], "checked", sweep, "bounds-checking/indexed-menu")
    sysx = systematic_malformed_ix()
    ctx.notes["systematic_malformed_indexed_cases"] = len(sysx)
    run_batch(ctx, exes["checked"], "checked", sysx, "bounds-checking/systematic-indexed")
    # zero extent behind a non-zero leading extent: one process per probe (the pinned tree may stop in it)
    for mode in ("unchecked", "checked"):
        for c in empty_extent_probes():
            run_batch(ctx, exes[mode], mode, [c], ("default" if mode == "unchecked" else "bounds-checking") + "/indexed-empty-extent")
    ctx.notes["distribution"] = dict(sorted(stats.items()))
    ctx.cov["rule"] = ("compositions = parent (passive Array<r,int> r = 1..6 73%%, active Array<r,double,true> r = 1..3 9%%, "
                       "FixedArray 9%%, element-only FixedArray rank 4..6 4.5%%, element-only ACTIVE FixedArray rank 1..4 4.5%%; row- or "
                       "column-major, volume <= 240 (element-only rank 6: 720)) followed by 1..%d view-forming "
                       "operations drawn from slice(int/end-k/range/stride(+/-)/__), subset, operator[], T, permute, diag_vector, "
                       "submatrix_on_diagonal, reshape, soft_link, and (passive ranks 1..4) integer-vector indexing A(S0,..) with "
                       "scalar/end-k/range/__/intVector/integer-expression selectors read and assigned through; "
                       "every range / stride argument selects NOTHING with probability 0.09 (empty range r:k+1,k or empty stride of "
                       "either sign: zero extent in whatever position; the composition continues on the empty view), an operator() "
                       "call is an element access (only scalars, int / end-k per position, with probability 1/2 one of them as `end` arithmetic) "
                       "with probability 0.07 (always on the element-only objects); permute goes through permute(ExpressionSize) / "
                       "permute(i0,i1,..) with probability 0.4; after every "
                       "operation the view is exercised through the whole-view operations V = c, V += c, B = V, V = B*2+3, move "
                       "assignment, sum, maxval, where, count/find; "
                       "every operation "
                       "that has a const overload goes through it with probability 1/2; with probability 0.3 one argument of an "
                       "eligible call (passive arrays) is rewritten as `end` arithmetic of a random compiled shape with the same "
                       "value, and with probability 0.45 one index vector (ranks 1-3) as an integer-vector expression; every intVector of "
                       "an `ix` selector is with probability 1/2 a VIEW (65%% strided 2/3, reversed -1/-2/-3 or offset part of a "
                       "larger intVector, 25%% column, 10%% row of an intMatrix) and a three-entry intVector with probability 0.3 a "
                       "FixedArray<int,false,3>; "
                       "%d admissible compositions on the default build, %d on the "
                       "bounds-checked build, %d with out-of-range values injected per argument position on the bounds-checked "
                       "build, %d with is_contiguous() probed after every step; plus the directed sweeps (const overloads on "
                       "strided/reversed/offset receivers for every rank and kind of object; zero-extent selector x rank 1..6 x position x "
                       "neighbour kind x kind of object; element access x class (Array passive/active, FixedArray passive/active) x rank x position x "
                       "int/end-k/every compiled `end`-arithmetic shape x value (bounds-checked build: also n and -1) x const; the three "
                       "permute overloads x rank x class; every `end`-arithmetic shape x role x "
                       "position; every integer-vector expression x partner; every index-vector layout x pattern x position for ranks 1..4; counts in the notes); non-trivial = at least two "
                       "operations; distinct = different (mode, op list)" % (depth, n_valid, n_valid_chk, n_malf, n_contig))
    ctx.cov["exhaustive"] = False
    report_pending(ctx, fails)


class GenValid(Gen):
    """admissible index values; still produces the errors both builds raise (non-square diag, bad permute/reshape/submatrix)"""
    def __init__(self, rng, checked, depth, stats):
        Gen.__init__(self, rng, checked, True, depth, stats, pbad=0.1)

    def op(self, v, okind="P"):
        # index values stay admissible: the malformed branch of slice/subset/idx is only taken for checked+malformed
        saved = self.checked
        self.checked = False
        try:
            return Gen.op(self, v, okind)
        finally:
            self.checked = saved


def report_pending(ctx, fails):
    if ctx.violations:
        return
    for p in ctx.pending[:1]:
        ctx.violation("model and implementation disagree on a view composition (%s build, first differing line %s: impl %r / "
                      "model %r); the element-wise oracle found no composition on which the property itself fails"
                      % (p["build"], p["first_difference"],
                         (p["impl"][p["first_difference"]][:120] if p["first_difference"] is not None and p["first_difference"] < len(p["impl"]) else None),
                         (p["model"][p["first_difference"]][:120] if p["first_difference"] is not None and p["first_difference"] < len(p["model"]) else None)),
                      p, tag="c", no_input=True)
    if fails and not ctx.violations:
        ctx.violation("proof obligation of C06 no longer checks: " + fails[0][:400],
                      {"kind": "proof", "theorem": "AdeptProofs/Props/C06.lean", "failures": fails}, tag="p", no_input=True)
