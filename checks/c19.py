"""C19 — each algorithm finds the box-constrained minimum of a convex quadratic (soundness proved, convergence explored).

proof:  lean/AdeptProofs/Props/C19.lean: kkt_unique (SPD H + box => at most one point satisfies the first-order
        conditions), converged_is_kkt (from C18's converged_means + flags_truthful), no_false_capture (the flagged
        variable is the argmin of the collision fractions; nearest-bound loop likewise).
explored (NOT proved; evidence level "other"): that every algorithm converges within 50*n iterations on strictly
        convex quadratics with condition number <= 1e4 -- random SPD Hessians (prescribed spectrum, random orthogonal
        basis by Householder reflections), all linear terms, boxes whose faces contain the solution, the start, or
        neither, dimensions 1..10, five algorithms.
oracle: THE KKT point: a working set guessed by a floating-point active-set method and CERTIFIED in exact rational
        arithmetic on the doubles handed to the implementation (all 3^n working sets enumerated for n < 7 or when the
        guess does not certify); status must be 'converged' within 50*n iterations and ||x - x*|| <= tol/lambda_min.
        The logged capture decisions (hook H4) are judged directly: the captured variable must be the first to
        reach its bound.
rates:  the open findings F-65/F-66/F-67/F-68 are instance classes on which the property is false; the check also bounds
        their observed RATE (a bad edit that merely makes them more frequent is a violation).
"""
import os, json, collections
import vbuild, vcheck
import mincommon as mc

LEVEL = "other"
NS = "Adept.Minimizer."
REQUIRED = ["C19_kkt_unique", "C19_no_false_capture", "C19_no_false_capture_ls", "C19_converged_is_kkt"]
# observed on the repaired tree over 6000 instances: F-65 6.5% of the Levenberg-family cases, F-67 1.0%, F-66 0.06% of
# the first-order cases, F-68 0.03%; the gates sit at roughly twice / five times those rates (plus slack for small samples)
RATE_LIMIT = {"lm-converged-at-non-kkt-point-held-at-bound": 0.13, "lm-stuck-free-variable-on-face": 0.035,
              "first-order-budget-exhausted": 0.012, "line-search-stalled-next-to-face": 0.004}
RATE_OF = {"lm-converged-at-non-kkt-point-held-at-bound": mc.SECOND_ORDER, "lm-stuck-free-variable-on-face": mc.SECOND_ORDER,
           "first-order-budget-exhausted": mc.FIRST_ORDER, "line-search-stalled-next-to-face": mc.FIRST_ORDER}


def corner_rush(rng, algo):
    """directed class (finding F-18): diagonal SPD Hessian, centre far beyond the upper (or lower) corner, start inside:
    the first Newton / steepest-descent step reaches several faces at once"""
    n = rng.choice([2, 3, 3, 4, 5])
    lam = [rng.uniform(0.5, 4.0) for _ in range(n)]
    side = rng.choice([-1.0, 1.0])
    lo = [rng.uniform(-1, 0) for _ in range(n)]
    up = [l + rng.uniform(0.5, 2.5) for l in lo]
    cen = [(up[i] + rng.uniform(2, 9)) if side > 0 else (lo[i] - rng.uniform(2, 9)) for i in range(n)]
    # one variable whose unconstrained optimum is interior, so that the solution is not simply the corner
    k = rng.randrange(n)
    cen[k] = lo[k] + rng.uniform(0.2, 0.8) * (up[k] - lo[k])
    x0 = [lo[i] + rng.uniform(0.1, 0.9) * (up[i] - lo[i]) for i in range(n)]
    H = [[lam[i] if i == j else 0.0 for j in range(n)] for i in range(n)]
    return {"algo": algo, "n": n, "exact": False, "f": "quadd", "h": lam, "Hrows": H, "lmin": min(lam), "lmax": max(lam),
            "c": cen, "bounded": True, "lo": lo, "up": up, "x0": x0, "tol": 1e-6, "maxit": 50 * n, "maxcb": 200000, "cls": "corner-rush"}


def corner_tie(rng, algo):
    """directed class: FOUR variables with the same Hessian entry, box, start and centre (beyond the corner along the
    diagonal), optionally a fifth that starts at its interior optimum.  The gradient is (g,g,g,g[,0]), its norm 2|g| is
    exact, every number is dyadic, so the first step lands all four variables EXACTLY on their faces in the same step (an
    exact tie in binary64, no rounding): only one of them is flagged, the others are free variables lying on a face with
    the direction pointing outwards, i.e. a bound step of length exactly 0.  First-order algorithms only (the Levenberg
    family has the open finding F-67 on this situation)."""
    side = rng.choice([-1.0, 1.0])
    h = rng.choice([0.5, 1.0, 2.0])
    lo0, up0 = rng.choice([(0.0, 4.0), (-2.0, 2.0), (1.0, 5.0)])
    s0 = lo0 + rng.choice([1.0, 2.0, 1.5, 3.0])
    far = rng.choice([4.0, 6.0, 8.0])
    fifth = rng.random() < 0.6
    n = 5 if fifth else 4
    lam, lo, up, cen, x0 = [], [], [], [], []
    for i in range(4):
        lam.append(h); lo.append(lo0); up.append(up0)
        cen.append(up0 + far if side > 0 else lo0 - far); x0.append(s0)
    if fifth:
        c5 = lo0 + rng.choice([1.0, 1.5, 2.5])
        lam.append(h); lo.append(lo0); up.append(up0); cen.append(c5); x0.append(c5)
    H = [[lam[i] if i == j else 0.0 for j in range(n)] for i in range(n)]
    return {"algo": algo, "n": n, "exact": False, "f": "quadd", "h": lam, "Hrows": H, "lmin": min(lam), "lmax": max(lam),
            "c": cen, "bounded": True, "lo": lo, "up": up, "x0": x0, "tol": 1e-6, "maxit": 50 * n, "maxcb": 200000, "cls": "corner-rush"}


def run(ctx, replay):
    thms = [NS + t for t in vcheck.prop_theorems("AdeptProofs/Props/C19.lean", "C19_")]
    fails = vcheck.lean_gate(ctx, ["AdeptProofs.Props.C19"], thms, required=[NS + r for r in REQUIRED])
    exe = mc.build()
    hooked = mc.has_h4()
    ctx.notes["hook_H4_present"] = hooked
    ctx.notes["proved"] = "kkt_unique, converged_is_kkt, no_false_capture (Lean)"
    ctx.notes["explored_not_proved"] = "convergence within 50*n iterations to the certified KKT point (sampling)"
    if replay:
        r0 = json.load(open(replay))
        c = r0.get("case")
        if c is None:
            print("replay file carries no case (no-failing-input-found): " + str(r0.get("what"))[:2000])
            return
        r, err = mc.run_cases(exe, [dict(c, log=1)])[0]
        print(mc.case_line(c))
        print("result:", None if r is None else {k: v for k, v in r.items() if k not in ("raw", "log", "trace")})
        for sig, msg in mc.oracle_c19(c, r, err) + (mc.oracle_log(c, r) if r else []):
            print("ORACLE %s: %s" % (sig, msg))
            ctx.violation(msg, {"kind": "oracle", "case": c, "signature": sig, "case_line": mc.case_line(c)})
        return
    n_rand, n_dir = (2500, 500) if ctx.tier == "quick" else (14000, 2800)
    cases = [dict(mc.gen_c19(ctx.rng), log=1) for _ in range(n_rand)]
    cases += [dict(corner_rush(ctx.rng, ctx.rng.choice(mc.ALGOS)), log=1) for _ in range(n_dir)]
    first_order = [a for a in mc.ALGOS if not a.startswith("Levenberg")]
    cases += [dict(corner_tie(ctx.rng, ctx.rng.choice(first_order)), log=1) for _ in range(n_dir // 2)]
    res = mc.run_cases(exe, cases)
    sig_count = collections.Counter()
    per_algo = collections.Counter()
    status_count = collections.Counter()
    first = {}
    iters = collections.defaultdict(list)
    model_in, owner = [], []
    for k, (c, (r, err)) in enumerate(zip(cases, res)):
        bad = mc.oracle_c19(c, r, err)
        if r is not None:
            bad += mc.oracle_log(c, r)
            status_count["%s/%s" % (c["algo"], mc.ST.get(r["status"], r["status"]))] += 1
            if r["status"] == 0:
                iters[c["algo"]].append(r["nit"] / float(c["n"]))
        per_algo[c["algo"]] += 1
        ctx.count_case((c["algo"], c["n"], tuple(c["x0"]), tuple(c["c"])), nontrivial=c["n"] > 1,
                       sample={"algo": c["algo"], "n": c["n"], "cond": round(c["lmax"] / c["lmin"], 1), "bounded": c["bounded"],
                               "status": None if r is None else r["status"], "nit": None if r is None else r.get("nit")} if k % 170 == 0 else None)
        for s, msg in bad:
            if c.get("cls") == "corner-rush" and s in RATE_LIMIT:
                # the directed class tolerates no convergence failure (regression class of F-18): report under a distinct signature
                s = "corner-rush/" + s
            sig_count[s] += 1
            if s not in first or c["n"] < first[s][0]["n"]:
                first[s] = (c, msg, r)
        if r is not None and hooked:
            for l in mc.model_lines(r["log"]):
                if l.split(" ", 1)[0] in ("CAP", "NB", "RELCG", "RELLM", "CONV", "PROJ"):
                    model_in.append(l); owner.append(k)
    for s, (c, msg, r) in sorted(first.items()):
        ctx.violation("%s [%s, n=%d, %d case(s)]" % (msg, c["algo"], c["n"], sig_count[s]),
                      {"kind": "oracle", "signature": s, "case": {k: v for k, v in c.items()}, "case_line": mc.case_line(c), "count": sig_count[s]})
    # ---- rate gates on the open findings
    rates = {}
    for s, lim in RATE_LIMIT.items():
        tot = sum(per_algo[a] for a in RATE_OF[s])
        rate = sig_count[s] / float(tot) if tot else 0.0
        rates[s] = round(rate, 4)
        slack = 3.0 / max(tot, 1) ** 0.5 * (lim * (1 - lim)) ** 0.5      # three standard deviations of the sample rate
        if rate > lim + slack and s in first:
            c, msg, r = first[s]
            ctx.violation("the recorded finding class '%s' occurs on %.1f%% of the instances, far above the recorded rate (limit %.1f%%): "
                          "convergence has degraded.  Example: %s" % (s, 100 * rate, 100 * lim, msg),
                          {"kind": "oracle-rate", "signature": "rate/" + s, "case": {k: v for k, v in c.items()}, "case_line": mc.case_line(c),
                           "rate": rate, "limit": lim}, tag="r")
    diffs = []
    tagcount = collections.Counter()
    if hooked and model_in:
        out = vcheck.run_model("minimizer", "\n".join(model_in) + "\n")
        for l, o, k in zip(model_in, out, owner):
            tagcount["%s:%s" % (l.split(" ", 1)[0], o.split(" ", 1)[0])] += 1
            if o.startswith("diff") or o == "bad-op":
                diffs.append((o, l, k))
        ctx.cov["traces_validated_against_impl"] += len({k for k in owner})
        ctx.cov["disagreements_checked"] += len(diffs)
    ctx.notes["decisions_revalidated"] = dict(tagcount)
    ctx.notes["status_distribution"] = dict(status_count)
    ctx.notes["signature_counts"] = dict(sig_count)
    ctx.notes["finding_rates"] = rates
    ctx.notes["iterations_per_dimension_when_converged"] = {a: {"median": sorted(v)[len(v) // 2], "max": max(v)} for a, v in iters.items() if v}
    ctx.cov["rule"] = ("%d random strictly convex quadratics (condition number 1..1e4 log-uniform, prescribed spectrum in a random orthogonal basis "
                       "or diagonal; box modes: around the centre / cutting / solution exactly on faces / far; 10%% one-sided components; 15%% unbounded "
                       "runs; start inside / outside / on faces / corner; tolerance 1e-3..1e-7 but never below what a cost-decrease test resolves in "
                       "binary64) + %d 'corner-rush' instances (several faces reached by the first step), dimensions 1..10, algorithm uniform over the "
                       "five.  non-trivial: n > 1; distinct: different (algorithm, n, start, centre)" % (n_rand, n_dir))
    ctx.assumptions += ["exploration, not proof: convergence within the budget is sampled; evidence level 'other'",
                        "exact gradient and Hessian supplied by the harness; condition number <= 1e4; tolerance >= sqrt(2 lambda_max 1024 ulp(f(start)))",
                        "distance bound tol/lambda_min widened by 64 n ulp(scale) cond for the float-regime position of the faces"]
    if diffs and not ctx.violations:
        o, l, k = diffs[0]
        ctx.violation("model and implementation disagree on a logged decision (%s); the KKT oracle found no failing input" % o,
                      {"kind": "correspondence", "correspondence": "AdeptModel/MinimizerLogic.lean <-> hook H4 decision log", "decision": l, "model": o,
                       "case": {kk: v for kk, v in cases[k].items()}, "case_line": mc.case_line(cases[k]), "n_disagreements": len(diffs)},
                      tag="c", no_input=True)
    if fails and not ctx.violations:
        ctx.violation("proof obligation of C19 no longer checks: " + fails[0][:400],
                      {"kind": "proof", "theorem": "AdeptProofs/Props/C19.lean", "failures": fails}, tag="p", no_input=True)
