"""C08 — every live active object owns a distinct gradient slot, in any order.

proof:  lean/AdeptProofs/Props/C08.lean (invariant of the allocator model for all histories)
tie:    hand-written model AdeptModel/GradAlloc.lean  <->  Stack::register/unregister_gradient(s)
        run on the same histories through the public API and through real adouble / aVector /
        active FixedArray objects; every observable (returned index, i_gradient, max_gradients,
        n_gradients_registered, gap list, cursor position) compared exactly after every step.
        object layer AdeptModel/GradObj.lean (Active, Storage reference counting, Array/SpecialMatrix copy/link/view/resize/clear/
        assign/swap, FixedArray, std::vector<adouble>, adouble[], objects constructed from / assigned nested std::initializer_lists
        (active and inactive Array and FixedArray, ranks 1..6), EMPTY views, link to a temporary view) <-> the real objects: after EVERY step the allocator observables
        plus, per live object, its gradient indices / (gradient_index, slots spanned, storage block, link count).
oracle: bitmap of live slots computed from the implementation's own output (owners = scalars, fixed arrays, vector elements,
        storages; views must lie inside their storage; link counts must equal the number of live referents; objects an operation
        does not name keep their slots).
"""
import os, itertools
import vbuild, vcheck

LEVEL = "proof"
REQUIRED = ["C08_inv_init", "C08_inv_step", "C08_inv_reachable", "C08_fresh_disjoint", "C08_fresh_disjoint1",
            "C08_live_distinct_below", "C08_recycled_never_shared", "C08_gaps_canonical", "C08_cursor_irrelevant",
            "C08_obj_history_legal", "C08_obj_prim_history_legal", "C08_obj_owners_disjoint", "C08_obj_views_within_owner",
            "C08_obj_storage_live_iff_linked", "C08_obj_alloc_fault_registers_nothing",
            "C08_obj_list_fixed_registers_length", "C08_obj_list_array_registers_volume", "C08_obj_list_assign_registers_nothing"]
NS = "Adept.GradAlloc."


# ------------------------------------------------------------------ generators
def exhaustive(L, sizes=(1, 2, 3)):
    """all maximal histories of length L: alloc scalar / alloc block of each size / free any live handle"""
    out = []

    def rec(hist, live, nxt):
        if len(hist) == L:
            out.append(list(hist))
            return
        hist.append("a1 %d" % nxt); live.append(nxt); rec(hist, live, nxt + 1); live.pop(); hist.pop()
        for n in sizes:
            hist.append("av %d %d" % (nxt, n)); live.append(nxt); rec(hist, live, nxt + 1); live.pop(); hist.pop()
        for i, k in enumerate(list(live)):
            hist.append("d %d" % k); live.pop(i); rec(hist, live, nxt); live.insert(i, k); hist.pop()

    rec([], [], 0)
    return out


def exhaustive_faults(L):
    """all maximal histories of length L over: scalar, block of 2, free, resize of a block (to 1 / 3: shrink, grow), and the
    two allocation-fault steps (a block whose data allocation fails; a resize whose data allocation fails)"""
    out = []

    def rec(hist, live, vec, nxt):
        if len(hist) == L:
            if any(o.split()[0] in ("rs", "rsx", "avx") for o in hist):
                out.append(list(hist))
            return
        hist.append("a1 %d" % nxt); rec(hist, live + [nxt], vec, nxt + 1); hist.pop()
        hist.append("av %d 2" % nxt); rec(hist, live + [nxt], vec + [nxt], nxt + 1); hist.pop()
        hist.append("avx %d 2" % nxt); rec(hist, live, vec, nxt + 1); hist.pop()
        for k in live:
            hist.append("d %d" % k); rec(hist, [x for x in live if x != k], [x for x in vec if x != k], nxt); hist.pop()
        for k in vec:
            for n in (1, 3):
                hist.append("rs %d %d" % (k, n)); rec(hist, live, vec, nxt); hist.pop()
            hist.append("rsx %d 3" % k); rec(hist, [x for x in live if x != k], [x for x in vec if x != k], nxt); hist.pop()

    rec([], [], [], 0)
    return out


def random_history(rng, length, pauses=False):
    """biased towards the rare branches: frees in the middle, re-use of exact-fit and partial-fit gaps"""
    hist, live, nxt = [], [], 0
    vec = set()      # live handles made by `av` (real aVector objects in obj mode): the ones that can be resized
    target = rng.choice([3, 6, 12, 25])
    paused = False
    for _ in range(length):
        r = rng.random()
        if rng.random() < 0.06:
            # resize of a live block (release, then registration under the same handle), allocation faults
            q = rng.random()
            if q < 0.3 or not vec:
                hist.append("avx %d %d" % (nxt, rng.choice([1, 2, 3, 5, 40]))); nxt += 1
            elif q < 0.8:
                hist.append("rs %d %d" % (rng.choice(sorted(vec)), rng.choice([1, 1, 2, 3, 4, 5, 7, 9])))
            else:
                k = rng.choice(sorted(vec))
                hist.append("rsx %d %d" % (k, rng.choice([1, 2, 3, 5, 40])))
                vec.discard(k); live.remove(k)
            continue
        if pauses and rng.random() < 0.05:
            paused = not paused
            hist.append("pause" if paused else "cont")
            continue
        if live and (len(live) > target or r < 0.42):
            # free: mostly not the newest
            if rng.random() < 0.2:
                i = len(live) - 1
            else:
                i = rng.randrange(len(live))
            vec.discard(live[i])
            hist.append("d %d" % live.pop(i))
        elif r > 0.97:
            hist.append("nr")
        else:
            k = rng.random()
            if k < 0.4:
                hist.append("a1 %d" % nxt)
            elif k < 0.8:
                hist.append("av %d %d" % (nxt, rng.choice([1, 1, 2, 2, 3, 4, 5, 7]))); vec.add(nxt)
            else:
                hist.append("af %d %d" % (nxt, rng.randint(1, 4)))
            live.append(nxt); nxt += 1
    return hist


def valid_sub(hist):
    """drop frees whose allocation is gone (used by the shrinker)"""
    live, vec, out = set(), set(), []
    for op in hist:
        w = op.split()
        if w[0] in ("a1", "av", "af"):
            live.add(w[1]); out.append(op)
            if w[0] == "av":
                vec.add(w[1])
            else:
                vec.discard(w[1])
        elif w[0] == "d":
            if w[1] in live:
                live.discard(w[1]); vec.discard(w[1]); out.append(op)
        elif w[0] in ("rs", "rsx"):
            if w[1] in vec:
                out.append(op)
                if w[0] == "rsx":
                    live.discard(w[1]); vec.discard(w[1])
        else:
            out.append(op)
    return out


# ------------------------------------------------------------------ oracle
def parse_obs(line):
    # "<ret> ig=.. mg=.. nr=.. gaps=[..] cur=.."
    try:
        w = line.split()
        d = {"ret": None if w[0] == "-" else int(w[0])}
        for t in w[1:]:
            k, v = t.split("=", 1)
            d[k] = v
        d["ig"], d["mg"], d["nr"] = int(d["ig"]), int(d["mg"]), int(d["nr"])
        return d
    except Exception:
        return None


def oracle(hist, lines):
    """judge the property from the implementation's output alone; returns (index, message) or None"""
    live = {}   # handle -> (idx, n)
    owner = {}  # slot -> handle
    for i, (op, line) in enumerate(zip(hist, lines)):
        w = op.split()
        d = parse_obs(line)
        if d is None:
            return i, "unparsable observation %r" % line
        if w[0] in ("a1", "av", "af"):
            n = 1 if w[0] == "a1" else int(w[2])
            idx = d["ret"]
            if idx is None or idx < 0:
                return i, "registration returned no valid index"
            for j in range(idx, idx + n):
                if j in owner:
                    return i, "slot %d handed to handle %s while still owned by live handle %s" % (j, w[1], owner[j])
            for j in range(idx, idx + n):
                owner[j] = w[1]
            live[w[1]] = (idx, n)
        elif w[0] in ("pause", "cont", "nr", "avx"):
            pass        # avx: the data allocation failed, no object came to exist, nothing may stay registered
        elif w[0] in ("d", "rsx"):
            idx, n = live.pop(w[1])
            for j in range(idx, idx + n):
                del owner[j]
        elif w[0] == "rs":
            idx, n = live.pop(w[1])
            for j in range(idx, idx + n):
                del owner[j]
            n = int(w[2])
            idx = d["ret"]
            if idx is None or idx < 0:
                return i, "registration returned no valid index"
            for j in range(idx, idx + n):
                if j in owner:
                    return i, "slot %d handed to resized handle %s while still owned by live handle %s" % (j, w[1], owner[j])
            for j in range(idx, idx + n):
                owner[j] = w[1]
            live[w[1]] = (idx, n)
        if owner and max(owner) >= d["mg"]:
            return i, "live slot %d is not below max_gradients()=%d" % (max(owner), d["mg"])
        if d["nr"] != len(owner):
            return i, "n_gradients_registered()=%d but %d active elements are live" % (d["nr"], len(owner))
    return None


# ------------------------------------------------------------------ object layer: generators
# The generator keeps just enough knowledge of the objects (type, dimensions) to propose applicable operations; an operation that
# turns out not to be applicable prints bad-op on both sides and changes nothing.
KINDS = (1, 2, 3, 10, 11, 14, 15)      # aVector, aMatrix, aArray3D, aSquareMatrix, aSymmMatrix, aTridiagMatrix, aDiagMatrix


def nargs(kind):
    return kind if kind < 10 else 1


def rand_dims(rng, kind, P):
    if kind >= 10:
        return [rng.choice([1, 2, 3, 4])]
    if kind == 1:
        return [rng.choice([1, 1, 2, 3, 4, 5, 7])]
    if kind == 2:      # rows of at least two packets are padded to a multiple of the packet size
        return [rng.choice([1, 2, 3]), rng.choice([1, 2, 3, 2 * P, 2 * P + 1])]
    if 4 <= kind <= 6:  # arrays of rank 4..6 come from initializer lists (`il`); resized to small shapes, sometimes with a padded last extent
        return [rng.choice([1, 1, 2]) for _ in range(kind - 1)] + [rng.choice([1, 2, 2 * P + 1])]
    return [rng.choice([1, 2]), rng.choice([1, 2, 3]), rng.choice([1, 2, 2 * P + 1])]


def rand_spec(rng, dims):
    """one index per dimension, at least one of them a range; non-empty, in range"""
    n = len(dims)
    keep = rng.randrange(n)
    out, newdims = [], []
    for i, d in enumerate(dims):
        if i != keep and rng.random() < 0.5:
            out.append("f%d" % rng.randrange(d))
        else:
            lo = rng.randrange(d); hi = rng.randrange(lo, d); st = rng.choice([1, 1, 1, 2, 3])
            out.append("r%d:%d:%d" % (lo, hi, st)); newdims.append((hi - lo) // st + 1)
    return out, newdims


LIST_SHAPE = {1: [3], 2: [2, 3], 3: [2, 1, 2], 4: [1, 2, 1, 2], 5: [2, 1, 1, 2, 1], 6: [1, 1, 2, 1, 1, 2]}   # = LIST_SHAPES of the harness
LIST_RANKS = (1, 2, 3, 4, 5, 6)      # rank 7: Array<7> / 7-dimensional FixedArray do not compile in the pinned tree (see DESIGN / harness)


def empty_range(rng, d):
    """an EMPTY selection r<lo>:<hi>:<st> of a dimension of length d >= 2: 0 <= hi < lo < d and lo < hi + 2*st"""
    lo = rng.randrange(1, d)
    st = rng.choice([1, 1, 2, 3])
    hi = rng.randrange(max(0, lo - 2 * st + 1), lo)
    return "r%d:%d:%d" % (lo, hi, st)


def rand_spec_empty(rng, dims):
    """one index per dimension; at least one of them an empty range (needs a dimension of length >= 2); returns (spec, rank) or None"""
    big = [i for i, d in enumerate(dims) if d >= 2]
    if not big:
        return None
    e = rng.choice(big)
    out, nr = [], 0
    for i, d in enumerate(dims):
        if i == e or (d >= 2 and rng.random() < 0.2):
            out.append(empty_range(rng, d)); nr += 1
        elif rng.random() < 0.5:
            out.append("f%d" % rng.randrange(d))
        else:
            lo = rng.randrange(d); hi = rng.randrange(lo, d); st = rng.choice([1, 1, 2])
            out.append("r%d:%d:%d" % (lo, hi, st)); nr += 1
    return out, nr


class Gen:
    def __init__(self):
        self.nxt = 0
        self.scal, self.fixed, self.blks = [], [], []
        self.lst = []        # objects made by `il` that are not active Arrays (inactive Array/FixedArray, active FixedArray)
        self.vecs = {}       # handle -> length
        self.arrs = {}       # handle -> [kind, dims or None]

    def fresh(self):
        self.nxt += 1
        return self.nxt - 1

    def live(self):
        return self.scal + self.fixed + self.blks + self.lst + list(self.vecs) + list(self.arrs)

    def drop(self, k):
        for l in (self.scal, self.fixed, self.blks, self.lst):
            if k in l:
                l.remove(k)
        self.vecs.pop(k, None); self.arrs.pop(k, None)


def random_obj_history(rng, length, P, pauses=False):
    g = Gen()
    hist = []
    target = rng.choice([4, 8, 14, 24])
    paused = False
    while len(hist) < length:
        live = g.live()
        arrs = sorted(g.arrs)
        nonempty = [k for k in arrs if g.arrs[k][1] is not None]
        if pauses and rng.random() < 0.04:
            paused = not paused
            hist.append("pause" if paused else "cont")
            continue
        r = rng.random()
        if live and (len(live) > target or r < 0.22):
            # destruction, mostly not of the newest object
            k = live[-1] if rng.random() < 0.15 else rng.choice(live)
            hist.append("d %d" % k); g.drop(k)
            continue
        c = rng.choices(["scal", "fixed", "vn", "vp", "vo", "ve", "bn", "am", "amx", "cp", "sl", "ln", "cl", "rz", "rzx", "as", "alias", "sa",
                         "sw", "nr", "il", "al", "sle", "lt"],
                        [10, 3, 1.5, 6, 1, 1, 1.5, 8, 1.5, 5, 6, 4, 2, 3, 1, 3, 1.5, 1.5, 1, 0.7, 4, 2, 3, 2.5])[0]
        if c == "il":
            # an object constructed from a nested initializer list: every class x every rank x full / ragged
            k = g.fresh(); cls = rng.randrange(4); r = rng.choice(LIST_RANKS)
            hist.append("il %d %d %d %d" % (k, cls, r, rng.randrange(2)))
            if cls == 0:
                g.arrs[k] = [r, list(LIST_SHAPE[r])]
            else:
                g.lst.append(k)
            continue
        if c == "al":
            # assignment from an initializer list: to a list-made object, to an EMPTY array (it is resized), to an array of the list's shape
            cand = list(g.lst) + [k for k in arrs if g.arrs[k][0] in LIST_SHAPE and (g.arrs[k][1] is None or g.arrs[k][1] == LIST_SHAPE[g.arrs[k][0]])]
            if cand:
                k = rng.choice(cand); hist.append("al %d %d" % (k, rng.randrange(2)))
                if k in g.arrs:
                    g.arrs[k] = [g.arrs[k][0], list(LIST_SHAPE[g.arrs[k][0]])]
            continue
        if c == "sle":
            # an EMPTY view (zero extent in some position) of a live array
            cand = [k for k in nonempty if g.arrs[k][0] < 4]
            if cand:
                s = rng.choice(cand); sp = rand_spec_empty(rng, g.arrs[s][1])
                if sp:
                    k = g.fresh(); hist.append("sl %d %d %s" % (k, s, " ".join(sp[0]))); g.arrs[k] = [sp[1], None, "view"]
            continue
        if c == "lt":
            # link to a TEMPORARY view (operator>>=(Array&&)); sometimes an empty one
            cand = [k for k in nonempty if g.arrs[k][0] < 4]
            if cand:
                s = rng.choice(cand)
                if rng.random() < 0.25:
                    sp = rand_spec_empty(rng, g.arrs[s][1]); nd = None
                    if not sp:
                        continue
                    spec, nr = sp
                else:
                    spec, nd = rand_spec(rng, g.arrs[s][1]); nr = len(nd)
                dst = [k for k in arrs if k != s and g.arrs[k][0] == nr]
                if dst:
                    k = rng.choice(dst); hist.append("lt %d %d %s" % (k, s, " ".join(spec))); g.arrs[k] = [nr, nd, "view"]
            continue
        if c == "scal":
            k = g.fresh()
            q = rng.random()
            if q < 0.3 or not g.scal:
                hist.append(rng.choice(["a1 %d", "ap %d"]) % k)
            elif q < 0.5:
                hist.append("ac %d %d" % (k, rng.choice(g.scal)))
            elif q < 0.75:
                hist.append("ae %d %d %d" % (k, rng.choice(g.scal), rng.choice(g.scal)))
            else:
                hist.append("at %d %d %d" % (k, rng.choice(g.scal), rng.choice(g.scal)))
            g.scal.append(k)
        elif c == "fixed":
            k = g.fresh(); hist.append("af %d %d" % (k, rng.randint(1, 4))); g.fixed.append(k)
        elif c == "vn":
            if len(g.vecs) < 2:
                k = g.fresh(); hist.append("vn %d" % k); g.vecs[k] = 0
        elif c == "vp" and g.vecs:
            k = rng.choice(sorted(g.vecs))
            if g.vecs[k] < 9:
                hist.append("vp %d" % k); g.vecs[k] += 1
        elif c == "vo" and g.vecs:
            k = rng.choice(sorted(g.vecs))
            if g.vecs[k] > 0:
                hist.append("vo %d" % k); g.vecs[k] -= 1
        elif c == "ve" and g.vecs:
            k = rng.choice(sorted(g.vecs))
            if g.vecs[k] > 0:
                hist.append("ve %d %d" % (k, rng.randrange(g.vecs[k]))); g.vecs[k] -= 1
        elif c == "bn":
            k = g.fresh(); hist.append("bn %d %d" % (k, rng.choice([1, 2, 3, 5]))); g.blks.append(k)
        elif c == "am":
            k = g.fresh(); kind = rng.choice(KINDS); d = rand_dims(rng, kind, P)
            if rng.random() < 0.06:
                d[rng.randrange(len(d))] = 0
            hist.append("am %d %d %s" % (k, kind, " ".join(map(str, d))))
            g.arrs[k] = [kind, None if 0 in d else d]
        elif c == "amx":
            k = g.fresh(); kind = rng.choice(KINDS); d = rand_dims(rng, kind, P)
            hist.append("amx %d %d %s" % (k, kind, " ".join(map(str, d))))
        elif c == "cp" and arrs:
            k = g.fresh(); s = rng.choice(arrs)
            hist.append("cp %d %d" % (k, s)); g.arrs[k] = list(g.arrs[s])
        elif c == "sl":
            cand = [k for k in nonempty if g.arrs[k][0] < 4]
            if cand:
                s = rng.choice(cand); k = g.fresh()
                spec, nd = rand_spec(rng, g.arrs[s][1])
                hist.append("sl %d %d %s" % (k, s, " ".join(spec))); g.arrs[k] = [len(nd), nd]
        elif c == "ln" and len(arrs) >= 2:
            k = rng.choice(arrs)
            cand = [s for s in arrs if s != k and g.arrs[s][0] == g.arrs[k][0]]
            if cand:
                s = rng.choice(cand)
                hist.append("ln %d %d" % (k, s))
                if g.arrs[s][1] is not None:
                    g.arrs[k][1] = g.arrs[s][1]
                elif len(g.arrs[s]) > 2:
                    g.arrs[k] = [g.arrs[k][0], None, "view"]     # linked to an empty VIEW (data_ non-null): an empty view itself
        elif c == "cl" and arrs:
            k = rng.choice(arrs); hist.append("cl %d" % k); g.arrs[k][1] = None
        elif c in ("rz", "rzx") and arrs:
            k = rng.choice(arrs); d = rand_dims(rng, g.arrs[k][0], P)
            if c == "rz" and rng.random() < 0.08:
                d[rng.randrange(len(d))] = 0
            hist.append("%s %d %s" % (c, k, " ".join(map(str, d))))
            g.arrs[k][1] = None if (c == "rzx" or 0 in d) else d
        elif c == "as" and len(arrs) >= 2:
            k = rng.choice(arrs)
            cand = [s for s in arrs if s != k and g.arrs[s][0] == g.arrs[k][0] and g.arrs[k][0] < 10]
            if cand:
                s = rng.choice(cand)
                hist.append("as %d %d" % (k, s))
                if g.arrs[k][1] is None and g.arrs[s][1] is not None:
                    g.arrs[k][1] = g.arrs[s][1]
        elif c == "alias":
            # two overlapping views of one vector assigned to each other: the library makes a temporary active array
            cand = [k for k in nonempty if g.arrs[k][0] == 1 and g.arrs[k][1][0] >= 2]
            if cand:
                s = rng.choice(cand); d = g.arrs[s][1][0]
                a, b = g.fresh(), g.fresh()
                hist.append("sl %d %d r0:%d:1" % (a, s, d - 2)); hist.append("sl %d %d r1:%d:1" % (b, s, d - 1))
                hist.append("as %d %d" % (a, b))
                g.arrs[a] = [1, [d - 1]]; g.arrs[b] = [1, [d - 1]]
        elif c == "sa" and len(arrs) >= 2:
            k = rng.choice(arrs)
            cand = [s for s in arrs if s != k and g.arrs[s][0] == g.arrs[k][0] and g.arrs[k][0] < 10]
            if cand:
                s = rng.choice(cand)
                hist.append("sa %d %d" % (k, s)); g.arrs[k], g.arrs[s] = g.arrs[s], g.arrs[k]
        elif c == "sw" and len(g.scal) >= 2:
            a, b = rng.sample(g.scal, 2); hist.append("sw %d %d" % (a, b))
        elif c == "nr":
            hist.append("nr")
    return hist[:length + 2]


def exhaustive_obj(L):
    """ALL maximal histories of length L over: new scalar, new aVector(2), failing aVector(2), new std::vector + emplace_back, and for
    every live array copy / view of its first element / clear / resize(3) / failing resize(3), link of every ordered pair of arrays,
    destruction of every live object"""
    out = []

    def rec(hist, scal, vecs, arrs, nxt):
        # arrs: tuple of (handle, nonempty)
        if len(hist) == L:
            out.append(list(hist))
            return
        hist.append("a1 %d" % nxt); rec(hist, scal + (nxt,), vecs, arrs, nxt + 1); hist.pop()
        hist.append("am %d 1 2" % nxt); rec(hist, scal, vecs, arrs + ((nxt, True),), nxt + 1); hist.pop()
        hist.append("amx %d 1 2" % nxt); rec(hist, scal, vecs, arrs, nxt + 1); hist.pop()
        if not vecs:
            hist.append("vn %d" % nxt); rec(hist, scal, vecs + (nxt,), arrs, nxt + 1); hist.pop()
        for v in vecs:
            hist.append("vp %d" % v); rec(hist, scal, vecs, arrs, nxt); hist.pop()
        for i, (k, ne) in enumerate(arrs):
            hist.append("cp %d %d" % (nxt, k)); rec(hist, scal, vecs, arrs + ((nxt, ne),), nxt + 1); hist.pop()
            if ne:
                hist.append("sl %d %d r0:0:1" % (nxt, k)); rec(hist, scal, vecs, arrs + ((nxt, True),), nxt + 1); hist.pop()
            rest = arrs[:i] + arrs[i + 1:]
            hist.append("cl %d" % k); rec(hist, scal, vecs, arrs[:i] + ((k, False),) + arrs[i + 1:], nxt); hist.pop()
            hist.append("rz %d 3" % k); rec(hist, scal, vecs, arrs[:i] + ((k, True),) + arrs[i + 1:], nxt); hist.pop()
            hist.append("rzx %d 3" % k); rec(hist, scal, vecs, arrs[:i] + ((k, False),) + arrs[i + 1:], nxt); hist.pop()
            for (j, nej) in rest:
                hist.append("ln %d %d" % (k, j))
                rec(hist, scal, vecs, arrs[:i] + ((k, nej if nej else ne),) + arrs[i + 1:], nxt); hist.pop()
            hist.append("d %d" % k); rec(hist, scal, vecs, rest, nxt); hist.pop()
        for k in scal:
            hist.append("d %d" % k); rec(hist, tuple(x for x in scal if x != k), vecs, arrs, nxt); hist.pop()
        for v in vecs:
            hist.append("d %d" % v); rec(hist, scal, tuple(x for x in vecs if x != v), arrs, nxt); hist.pop()

    rec([], (), (), (), 0)
    return out


def directed_obj(P):
    """every array type x a few shapes (padded rows included): object, copy, view, link, a scalar in between; the parent goes first,
    then the others in every order; a resize and a clear of a linked array in between"""
    out = []
    shapes = {1: [[1], [3]], 2: [[1, 1], [2, 3], [2, 2 * P], [3, 2 * P + 1]], 3: [[1, 1, 1], [2, 2, 2], [2, 2, 2 * P + 1]],
              10: [[1], [3]], 11: [[2], [4]], 14: [[1], [3]], 15: [[1], [4]]}
    for kind in KINDS:
        for d in shapes[kind]:
            ds = " ".join(map(str, d))
            base = ["a1 0", "am 1 %d %s" % (kind, ds), "a1 2", "cp 3 1", "am 4 %d %s" % (kind, ds), "ln 4 1", "a1 5"]
            if kind < 10:
                spec = " ".join(["f0"] * (kind - 1) + ["r0:%d:1" % (d[-1] - 1)])
                base += ["sl 6 1 %s" % spec, "sl 9 1 %s" % " ".join("r%d:%d:1" % (x - 1, x - 1) for x in d)]
            views = [3, 4] + ([6, 9] if kind < 10 else [])
            for order in itertools.permutations(views):
                h = list(base) + ["d 1", "a1 7"]
                for n, k in enumerate(order):
                    if n == 1:
                        h.append(("rz %d %s" % (k, ds)) if k in (3, 4) else "cl %d" % k)
                        h.append("a1 %d" % (10 + n))
                    h.append("d %d" % k)
                    h.append("am %d %d %s" % (20 + n, kind, ds))
                h += ["d 0", "d 2", "nr", "am 30 %d %s" % (kind, ds)]
                out.append(h)
    return out


def directed_misc(P):
    """directed programs for the operations the exhaustive alphabet does not contain: swap of arrays (with a copy, with an empty
    array), assignment to an empty array, aliased assignment (temporary active array), std::swap / copies / expression temporaries of
    scalars with gaps open, std::vector<adouble> growth across four reallocations with erase/pop and neighbours freed in between,
    adouble[n] blocks freed out of order, active FixedArrays between them"""
    out = []
    shapes = {1: [[2], [5]], 2: [[2, 2], [2, 2 * P + 1]], 3: [[1, 2, 2], [2, 1, 2 * P]]}
    for kind in (1, 2, 3):
        for d in shapes[kind]:
            for d2 in shapes[kind]:
                ds, ds2 = " ".join(map(str, d)), " ".join(map(str, d2))
                zero = " ".join(["0"] * kind)
                for first in ("d 1", "d 2", "d 4"):
                    h = ["a1 0", "am 1 %d %s" % (kind, ds), "a1 9", "am 2 %d %s" % (kind, ds2), "a1 3", "sa 1 2", "cp 4 1", "d 9", "sa 4 2",
                         "am 5 %d %s" % (kind, zero), "as 5 1", "sa 5 2", "am 6 %d %s" % (kind, zero), "sa 6 4", "cl 2", "as 2 5", first, "a1 7",
                         "rz 6 %s" % ds2, "as 6 5", "sa 6 5"]
                    h += [x for x in ("d 1", "d 2", "d 4") if x != first] + ["ap 8", "d 5", "d 6", "d 0", "nr", "am 10 %d %s" % (kind, ds)]
                    out.append(h)
    for n in (2, 3, 5):
        # overlapping views of one vector assigned to each other, with a gap open below and above
        out.append(["a1 0", "am 1 1 %d" % n, "a1 2", "sl 3 1 r0:%d:1" % (n - 2), "sl 4 1 r1:%d:1" % (n - 1), "d 0", "as 3 4", "a1 5", "d 2",
                    "as 4 3", "am 6 1 %d" % (n - 1), "as 6 3", "as 3 6", "d 1", "as 3 4", "d 3", "d 4", "d 6", "d 5"])
    # scalars: copies, expression temporaries and std::swap while gaps of one and two slots are open
    for gap in (["d 1"], ["d 1", "d 2"], ["d 2", "d 1"], ["d 3"], []):
        out.append(["a1 0", "ap 1", "a1 2", "ap 3", "a1 4"] + gap +
                   ["sw 0 4", "at 5 0 4", "ac 6 5", "ae 7 0 4", "d 5", "at 8 6 7", "sw 6 8", "d 0", "ac 9 8", "at 10 9 4", "d 4", "d 6", "sw 7 8",
                    "d 7", "d 8", "d 9", "d 10"])
    # std::vector<adouble>: growth 0 -> 1 -> 2 -> 4 -> 8 -> 16 with neighbours created and freed, erase and pop
    for k in range(4):
        h = ["a1 0", "vn 1", "af 2 3"]
        for i in range(10):
            h.append("vp 1")
            if i % 4 == k:
                h += ["a1 %d" % (10 + i)]
            if i % 4 == (k + 2) % 4 and i >= 2:
                h += ["d %d" % (10 + i - 2)] if (i - 2) % 4 == k else []
            if i == 5:
                h += ["ve 1 %d" % k, "vo 1"]
        h += ["d 2", "vp 1", "vn 3", "vp 3", "vp 1", "d 0", "vp 3", "d 1", "vp 3", "d 3"]
        out.append(h)
    # adouble[n] blocks and fixed arrays freed out of order
    for order in itertools.permutations([1, 3, 4, 5]):
        out.append(["a1 0", "bn 1 3", "a1 2", "af 3 2", "bn 4 2", "af 5 4"] + ["d %d" % k for k in order[:2]] + ["bn 6 4", "af 7 3", "a1 8"]
                   + ["d %d" % k for k in order[2:]] + ["bn 9 2", "d 6", "d 0", "d 7", "d 9", "d 2", "d 8"])
    return out


def directed_lists(P):
    """objects CONSTRUCTED FROM / ASSIGNED FROM nested initializer lists: every class (active/inactive Array, active/inactive FixedArray) x
    every rank that compiles (1..6) x full and ragged lists, between scalars, with gaps open, destroyed in both orders; assignment of a list
    to an empty array, to an empty VIEW, to an array of the list's shape, to a cleared list-made array"""
    out = []
    for cls in range(4):
        for r in LIST_RANKS:
            for v in (0, 1):
                h = ["a1 0", "il 1 %d %d %d" % (cls, r, v), "a1 2", "al 1 %d" % (1 - v), "il 3 %d %d %d" % (cls, r, 1 - v), "d 0", "a1 4", "d 1",
                     "il 5 %d %d %d" % (cls, r, v), "am 6 1 3", "d 3", "il 7 %d %d %d" % (cls, r, v), "al 5 %d" % v, "d 2", "d 5", "a1 8", "d 7", "il 9 %d %d 0" % (cls, r),
                     "d 6", "d 9", "d 4", "d 8", "nr", "il 10 %d %d %d" % (cls, r, v)]
                out.append(h)
    for r in LIST_RANKS:
        ds = " ".join(map(str, LIST_SHAPE[r])); zero = " ".join(["0"] * r)
        for v in (0, 1):
            # default-constructed then assigned; constructed with the shape then assigned; cleared then assigned; copy shares, list assignment keeps it
            out.append(["a1 0", "am 1 %d %s" % (r, zero), "al 1 %d" % v, "a1 2", "am 3 %d %s" % (r, ds), "al 3 %d" % v, "cp 4 1", "al 4 %d" % (1 - v),
                        "cl 1", "al 1 %d" % v, "d 0", "il 5 0 %d %d" % (r, v), "ln 5 1", "al 5 %d" % v, "cl 5", "cl 4", "al 5 %d" % (1 - v), "d 1", "d 3",
                        "a1 6", "d 5", "d 4", "d 2", "d 6"])
    return out


def directed_empty_views(P):
    """EMPTY views (zero extent in every position in turn, strides 1 and 2) of vectors, matrices (padded rows too) and 3-D arrays: taken and
    dropped with the parent alive, kept beyond the parent, copied, linked to, assigned to (they are resized), list-assigned; link to a
    temporary view (empty and not)"""
    out = []
    shapes = {1: [[2], [5]], 2: [[2, 3], [3, 2 * P + 1]], 3: [[2, 2, 2], [2, 3, 2 * P]]}
    for kind in (1, 2, 3):
        for d in shapes[kind]:
            ds = " ".join(map(str, d))
            for pos in range(kind):
                for (lo, hi, st) in ((1, 0, 1), (d[pos] - 1, max(0, d[pos] - 3), 2)):
                    for others in ("r", "f"):
                        spec = []
                        for i in range(kind):
                            if i == pos:
                                spec.append("r%d:%d:%d" % (lo, hi, st))
                            else:
                                spec.append("r0:%d:1" % (d[i] - 1) if others == "r" else "f%d" % (d[i] - 1))
                        nr = sum(1 for x in spec if x[0] == "r")
                        sp = " ".join(spec)
                        full = " ".join("r0:%d:1" % (x - 1) for x in d)
                        zero = " ".join(["0"] * nr)
                        # taken and dropped while the parent lives; then everything must still be there
                        out.append(["a1 0", "am 1 %d %s" % (kind, ds), "a1 2", "sl 3 1 %s" % sp, "d 3", "am 4 %d %s" % (kind, ds), "sl 5 1 %s" % sp, "cp 6 5",
                                    "d 5", "a1 7", "d 6", "am 8 1 3", "d 1", "am 9 %d %s" % (kind, ds), "d 0", "d 2", "d 4", "d 7", "d 8", "d 9"])
                        # kept beyond the parent; linked to; assigned to (resize); list-assigned; link to temporaries
                        h = ["a1 0", "am 1 %d %s" % (kind, ds), "sl 2 1 %s" % sp, "am 3 %d %s" % (nr, zero), "ln 3 2", "d 1", "a1 4",
                             "am 5 %d %s" % (kind, ds), "d 2", "am 6 1 2", "d 3", "am 7 %d %s" % (kind, ds), "sl 8 7 %s" % sp, "am 9 %d %s" % (nr, zero),
                             "lt 9 7 %s" % sp, "a1 10"]
                        if nr in LIST_SHAPE:
                            h += ["al 8 0", "a1 11", "al 8 1"]
                        h += ["d 7", "am 12 %d %s" % (kind, zero if False else ds), "lt 9 12 %s" % sp, "d 12", "am 13 1 2", "d 9", "d 8", "d 5", "d 0", "a1 14"]
                        out.append(h)
                        if nr == kind:
                            out.append(["am 1 %d %s" % (kind, ds), "a1 0", "am 2 %d %s" % (kind, ds), "sl 3 1 %s" % sp, "as 3 2", "sl 4 1 %s" % sp, "sl 5 2 %s" % sp,
                                        "as 4 5", "d 1", "a1 6", "am 7 %d %s" % (kind, ds), "lt 7 2 %s" % full, "d 2", "am 8 1 4", "lt 3 7 %s" % full, "d 7", "d 3",
                                        "d 4", "d 5", "a1 9"])
    return out


# ------------------------------------------------------------------ object layer: oracle
import re
ENT = re.compile(r"(\d+)=([SFVBAI])(\d*)\[([^\]]*)\](?:c(\d+))?")


def parse_dump(text):
    """'k=S[3] k=A2[11+17@11/18/2] ..' -> {handle: entry}; entry = ('S'|'B', [idx..]) | ('V', [idx..], cap) | ('F', idx, n) |
    ('A', kind, None) | ('A', kind, g, span, sgi, sn, links, data offset)"""
    out = {}
    for tok in text.split():
        m = ENT.fullmatch(tok)
        if not m:
            return None
        k, t, kind, body, cap = m.groups()
        k = int(k)
        try:
            if t == "I":
                if body:
                    return None
                out[k] = ("I",)            # inactive object: holds no gradient slot
            elif t in "SB":
                out[k] = (t, [int(x) for x in body.split(",") if x])
            elif t == "V":
                out[k] = ("V", [int(x) for x in body.split(",") if x], int(cap))
            elif t == "F":
                a, b = body.split("+"); out[k] = ("F", int(a), int(b))
            else:
                if body == "e":
                    out[k] = ("A", int(kind), None)
                else:
                    m2 = re.fullmatch(r"(-?\d+)\+(\d+)@(-?\d+)/(\d+)/(\d+)~(-?\d+)", body)
                    if not m2:
                        return None
                    out[k] = ("A", int(kind)) + tuple(int(x) for x in m2.groups())
        except ValueError:
            return None
    return out


def nolinks(e):
    return e[:6] + e[7:] if e and e[0] == "A" and e[2] is not None else e


def prod(l):
    r = 1
    for x in l:
        r *= x
    return r


def special_size(kind, d):
    return {10: d * d, 11: d * d, 14: 3 * d - 2, 15: d}[kind]


def obj_oracle(hist, lines):
    """judge the property from the implementation's output alone (the model is not consulted): (step, message) or None"""
    prev = {}
    for i, (op, line) in enumerate(zip(hist, lines)):
        if line == "bad-op":
            continue                       # not applicable (shrunk histories): nothing may have changed, the next line shows it
        if line.startswith("fault-not-delivered") or line.startswith("exception") or line.startswith("cfg-mismatch"):
            return i, "harness: " + line
        head, sep, dump = line.partition(" |")
        d = parse_obs(head)
        m = re.search(r"(\d+)=A\d+\[e!(-?\d+)\]", dump)
        if m:
            return i, "array %s has no storage (it is empty) but reports gradient index %s" % (m.group(1), m.group(2))
        cur = parse_dump(dump) if sep else None
        if d is None or cur is None:
            return i, "unparsable observation %r" % line[:200]
        # ---- the state by itself: owners are disjoint, below max_gradients(), counted; views lie in their storage; links are exact
        owner = {}
        stor = {}
        for k in sorted(cur):
            e = cur[k]
            blocks = []
            if e[0] in "SBV":
                if e[0] == "S" and len(e[1]) != 1:
                    return i, "scalar %d reports %d indices" % (k, len(e[1]))
                blocks = [(x, 1) for x in e[1]]
            elif e[0] == "F":
                blocks = [(e[1], e[2])]
            elif e[0] == "I":
                pass
            elif e[2] is not None:
                _, kind, g, span, sgi, sn, links, doff = e
                if sgi < 0 or sn < 1:
                    return i, "array %d: storage reports gradient index %d, %d elements" % (k, sgi, sn)
                if g != sgi + doff:
                    return i, ("array %d: element at data offset %d of its storage has gradient index %d, the storage gives it %d"
                               % (k, doff, g, sgi + doff))
                if not (sgi <= g and g + span <= sgi + sn and span >= 0 and (span >= 1 or g < sgi + sn)):      # span 0: an empty view
                    return i, "array %d addresses slots [%d,%d) outside the block [%d,%d) of its storage" % (k, g, g + span, sgi, sgi + sn)
                stor.setdefault((sgi, sn), []).append((k, links))
            for (a, n) in blocks:
                if a < 0:
                    return i, "object %d reports gradient index %d" % (k, a)
                for j in range(a, a + n):
                    if j in owner:
                        return i, "slot %d is held by live object %s and by live object %d" % (j, owner[j], k)
                    owner[j] = k
        for (sgi, sn), refs in sorted(stor.items()):
            for j in range(sgi, sgi + sn):
                if j in owner:
                    return i, "slot %d is held by live object %s and by the storage of array %d" % (j, owner[j], refs[0][0])
                owner[j] = "storage@%d(array %d)" % (sgi, refs[0][0])
            for (k, links) in refs:
                if links != len(refs):
                    return i, ("storage at slots [%d,%d) reports %d links but %d live arrays refer to it (%s)"
                               % (sgi, sgi + sn, links, len(refs), [r[0] for r in refs]))
        if owner and max(owner) >= d["mg"]:
            return i, "live slot %d is not below max_gradients()=%d" % (max(owner), d["mg"])
        if d["nr"] != len(owner):
            return i, "n_gradients_registered()=%d but %d active elements are live" % (d["nr"], len(owner))
        # ---- the transition: what the operation names changes as its meaning says, everything else keeps its slots
        w = op.split()
        c = w[0]
        k = int(w[1]) if len(w) > 1 else None
        touched = set()
        create = {"a1": "S", "ap": "S", "ac": "S", "ae": "S", "at": "S", "af": "F", "vn": "V", "bn": "B", "am": "A", "av": "A", "cp": "A", "sl": "A"}
        if c == "il":
            create = {"il": "AIFI"[int(w[2])]}
        if c in create:
            touched = {k}
            if k in prev:
                return i, "handle %d re-used" % k
            if k not in cur or cur[k][0] != create[c]:
                return i, "%s: object %d did not come to exist as expected (%s)" % (op, k, cur.get(k))
        elif c in ("amx", "avx"):
            if k in cur:
                return i, "%s: an object exists although its construction threw" % op
        elif c in ("d", "rsx"):
            touched = {k}
            if k in cur:
                return i, "%s: object still reported" % op
        elif c in ("vp", "vo", "ve", "ln", "as", "rz", "rzx", "rs", "cl", "al", "lt"):
            touched = {k}
        elif c == "sa":
            touched = {k, int(w[2])}
        for h in set(prev) | set(cur):
            if h in touched:
                continue
            if (h in prev) != (h in cur):
                return i, "%s: object %d %s" % (op, h, "vanished" if h in prev else "appeared")
            if nolinks(prev[h]) != nolinks(cur[h]):
                return i, "%s changed object %d, which it does not name: %s -> %s" % (op, h, prev[h], cur[h])
        e = cur.get(k)

        def fresh_array(e, nelem, exact=None):
            if e[2] is None:
                return "array %d is empty after %s" % (k, op)
            _, kind, g, span, sgi, sn, links, doff = e
            if links != 1 or g != sgi:
                return "%s: array %d should own a new storage alone: %s" % (op, k, e)
            if sn < nelem or (exact is not None and sn != exact):
                return "%s: storage of %d slots for %d elements" % (op, sn, nelem)
            return None
        msg = None
        if c in ("a1", "av", "af", "rs") and d["ret"] is not None:
            g = e[1][0] if e[0] == "S" else e[1] if e[0] == "F" else e[2]
            if g != d["ret"]:
                return i, "%s: returned index %s but the object reports %s" % (op, d["ret"], g)
        def is_empty(x):
            return x[2] is None or x[3] == 0          # no storage, or an empty view (no element)
        if c == "il":
            cls, r = int(w[2]), int(w[3])
            nel = prod(LIST_SHAPE[r])
            if cls == 0:
                # an active Array made from a list owns a NEW storage alone, with a slot for every element of the list's shape
                msg = ("il: wrong rank %s" % (e,)) if e[1] != r else fresh_array(e, nel, nel if r == 1 else None)
            elif cls == 2 and e[2] != nel:
                msg = "active FixedArray of %d elements made from a list reports %d slots" % (nel, e[2])
        elif c == "al":
            if e != prev[k] and not (e[0] == "A" and is_empty(prev[k])):
                msg = "assignment of an initializer list changed what object %d holds: %s -> %s" % (k, prev[k], e)
            elif e[0] == "A" and is_empty(prev[k]):
                nel = prod(LIST_SHAPE[e[1]])
                msg = fresh_array(e, nel, nel if e[1] == 1 else None)       # an empty() array is resized to the shape of the list
        elif c == "lt":
            s0 = cur[int(w[2])]
            if e[2] is None or s0[2] is None or e[4:7] != s0[4:7] or not (s0[2] <= e[2] and e[2] + e[3] <= s0[2] + s0[3]):
                msg = "array linked to a temporary view %s is not inside the source %s" % (e, s0)
        elif c == "af" and e[2] != int(w[2]):
            msg = "FixedArray of %s reports %d slots" % (w[2], e[2])
        elif c == "bn" and len(e[1]) != int(w[2]):
            msg = "adouble[%s] reports %d indices" % (w[2], len(e[1]))
        elif c == "vn" and e[1]:
            msg = "new std::vector is not empty"
        elif c == "vp" and (len(e[1]) != len(prev[k][1]) + 1 or e[2] < len(e[1])):
            msg = "emplace_back: %s -> %s" % (prev[k], e)
        elif c in ("vo", "ve") and e[1] != prev[k][1][:-1]:
            msg = "%s: elements %s -> %s (the last element is the one destroyed)" % (op, prev[k][1], e[1])
        elif c in ("am", "av", "rz", "rs"):
            dims = [int(x) for x in (w[2:] if c in ("av", "rs", "rz") else w[3:])]
            kind = e[1]
            if c == "am" and kind != int(w[2]):
                msg = "am: wrong type"
            elif 0 in dims:
                if e[2] is not None:
                    msg = "%s: a zero dimension must give an empty array: %s" % (op, e)
            elif kind < 10:
                msg = fresh_array(e, prod(dims), prod(dims) if kind == 1 else None)
            else:
                msg = fresh_array(e, special_size(kind, dims[0]), special_size(kind, dims[0]))
        elif c in ("cl", "rzx") and e[2] is not None:
            msg = "%s: array is not empty afterwards: %s" % (op, e)
        elif c == "cp":
            s = int(w[2])
            if e != cur[s]:
                msg = "copy %s differs from its source %s" % (e, cur[s])
        elif c == "ln":
            s = int(w[2])
            if prev[s][2] is None:
                if nolinks(e) != nolinks(prev[k]):
                    msg = "link to an empty array changed the target: %s -> %s" % (prev[k], e)
            elif e != cur[s]:
                msg = "linked array %s differs from its source %s" % (e, cur[s])
        elif c == "sl":
            s = cur[int(w[2])]
            if e[2] is None or s[2] is None or e[4:7] != s[4:7] or not (s[2] <= e[2] and e[2] + e[3] <= s[2] + s[3]):
                msg = "view %s is not inside its source %s" % (e, s)
        elif c == "as":
            s = prev[int(w[2])]
            if is_empty(prev[k]) and not is_empty(s):
                if e[2] is None or e[6] != 1 or e[2] != e[4] or e[1] != s[1] or e[3] == 0:
                    msg = "assignment to an empty array must allocate a storage of its own: %s" % (e,)
            elif is_empty(prev[k]):
                if e[2] is not None:
                    msg = "assignment of an empty array to an empty array must leave it without storage: %s" % (e,)
            elif nolinks(e) != nolinks(prev[k]):
                msg = "assignment to a non-empty array moved it: %s -> %s" % (prev[k], e)
        elif c == "sa":
            s = int(w[2])
            if cur[k] != prev[s] or cur[s] != prev[k]:
                msg = "swap: %s,%s -> %s,%s" % (prev[k], prev[s], cur[k], cur[s])
        if msg:
            return i, msg
        prev = cur
    return None


def obj_text(h, P):
    return "reset\ncfg %d 1\n" % P + "\n".join(h) + "\n"


def run_obj_one(exe, h, P):
    lines, rc, err = vcheck.run_impl(exe, ["obj"], obj_text(h, P))
    return lines[2:], rc, err


def strip_bad(exe, h, P):
    il = run_obj_one(exe, h, P)[0]
    return [o for o, l in zip(h, il + [""] * len(h)) if l != "bad-op"]


def shrink_obj(exe, h, P, want_oracle):
    def fails(sub):
        if not sub:
            return False
        il = run_obj_one(exe, sub, P)[0]
        if len(il) != len(sub):
            return want_oracle
        if want_oracle:
            return obj_oracle(sub, il) is not None
        ml = vcheck.run_model("galloc", obj_text(sub, P))[2:]
        return vcheck.first_diff(il, ml) is not None
    sh = vcheck.ddmin(list(h), fails, max_tests=400)
    sb = strip_bad(exe, sh, P)
    return sb if fails(sb) else sh


def run_obj_batch(ctx, exe, hists, label, P):
    """object-layer histories (obj mode, dump of all live objects after every step)"""
    text = "".join(obj_text(h, P) for h in hists)
    impl, rc, err = vcheck.run_impl(exe, ["obj"], text)
    model = vcheck.run_model("galloc", text)
    pos = 0
    nbad = 0
    opc = ctx.notes.setdefault("object_ops_executed", {})
    for h in hists:
        n = len(h) + 2
        il, ml = impl[pos + 2:pos + n], model[pos + 2:pos + n]
        pos += n
        ctx.count_case(("objlayer", tuple(h)), nontrivial=any(o.split()[0] in ("d", "cl", "rz", "ln", "rzx") for o in h[:-1]),
                       sample={"mode": "obj-layer", "history": h[:14], "impl_last": il[-1][:300] if il else None})
        for o, l in zip(h, il):
            key = o.split()[0] if l != "bad-op" else "bad-op"
            opc[key] = opc.get(key, 0) + 1
        bad = obj_oracle(h, il) if len(il) == len(h) else (len(il), "implementation stopped: rc=%s %s" % (rc, vcheck.san_summary(err)))
        if bad is not None:
            nbad += 1
            if nbad <= 2:
                k, msg = bad
                shr = shrink_obj(exe, h, P, want_oracle=True)
                i2 = run_obj_one(exe, shr, P)[0]
                b2 = obj_oracle(shr, i2) if len(i2) == len(shr) else (len(i2), msg)
                ctx.violation("%s [object layer, %s]" % (b2[1] if b2 else msg, label),
                              {"kind": "oracle", "mode": "obj", "objlayer": True, "packet": P, "history": shr, "step": b2[0] if b2 else k,
                               "message": b2[1] if b2 else msg, "impl": i2, "build": label})
            if len(il) != len(h):
                break
        elif vcheck.first_diff(il, ml) is not None:
            ctx.cov["disagreements_checked"] += 1
            if len(ctx.pending) < 2:
                shr = shrink_obj(exe, h, P, want_oracle=False)
                i2 = run_obj_one(exe, shr, P)[0]
                m2 = vcheck.run_model("galloc", obj_text(shr, P))[2:]
                ctx.pending.append({"kind": "correspondence",
                                    "correspondence": "AdeptModel/GradObj.lean + GradAlloc.lean <-> Active/Storage/Array/SpecialMatrix/FixedArray objects",
                                    "mode": "obj", "objlayer": True, "packet": P, "history": shr, "impl": i2, "model": m2, "build": label,
                                    "first_difference": vcheck.first_diff(i2, m2)})
    ctx.cov["traces_validated_against_impl"] += len(hists)
    return nbad


def packet_size(exe):
    lines, rc, err = vcheck.run_impl(exe, ["obj"], "pk\n")
    if not lines or not lines[0].startswith("pk "):
        raise RuntimeError("cannot read the packet size from the harness: %s %s" % (lines, err[-500:]))
    return int(lines[0].split()[1])


# ------------------------------------------------------------------ run
def run_batch(ctx, exe, mode, hists, label):
    """returns number of oracle failures; correspondence mismatches are parked in ctx.pending"""
    text = "".join("reset\n" + "\n".join(h) + "\n" for h in hists)
    impl, rc, err = vcheck.run_impl(exe, [mode], text)
    model = vcheck.run_model("galloc", text)
    pos = 0
    nbad = 0
    for h in hists:
        n = len(h) + 1
        il, ml = impl[pos + 1:pos + n], model[pos + 1:pos + n]
        pos += n
        ctx.count_case((mode, tuple(h)), nontrivial=any(o.startswith("d ") for o in h[:-1]),
                       sample={"mode": mode, "history": h[:12], "impl_last": il[-1] if il else None})
        bad = oracle(h, il) if len(il) == len(h) else (len(il), "implementation stopped: rc=%s %s" % (rc, err[-1500:]))
        if bad is not None:
            nbad += 1
            if nbad <= 2:
                k, msg = bad
                shr = shrink(ctx, exe, mode, h, want_oracle=True)
                ctx.violation("%s [%s mode, %s]" % (msg, mode, label),
                              {"kind": "oracle", "mode": mode, "history": shr, "step": k, "message": msg,
                               "impl": run_one(exe, mode, shr)[0], "build": label})
            if len(il) != len(h):
                break
        elif vcheck.first_diff(il, ml) is not None:
            ctx.cov["disagreements_checked"] += 1
            if len(ctx.pending) < 2:
                shr = shrink(ctx, exe, mode, h, want_oracle=False)
                i2, _, _ = run_one(exe, mode, shr)
                m2 = vcheck.run_model("galloc", "reset\n" + "\n".join(shr) + "\n")[1:]
                ctx.pending.append({"kind": "correspondence",
                                    "correspondence": "AdeptModel/GradAlloc.lean <-> Stack::(un)register_gradient(s)",
                                    "mode": mode, "history": shr, "impl": i2, "model": m2, "build": label,
                                    "first_difference": vcheck.first_diff(i2, m2)})
    ctx.cov["traces_validated_against_impl"] += len(hists)
    return nbad


def run_one(exe, mode, h):
    return vcheck.run_impl(exe, [mode], "reset\n" + "\n".join(h) + "\n")[0][1:], None, None


def shrink(ctx, exe, mode, h, want_oracle):
    def fails(sub):
        sub = valid_sub(sub)
        if not sub:
            return False
        il = run_one(exe, mode, sub)[0]
        if len(il) != len(sub):
            return want_oracle
        if want_oracle:
            return oracle(sub, il) is not None
        ml = vcheck.run_model("galloc", "reset\n" + "\n".join(sub) + "\n")[1:]
        return vcheck.first_diff(il, ml) is not None
    return valid_sub(vcheck.ddmin(list(h), fails, max_tests=150))


def run(ctx, replay):
    thms = [NS + t for t in vcheck.prop_theorems("AdeptProofs/Props/C08.lean", "C08_")]
    fails = vcheck.lean_gate(ctx, ["AdeptProofs.Props.C08"], thms, required=[NS + r for r in REQUIRED])
    exe = vbuild.build("galloc", os.path.join(vbuild.VERIF, "harness", "drv_galloc.cpp"), defines=["ADEPT_INITIAL_STACK_LENGTH=16"])
    builds = [("default", exe)]
    if True:
        builds.append(("pausable", vbuild.build("galloc", os.path.join(vbuild.VERIF, "harness", "drv_galloc.cpp"),
                                                defines=["ADEPT_RECORDING_PAUSABLE", "ADEPT_INITIAL_STACK_LENGTH=16"])))
    ctx.pending = []
    if replay:
        import json
        r = json.load(open(replay))
        h = r["history"]
        for label, e in builds:
            if r.get("objlayer"):
                run_obj_batch(ctx, e, [h], label, packet_size(e))
            else:
                run_batch(ctx, e, r.get("mode", "api"), [h], label)
        report_pending(ctx, fails)
        return
    L = 5 if ctx.tier == "quick" else 7
    ex = exhaustive(L)
    exf = exhaustive_faults(min(L, 6))
    ctx.notes["exhaustive_length"] = L
    ctx.notes["exhaustive_histories"] = len(ex)
    ctx.notes["exhaustive_histories_with_resize_or_allocation_fault"] = len(exf)
    nrand, rlen = (500, 300) if ctx.tier == "quick" else (1500, 600)
    rnd = [random_history(ctx.rng, rlen) for _ in range(nrand)]
    rnd_p = [random_history(ctx.rng, rlen, pauses=True) for _ in range(nrand // 2)]
    corpus = load_corpus()
    ctx.pending = []
    bad = 0
    for label, e in builds:
        for mode in ("api", "obj"):
            if corpus:
                bad += run_batch(ctx, e, mode, corpus, label)
            bad += run_batch(ctx, e, mode, ex if (mode == "api" or ctx.tier == "thorough" or True) else ex[::7], label)
            bad += run_batch(ctx, e, mode, exf, label)
            bad += run_batch(ctx, e, mode, rnd, label)
            if label == "pausable":
                bad += run_batch(ctx, e, mode, rnd_p, label + "+pause")
    # ---- object layer: real objects only (obj mode), every live object reported after every step
    LO = 5
    exo = exhaustive_obj(LO)
    exo_short = exhaustive_obj(LO - 1)
    n_o, len_o = (400, 200) if ctx.tier == "quick" else (900, 300)
    ctx.notes["object_layer"] = {"exhaustive_length": LO, "exhaustive_histories": len(exo), "random_histories": n_o, "random_length": len_o,
                                 "exhaustive_length_pausable_build_quick_tier": LO - 1}
    for label, e in builds:
        P = packet_size(e)
        ctx.notes["object_layer"]["packet_size"] = P
        dl, de = directed_lists(P), directed_empty_views(P)
        dirs = directed_obj(P) + directed_misc(P) + dl + de
        ctx.notes["object_layer"]["directed_histories"] = len(dirs)
        ctx.notes["object_layer"]["directed_initializer_list_histories"] = len(dl)
        ctx.notes["object_layer"]["directed_empty_view_and_link_to_temporary_histories"] = len(de)
        ctx.notes["object_layer"]["initializer_list_distribution"] = (
            "directed, every run: 4 classes (active/inactive Array, active/inactive FixedArray) x ranks 1..6 x full/ragged list, constructed and "
            "assigned (rank 7 does not compile in the pinned tree); random: `il` weight 4 of ~72 (class, rank, raggedness uniform), `al` weight 2")
        ctx.notes["object_layer"]["empty_view_distribution"] = (
            "directed, every run: ranks 1..3 x 2 shapes (padded rows included) x empty range in every position x (lo,hi,st) in {(1,0,1),(d-1,d-3,2)} x "
            "other positions ranges/integers; random: `sle` weight 3 (empty range r<lo>:<hi>:<st>, 0<=hi<lo<d, lo<hi+2st), `lt` weight 2.5 (a quarter "
            "of them to an empty temporary)")
        rnd_o = [random_obj_history(ctx.rng, len_o, P, pauses=(label == "pausable")) for _ in range(n_o)]
        if load_corpus("C08obj"):
            bad += run_obj_batch(ctx, e, load_corpus("C08obj"), label, P)
        bad += run_obj_batch(ctx, e, dirs, label, P)
        # quick tier: the full length on the default build, one step less on the pausable build
        bad += run_obj_batch(ctx, e, exo if (label == "default" or ctx.tier == "thorough") else exo_short, label, P)
        bad += run_obj_batch(ctx, e, rnd_o, label, P)
    ctx.cov["rule"] = ("histories of a1/av n/af n/d/nr/rs k n (resize of a live aVector: release then registration)/avx n (block whose "
                       "data allocation fails with std::bad_alloc, interposed allocator)/rsx k n (resize whose data allocation fails) over "
                       "handles: ALL maximal histories of length %d over scalar and block sizes 1..3 (exhaustive) + all of that length over "
                       "scalar/block/free/resize/allocation-fault steps containing one of the latter + %d random histories of length %d biased to frees in the middle; each run through the public "
                       "register/unregister API and through real adouble/aVector/FixedArray objects; non-trivial = contains a release "
                       "before its last step; distinct = different (mode, op list)" % (L, nrand, rlen))
    ctx.cov["exhaustive"] = False
    ctx.cov["rule"] += ("; OBJECT LAYER (obj mode, all live objects reported after every step): ALL maximal histories of length %d (quick tier, pausable build: one less) over "
                        "new adouble / new aVector(2) / failing aVector(2) / std::vector<adouble> + emplace_back / copy, first-element view, "
                        "clear, resize(3), failing resize(3) of every live array / link of every ordered pair / destruction of every live "
                        "object; directed sweep: 7 array types x padded and unpadded shapes x every destruction order of copy, link and views "
                        "after the parent, and directed programs for swap / assignment to an empty array / aliased assignment / scalar copies, "
                        "temporaries and std::swap over open gaps / std::vector growth over four reallocations / adouble[n] and FixedArray "
                        "freed in every order; objects constructed from / assigned from nested std::initializer_lists (4 classes x ranks 1..6 x "
                        "full/ragged); EMPTY views (zero extent in every position) taken, dropped, copied, linked, assigned to, outliving the parent; "
                        "link to temporary views (operator>>=(Array&&)); %d random histories of length %d over 35 operation kinds (weights in random_obj_history; counts "
                        "in object_ops_executed)" % (LO, n_o, len_o))
    ctx.assumptions += ["`Legal` (a release names a live block) is no longer assumed: theorem C08_obj_history_legal derives it for every "
                        "history of the object layer AdeptModel/GradObj.lean; that the C++ objects perform the member-level actions the "
                        "object layer says (GradObj.expand) is what the differential tie checks on every run",
                        "registration is independent of pause_recording (pausable build: random pause/continue inside the histories; the "
                        "models ignore them)"]
    if ctx.pending and not ctx.violations:
        # correspondence broke and the sampled histories show no property failure: search harder with the oracle alone
        extra = [random_history(ctx.rng, 1500) for _ in range(300)]
        for label, e in builds:
            for mode in ("api", "obj"):
                run_batch(ctx, e, mode, extra, label + "/search")
            P = packet_size(e)
            run_obj_batch(ctx, e, [random_obj_history(ctx.rng, 400, P, pauses=(label == "pausable")) for _ in range(300)], label + "/search", P)
    report_pending(ctx, fails)


def report_pending(ctx, fails):
    if ctx.violations:
        return
    for p in ctx.pending[:1]:
        ctx.violation("model and implementation disagree on an allocator history (%s mode, %s build); the bitmap oracle found no "
                      "history on which the property itself fails" % (p["mode"], p["build"]), p, tag="c", no_input=True)
    if fails and not ctx.violations:
        ctx.violation("proof obligation of C08 no longer checks: " + fails[0][:400],
                      {"kind": "proof", "theorem": "AdeptProofs/Props/C08.lean", "failures": fails}, tag="p", no_input=True)


def load_corpus(name="C08"):
    d = os.path.join(vbuild.VERIF, "corpus", name)
    out = []
    if os.path.isdir(d):
        for fn in sorted(os.listdir(d)):
            out.append([l.strip() for l in open(os.path.join(d, fn)) if l.strip() and not l.startswith("#")])
    return out
