"""C08 — every live active object owns a distinct gradient slot, in any order.

proof:  lean/AdeptProofs/Props/C08.lean (invariant of the allocator model for all histories)
tie:    hand-written model AdeptModel/GradAlloc.lean  <->  Stack::register/unregister_gradient(s)
        run on the same histories through the public API and through real adouble / aVector /
        active FixedArray objects; every observable (returned index, i_gradient, max_gradients,
        n_gradients_registered, gap list, cursor position) compared exactly after every step.
oracle: bitmap of live slots computed from the implementation's own output.
"""
import os, itertools
import vbuild, vcheck

LEVEL = "proof"
REQUIRED = ["C08_inv_init", "C08_inv_step", "C08_inv_reachable", "C08_fresh_disjoint", "C08_fresh_disjoint1",
            "C08_live_distinct_below", "C08_recycled_never_shared", "C08_gaps_canonical", "C08_cursor_irrelevant"]
NS = "Adept.GradAlloc."


# ------------------------------------------------------------------ generators
def exhaustive(L, sizes=(1, 2, 3)):
    """all maximal histories of length L: alloc scalar / alloc block of each size / free any live handle"""
    out = []

    def rec(hist, live, nxt):
        if len(hist) == L:
            out.append(list(hist))
            return
        hist.append("a1 %d" % nxt); live.append(nxt); rec(hist, live, nxt + 1); live.pop(); hist.pop()
        for n in sizes:
            hist.append("av %d %d" % (nxt, n)); live.append(nxt); rec(hist, live, nxt + 1); live.pop(); hist.pop()
        for i, k in enumerate(list(live)):
            hist.append("d %d" % k); live.pop(i); rec(hist, live, nxt); live.insert(i, k); hist.pop()

    rec([], [], 0)
    return out


def exhaustive_faults(L):
    """all maximal histories of length L over: scalar, block of 2, free, resize of a block (to 1 / 3: shrink, grow), and the
    two allocation-fault steps (a block whose data allocation fails; a resize whose data allocation fails)"""
    out = []

    def rec(hist, live, vec, nxt):
        if len(hist) == L:
            if any(o.split()[0] in ("rs", "rsx", "avx") for o in hist):
                out.append(list(hist))
            return
        hist.append("a1 %d" % nxt); rec(hist, live + [nxt], vec, nxt + 1); hist.pop()
        hist.append("av %d 2" % nxt); rec(hist, live + [nxt], vec + [nxt], nxt + 1); hist.pop()
        hist.append("avx %d 2" % nxt); rec(hist, live, vec, nxt + 1); hist.pop()
        for k in live:
            hist.append("d %d" % k); rec(hist, [x for x in live if x != k], [x for x in vec if x != k], nxt); hist.pop()
        for k in vec:
            for n in (1, 3):
                hist.append("rs %d %d" % (k, n)); rec(hist, live, vec, nxt); hist.pop()
            hist.append("rsx %d 3" % k); rec(hist, [x for x in live if x != k], [x for x in vec if x != k], nxt); hist.pop()

    rec([], [], [], 0)
    return out


def random_history(rng, length, pauses=False):
    """biased towards the rare branches: frees in the middle, re-use of exact-fit and partial-fit gaps"""
    hist, live, nxt = [], [], 0
    vec = set()      # live handles made by `av` (real aVector objects in obj mode): the ones that can be resized
    target = rng.choice([3, 6, 12, 25])
    paused = False
    for _ in range(length):
        r = rng.random()
        if rng.random() < 0.06:
            # resize of a live block (release, then registration under the same handle), allocation faults
            q = rng.random()
            if q < 0.3 or not vec:
                hist.append("avx %d %d" % (nxt, rng.choice([1, 2, 3, 5, 40]))); nxt += 1
            elif q < 0.8:
                hist.append("rs %d %d" % (rng.choice(sorted(vec)), rng.choice([1, 1, 2, 3, 4, 5, 7, 9])))
            else:
                k = rng.choice(sorted(vec))
                hist.append("rsx %d %d" % (k, rng.choice([1, 2, 3, 5, 40])))
                vec.discard(k); live.remove(k)
            continue
        if pauses and rng.random() < 0.05:
            paused = not paused
            hist.append("pause" if paused else "cont")
            continue
        if live and (len(live) > target or r < 0.42):
            # free: mostly not the newest
            if rng.random() < 0.2:
                i = len(live) - 1
            else:
                i = rng.randrange(len(live))
            vec.discard(live[i])
            hist.append("d %d" % live.pop(i))
        elif r > 0.97:
            hist.append("nr")
        else:
            k = rng.random()
            if k < 0.4:
                hist.append("a1 %d" % nxt)
            elif k < 0.8:
                hist.append("av %d %d" % (nxt, rng.choice([1, 1, 2, 2, 3, 4, 5, 7]))); vec.add(nxt)
            else:
                hist.append("af %d %d" % (nxt, rng.randint(1, 4)))
            live.append(nxt); nxt += 1
    return hist


def valid_sub(hist):
    """drop frees whose allocation is gone (used by the shrinker)"""
    live, vec, out = set(), set(), []
    for op in hist:
        w = op.split()
        if w[0] in ("a1", "av", "af"):
            live.add(w[1]); out.append(op)
            if w[0] == "av":
                vec.add(w[1])
            else:
                vec.discard(w[1])
        elif w[0] == "d":
            if w[1] in live:
                live.discard(w[1]); vec.discard(w[1]); out.append(op)
        elif w[0] in ("rs", "rsx"):
            if w[1] in vec:
                out.append(op)
                if w[0] == "rsx":
                    live.discard(w[1]); vec.discard(w[1])
        else:
            out.append(op)
    return out


# ------------------------------------------------------------------ oracle
def parse_obs(line):
    # "<ret> ig=.. mg=.. nr=.. gaps=[..] cur=.."
    try:
        w = line.split()
        d = {"ret": None if w[0] == "-" else int(w[0])}
        for t in w[1:]:
            k, v = t.split("=", 1)
            d[k] = v
        d["ig"], d["mg"], d["nr"] = int(d["ig"]), int(d["mg"]), int(d["nr"])
        return d
    except Exception:
        return None


def oracle(hist, lines):
    """judge the property from the implementation's output alone; returns (index, message) or None"""
    live = {}   # handle -> (idx, n)
    owner = {}  # slot -> handle
    for i, (op, line) in enumerate(zip(hist, lines)):
        w = op.split()
        d = parse_obs(line)
        if d is None:
            return i, "unparsable observation %r" % line
        if w[0] in ("a1", "av", "af"):
            n = 1 if w[0] == "a1" else int(w[2])
            idx = d["ret"]
            if idx is None or idx < 0:
                return i, "registration returned no valid index"
            for j in range(idx, idx + n):
                if j in owner:
                    return i, "slot %d handed to handle %s while still owned by live handle %s" % (j, w[1], owner[j])
            for j in range(idx, idx + n):
                owner[j] = w[1]
            live[w[1]] = (idx, n)
        elif w[0] in ("pause", "cont", "nr", "avx"):
            pass        # avx: the data allocation failed, no object came to exist, nothing may stay registered
        elif w[0] in ("d", "rsx"):
            idx, n = live.pop(w[1])
            for j in range(idx, idx + n):
                del owner[j]
        elif w[0] == "rs":
            idx, n = live.pop(w[1])
            for j in range(idx, idx + n):
                del owner[j]
            n = int(w[2])
            idx = d["ret"]
            if idx is None or idx < 0:
                return i, "registration returned no valid index"
            for j in range(idx, idx + n):
                if j in owner:
                    return i, "slot %d handed to resized handle %s while still owned by live handle %s" % (j, w[1], owner[j])
            for j in range(idx, idx + n):
                owner[j] = w[1]
            live[w[1]] = (idx, n)
        if owner and max(owner) >= d["mg"]:
            return i, "live slot %d is not below max_gradients()=%d" % (max(owner), d["mg"])
        if d["nr"] != len(owner):
            return i, "n_gradients_registered()=%d but %d active elements are live" % (d["nr"], len(owner))
    return None


# ------------------------------------------------------------------ run
def run_batch(ctx, exe, mode, hists, label):
    """returns number of oracle failures; correspondence mismatches are parked in ctx.pending"""
    text = "".join("reset\n" + "\n".join(h) + "\n" for h in hists)
    impl, rc, err = vcheck.run_impl(exe, [mode], text)
    model = vcheck.run_model("galloc", text)
    pos = 0
    nbad = 0
    for h in hists:
        n = len(h) + 1
        il, ml = impl[pos + 1:pos + n], model[pos + 1:pos + n]
        pos += n
        ctx.count_case((mode, tuple(h)), nontrivial=any(o.startswith("d ") for o in h[:-1]),
                       sample={"mode": mode, "history": h[:12], "impl_last": il[-1] if il else None})
        bad = oracle(h, il) if len(il) == len(h) else (len(il), "implementation stopped: rc=%s %s" % (rc, err[-1500:]))
        if bad is not None:
            nbad += 1
            if nbad <= 2:
                k, msg = bad
                shr = shrink(ctx, exe, mode, h, want_oracle=True)
                ctx.violation("%s [%s mode, %s]" % (msg, mode, label),
                              {"kind": "oracle", "mode": mode, "history": shr, "step": k, "message": msg,
                               "impl": run_one(exe, mode, shr)[0], "build": label})
            if len(il) != len(h):
                break
        elif vcheck.first_diff(il, ml) is not None:
            ctx.cov["disagreements_checked"] += 1
            if len(ctx.pending) < 2:
                shr = shrink(ctx, exe, mode, h, want_oracle=False)
                i2, _, _ = run_one(exe, mode, shr)
                m2 = vcheck.run_model("galloc", "reset\n" + "\n".join(shr) + "\n")[1:]
                ctx.pending.append({"kind": "correspondence",
                                    "correspondence": "AdeptModel/GradAlloc.lean <-> Stack::(un)register_gradient(s)",
                                    "mode": mode, "history": shr, "impl": i2, "model": m2, "build": label,
                                    "first_difference": vcheck.first_diff(i2, m2)})
    ctx.cov["traces_validated_against_impl"] += len(hists)
    return nbad


def run_one(exe, mode, h):
    return vcheck.run_impl(exe, [mode], "reset\n" + "\n".join(h) + "\n")[0][1:], None, None


def shrink(ctx, exe, mode, h, want_oracle):
    def fails(sub):
        sub = valid_sub(sub)
        if not sub:
            return False
        il = run_one(exe, mode, sub)[0]
        if len(il) != len(sub):
            return want_oracle
        if want_oracle:
            return oracle(sub, il) is not None
        ml = vcheck.run_model("galloc", "reset\n" + "\n".join(sub) + "\n")[1:]
        return vcheck.first_diff(il, ml) is not None
    return valid_sub(vcheck.ddmin(list(h), fails, max_tests=150))


def run(ctx, replay):
    thms = [NS + t for t in vcheck.prop_theorems("AdeptProofs/Props/C08.lean", "C08_")]
    fails = vcheck.lean_gate(ctx, ["AdeptProofs.Props.C08"], thms, required=[NS + r for r in REQUIRED])
    exe = vbuild.build("galloc", os.path.join(vbuild.VERIF, "harness", "drv_galloc.cpp"), defines=["ADEPT_INITIAL_STACK_LENGTH=16"])
    builds = [("default", exe)]
    if True:
        builds.append(("pausable", vbuild.build("galloc", os.path.join(vbuild.VERIF, "harness", "drv_galloc.cpp"),
                                                defines=["ADEPT_RECORDING_PAUSABLE", "ADEPT_INITIAL_STACK_LENGTH=16"])))
    ctx.pending = []
    if replay:
        import json
        r = json.load(open(replay))
        h = r["history"]
        for label, e in builds:
            run_batch(ctx, e, r.get("mode", "api"), [h], label)
        report_pending(ctx, fails)
        return
    L = 5 if ctx.tier == "quick" else 7
    ex = exhaustive(L)
    exf = exhaustive_faults(min(L, 6))
    ctx.notes["exhaustive_length"] = L
    ctx.notes["exhaustive_histories"] = len(ex)
    ctx.notes["exhaustive_histories_with_resize_or_allocation_fault"] = len(exf)
    nrand, rlen = (500, 300) if ctx.tier == "quick" else (1500, 600)
    rnd = [random_history(ctx.rng, rlen) for _ in range(nrand)]
    rnd_p = [random_history(ctx.rng, rlen, pauses=True) for _ in range(nrand // 2)]
    corpus = load_corpus()
    ctx.pending = []
    bad = 0
    for label, e in builds:
        for mode in ("api", "obj"):
            if corpus:
                bad += run_batch(ctx, e, mode, corpus, label)
            bad += run_batch(ctx, e, mode, ex if (mode == "api" or ctx.tier == "thorough" or True) else ex[::7], label)
            bad += run_batch(ctx, e, mode, exf, label)
            bad += run_batch(ctx, e, mode, rnd, label)
            if label == "pausable":
                bad += run_batch(ctx, e, mode, rnd_p, label + "+pause")
    ctx.cov["rule"] = ("histories of a1/av n/af n/d/nr/rs k n (resize of a live aVector: release then registration)/avx n (block whose "
                       "data allocation fails with std::bad_alloc, interposed allocator)/rsx k n (resize whose data allocation fails) over "
                       "handles: ALL maximal histories of length %d over scalar and block sizes 1..3 (exhaustive) + all of that length over "
                       "scalar/block/free/resize/allocation-fault steps containing one of the latter + %d random histories of length %d biased to frees in the middle; each run through the public "
                       "register/unregister API and through real adouble/aVector/FixedArray objects; non-trivial = contains a release "
                       "before its last step; distinct = different (mode, op list)" % (L, nrand, rlen))
    ctx.cov["exhaustive"] = False
    ctx.assumptions += ["destructors release only blocks they own (Legal in GradAllocDefs.lean); registration is independent of "
                        "pause_recording (pausable build: random pause/continue inside the histories; model ignores them)"]
    if ctx.pending and not ctx.violations:
        # correspondence broke and the sampled histories show no property failure: search harder with the oracle alone
        extra = [random_history(ctx.rng, 1500) for _ in range(300)]
        for label, e in builds:
            for mode in ("api", "obj"):
                run_batch(ctx, e, mode, extra, label + "/search")
    report_pending(ctx, fails)


def report_pending(ctx, fails):
    if ctx.violations:
        return
    for p in ctx.pending[:1]:
        ctx.violation("model and implementation disagree on an allocator history (%s mode, %s build); the bitmap oracle found no "
                      "history on which the property itself fails" % (p["mode"], p["build"]), p, tag="c", no_input=True)
    if fails and not ctx.violations:
        ctx.violation("proof obligation of C08 no longer checks: " + fails[0][:400],
                      {"kind": "proof", "theorem": "AdeptProofs/Props/C08.lean", "failures": fails}, tag="p", no_input=True)


def load_corpus():
    d = os.path.join(vbuild.VERIF, "corpus", "C08")
    out = []
    if os.path.isdir(d):
        for fn in sorted(os.listdir(d)):
            out.append([l.strip() for l in open(os.path.join(d, fn)) if l.strip() and not l.startswith("#")])
    return out
