"""C18 — the minimizer never leaves the box and reports what it actually reached (partial: exact arithmetic proved,
floating-point behaviour explored).

proof:  lean/AdeptProofs/Props/C18.lean over AdeptModel/MinimizerLogic.lean (transcription of the three bounded
        minimizers and of line_search): feasible_always, flags_truthful, converged_means, iterations_bounded,
        terminates, invalid_bounds -- for ALL cost functions (they are function arguments), over any linear ordered
        field.  The Levenberg family's converged_means is false as coded (finding F-65): `_partial` theorem +
        refutation by `decide` in AdeptProofs/Refute/Minimizer.lean.
tie:    hook H4 (guarded, add-only) logs every decision of the real code (projection, release, convergence test,
        nearest bound, capture, step limit, damping, line-search clamps / Wolfe test / branch choices); the model
        driver `adept_model minimizer` re-evaluates each one in exact rational arithmetic on the logged doubles.
oracle: independent of the model.  An instrumented Optimizable checks lower <= x <= upper on the doubles of EVERY
        callback; reported cost == fresh cost at the returned x; cost <= start cost; 'converged' => recomputed
        free-gradient norm <= threshold; n_iterations <= max; termination (callback-count and wall-clock watchdogs);
        documented status for invalid bounds / non-finite cost / gradient; truthful flags on the logged states.
"""
import os, json, collections
import vbuild, vcheck
import mincommon as mc

LEVEL = "proof"
NS = "Adept.Minimizer."
REQUIRED = ["C18_start_projected", "C18_flags_truthful_init", "C18_ls_steps_within_bound", "C18_ls_terminates",
            "C18_ls_bound_reached_means", "C18_nearest_bound", "C18_feasible_always", "C18_cg_strategy_ok",
            "C18_invalid_bounds", "C18_iterations_bounded", "C18_terminates", "C18_flags_truthful",
            "C18_converged_means", "C18_lm_feasible_flags", "C18_lm_trial_needs_no_clamp", "C18_lm_invalid_bounds",
            "C18_converged_means_lm_partial", "C18_ls_reported_cost", "C18_reported_cost", "C18_lm_inner_terminates",
            "C18_lm_iterations_bounded", "C18_flags_truthful_release", "C18_converged_means_gradient"]
REFUTE = ["Adept.Minimizer.Refute.converged_means_lm_refuted"]
SKIP = ("skip-overflow-regime", "skip-exception")

# directed regression cases: the witnesses of the findings that were repaired (must now satisfy the property) and of
# the open ones (must show exactly the listed signature)
D = float.fromhex
CORPUS = [
    ("F-17 bracketing loop counts its iterations", dict(algo="Conjugate-Gradient", bounded=False, n=2, f="lin", g=[-1.0, -1.0], x0=[0.0, 0.0], mss=1.0, maxit=5, maxcb=5000), None),
    ("F-18 two upper faces in one Levenberg step", dict(algo="Levenberg", bounded=True, n=3, f="quadd", h=[1.0, 3.0, 2.0], c=[10.3, 7.1, 0.25], lo=[0.1] * 3, up=[1.7, 2.3, 0.9], x0=[0.3, 0.2, 0.7], tol=1e-8), None),
    ("F-18 (Levenberg-Marquardt)", dict(algo="Levenberg-Marquardt", bounded=True, n=3, f="quadd", h=[1.0, 3.0, 2.0], c=[10.3, 7.1, 0.25], lo=[0.1] * 3, up=[1.7, 2.3, 0.9], x0=[0.3, 0.2, 0.7], tol=1e-8), None),
    ("F-20 non-finite exit of the line search (L-BFGS)", dict(algo="L-BFGS", bounded=False, n=2, f="quadd", h=[2.0, 2.0], c=[3.0, 0.0], x0=[0.0, 1.0], bad="inf", rlo=[-mc.RMAX] * 2, rup=[2.0, mc.RMAX]), None),
    ("F-20 (Conjugate-Gradient)", dict(algo="Conjugate-Gradient", bounded=False, n=2, f="quadd", h=[2.0, 2.0], c=[3.0, 0.0], x0=[0.0, 1.0], bad="inf", rlo=[-mc.RMAX] * 2, rup=[2.0, mc.RMAX]), None),
    ("F-60 two faces reached by the same step (CG)", dict(algo="Conjugate-Gradient", bounded=True, n=2, f="lin", g=[-1.0, -1.0], x0=[0.5, 0.5], lo=[0.0, 0.0], up=[1.0, 1.0]), None),
    ("F-60 (L-BFGS)", dict(algo="L-BFGS", bounded=True, n=2, f="lin", g=[-1.0, -1.0], x0=[0.5, 0.5], lo=[0.0, 0.0], up=[1.0, 1.0], maxit=3), None),
    ("F-61 reported cost after max iterations (unbounded LM)", dict(algo="Levenberg-Marquardt", bounded=False, n=2, f="rosen", x0=[-3.0, -3.0], maxit=3), None),
    ("F-61 (bounded Levenberg)", dict(algo="Levenberg", bounded=True, n=2, f="rosen", x0=[-3.0, -3.0], maxit=3, lo=[-5.0, -5.0], up=[5.0, 5.0]), None),
    ("F-62 bounds of the wrong length", dict(algo="L-BFGS", bounded=True, n=3, f="quadd", h=[1.0, 1.0, 1.0], c=[0.0, 0.0, 0.0], x0=[1.0, 1.0, 1.0], lo=[-1.0, -1.0, -1.0], up=[2.0, 2.0]), None),
    ("F-19 rounding at a face (open)", dict(algo="Conjugate-Gradient", bounded=True, n=3, f="quadd", h=[1.0, 3.0, 2.0], c=[10.3, 7.1, 0.25], lo=[0.1] * 3, up=[1.7, 2.3, 0.9], x0=[0.3, 0.2, 0.7], tol=1e-8), "rounding-overshoot-at-face<=13ulp"),
    ("F-64 L-BFGS on a linear cost (open)", dict(algo="L-BFGS", bounded=True, n=1, f="lin", g=[-1.0], x0=[3.9], lo=[2.7], up=[mc.RMAX], maxit=5, tol=1e-9), "lbfgs-zero-curvature-nan-state"),
    ("F-65 Levenberg holds a variable whose gradient points inward (open)", dict(algo="Levenberg", bounded=True, n=2, f="quadm", H=[2.0, -1.0, -1.0, 2.0], c=[-1.0, -3.0], lo=[0.0, 0.0], up=[10.0, 10.0], x0=[0.0, 0.0], tol=1e-9), "lm-converged-with-inward-gradient-at-bound"),
]


def judge(c, r, err):
    bad = mc.oracle_c18(c, r, err)
    if r is not None and not any(s in SKIP for s, _ in bad):
        bad += mc.oracle_log(c, r)
    return bad


def run(ctx, replay):
    thms = [NS + t for t in vcheck.prop_theorems("AdeptProofs/Props/C18.lean", "C18_")] + REFUTE
    fails = vcheck.lean_gate(ctx, ["AdeptProofs.Props.C18", "AdeptProofs.Refute.Minimizer"], thms,
                             required=[NS + r for r in REQUIRED] + REFUTE)
    exe = mc.build()
    hooked = mc.has_h4()
    ctx.notes["hook_H4_present"] = hooked
    if replay:
        r0 = json.load(open(replay))
        c = r0.get("case")
        if c is None:
            print("replay file carries no case (no-failing-input-found): " + str(r0.get("what"))[:2000])
            return
        r, err = mc.run_cases(exe, [dict(c, log=1, trace=1)])[0]
        print(mc.case_line(c))
        print("result:", None if r is None else {k: v for k, v in r.items() if k not in ("raw", "log", "trace")})
        for sig, msg in judge(c, r, err):
            print("ORACLE %s: %s" % (sig, msg))
            if sig not in SKIP:
                ctx.violation(msg, {"kind": "oracle", "case": c, "signature": sig, "case_line": mc.case_line(c)})
        return
    n_rand = 4000 if ctx.tier == "quick" else 30000
    cases = [(label, dict(c, maxcb=c.get("maxcb", 60000), log=1), exp) for label, c, exp in CORPUS]
    cases += [("random", dict(mc.gen_c18(ctx.rng), log=1), None) for _ in range(n_rand)]
    res = mc.run_cases(exe, [c for _, c, _ in cases])
    sig_count = collections.Counter()
    status_count = collections.Counter()
    cls_count = collections.Counter()
    first = {}
    model_in, owner = [], []
    for k, ((label, c, exp), (r, err)) in enumerate(zip(cases, res)):
        bad = judge(c, r, err)
        sigs = [s for s, _ in bad]
        skip = [s for s in sigs if s in SKIP]
        key = (c["algo"], c["bounded"], c["f"], c.get("bad", "none"), c["n"], tuple(c["x0"]))
        ctx.count_case(key, nontrivial=(r is not None and r.get("ncb", 0) > 1),
                       sample={"case": mc.case_line(c)[:300], "status": None if r is None else r["status"],
                               "nit": None if r is None else r.get("nit")} if k % 211 == 0 else None)
        if r is not None:
            status_count["%s/%s" % (c["algo"], mc.ST.get(r["status"], r["status"]))] += 1
            cls_count["%s/%s/%s/%s" % (c["algo"], "bounded" if c["bounded"] else "free", c["f"], c.get("bad", "none"))] += 1
        for s in skip:
            sig_count[s] += 1
        if skip:
            continue
        if exp is not None and exp not in sigs:
            ctx.violation("directed case '%s' no longer shows the recorded signature %s (observed: %s) -- if the defect was repaired, "
                          "mark the finding fixed" % (label, exp, sigs), {"kind": "corpus", "case": c, "label": label}, tag="k", no_input=True)
        for s, msg in bad:
            sig_count[s] += 1
            if s not in first:
                first[s] = (c, msg, r)
        if r is not None and hooked:
            for l in mc.model_lines(r["log"]):
                model_in.append(l); owner.append(k)
    # ---- report oracle failures: one violation (or known finding) per signature, smallest case first
    for s, (c, msg, r) in sorted(first.items()):
        ctx.violation("%s [%s, %d case(s)]" % (msg, c["algo"], sig_count[s]),
                      {"kind": "oracle", "signature": s, "case": {k: v for k, v in c.items()}, "case_line": mc.case_line(c),
                       "result": None if r is None else r["raw"].get("status"), "count": sig_count[s]})
    # ---- correspondence: the model re-evaluates every logged decision
    diffs = []
    tagcount = collections.Counter()
    if hooked and model_in:
        out = vcheck.run_model("minimizer", "\n".join(model_in) + "\n")
        if len(out) != len(model_in):
            diffs.append(("model driver returned %d lines for %d decisions" % (len(out), len(model_in)), None, None))
        for l, o, k in zip(model_in, out, owner):
            tagcount["%s:%s" % (l.split(" ", 1)[0], o.split(" ", 1)[0])] += 1
            if o.startswith("diff") or o == "bad-op":
                diffs.append((o, l, k))
        ctx.cov["traces_validated_against_impl"] += len({k for k in owner})
        ctx.cov["disagreements_checked"] += len(diffs)
    elif not hooked:
        ctx.notes["correspondence"] = "hook H4 absent from the working tree: decision-trace validation not run"
    ctx.notes["decisions_revalidated"] = dict(tagcount)
    ctx.notes["status_distribution"] = dict(status_count)
    ctx.notes["signature_counts"] = dict(sig_count)
    ctx.notes["classes_hit"] = len(cls_count)
    ctx.cov["rule"] = ("%d directed witnesses + %d random problems: algorithm x {unbounded, bounded} x cost family (diagonal / dense quadratics convex "
                       "and not, Rosenbrock, quartics, linear) x non-finite regions (inf/NaN cost, inf/NaN gradient; the box itself, a margin around "
                       "it, a half-space) x start (inside / outside / on faces / corner) x box (finite, one-sided, none, invalid) x settings "
                       "(max_step_size, max_iterations 1..300, thresholds 1e-1..1e-9, ensure_updated_state -1..2, line-search iterations 1..20), "
                       "dimensions 1..12, 35%% in the exact (dyadic) regime, 6%% exact ties.  non-trivial: more than one callback; "
                       "distinct: different (algorithm, boundedness, family, region, n, start)" % (len(CORPUS), n_rand))
    ctx.assumptions += ["exact arithmetic in the theorems; rounding of x + (a*s)*d at a face is observed (finding F-19: <= %d ulp)" % mc.ULPS,
                        "iterates below 1e100 in magnitude (problems unbounded below along an unbounded direction overflow: counted, not judged)",
                        "'on a face' in the float regime means within %d ulp of the largest magnitude the component has had" % mc.ULPS,
                        "sentinel hypothesis NBExact of C18_feasible_always (no face farther than numeric_limits::max) -- holds in every logged NB decision or the model driver reports it",
                        "a singular/indefinite Hessian handed to solve() by the user's own problem may throw (counted as skip-exception)"]
    if diffs and not ctx.violations:
        o, l, k = diffs[0]
        ctx.violation("model and implementation disagree on a logged decision (%s); the box/cost/status oracle found no input on which the "
                      "property itself fails" % o,
                      {"kind": "correspondence", "correspondence": "AdeptModel/MinimizerLogic.lean <-> hook H4 decision log", "decision": l,
                       "model": o, "case": None if k is None else {kk: v for kk, v in cases[k][1].items()},
                       "case_line": None if k is None else mc.case_line(cases[k][1]), "n_disagreements": len(diffs)}, tag="c", no_input=True)
    if fails and not ctx.violations:
        ctx.violation("proof obligation of C18 no longer checks: " + fails[0][:400],
                      {"kind": "proof", "theorem": "AdeptProofs/Props/C18.lean", "failures": fails}, tag="p", no_input=True)
