"""C03 — array-statement derivatives match those of the equivalent scalar loops.

proof:  lean/AdeptProofs/Props/C03.lean: for arbitrary rank, extents, strides (either sign, zero for spread/outer_product),
        offsets and expression trees, the transcribed loops of Array.h / FixedArray.h / IndexedArray.h / where.h (target
        traversal with advance_index, set_location_/advance_location_ of every leaf, the ++index branch, push_lhs_range
        batching, is_gap resynchronisation, translate_coords_) record the SAME tape and store the same values as the
        element-by-element scalar program the statement denotes (list equality), the element-wise functions max/fmax/min/fmin
        (policy classes Max, Min: each operand read at its own location, tie rule of is_left) and abs/fabs included;
        diag_vector(active expression, k) likewise; whole and per-dimension sum/mean/product/minval/maxval record tapes with
        the same tangent-linear map as the scalar accumulation loop, reduce_dimension's own odometer transcribed literally
        and proved to take the strips in index order of the result.
tie:    model AdeptModel/ArrayAD.lean <-> the real library, two-phase: the driver harness/drv_arrayad*.cpp prints, for every
        executed statement, the geometry (gradient index, offset, dims, strides) and memory image of every operand, the tape
        statements appended and the memory image afterwards; from that the model's input line is assembled and the model's
        tape and values are compared EXACTLY (integers / dyadic rationals held in doubles).
oracle: independent of the model: the scalar loops the statement denotes, evaluated in Python with textbook forward-mode dual
        numbers over Fractions on the printed operand values; compared with the gradients obtained by pushing unit seeds
        through the printed tape, with the values, and (per case) with the matrix Stack::jacobian() returns.
"""
import os, json, glob, itertools, time
from concurrent.futures import ThreadPoolExecutor
from fractions import Fraction
import vbuild, vcheck
import arrayadcommon as ac

LEVEL = "proof"
NS = "Adept.ArrayAD."
REQUIRED = ["C03_record_eq_denote_assign", "C03_record_eq_denote_passive", "C03_record_eq_denote_scalar",
            "C03_record_eq_denote_where", "C03_record_eq_denote_indexed", "C03_reduce_jacobian", "C03_values",
            "C03_record_eq_denote_maxmin", "C03_max_min_rule", "C03_max_min_abs_values", "C03_record_eq_denote_abs",
            "C03_record_eq_denote_diag_vector", "C03_reduce_dim_strip_order", "C03_reduce_dim_jacobian"]
# values that keep the arguments of the Float-regime functions inside their open domains, also for the product A*B of two
# such arrays (the nested form): dyadic, printed and parsed exactly
DOMAIN_VALUES = {
    "unit": ["0.25", "0.5", "0.75", "-0.25", "-0.5", "-0.75", "0.125", "-0.375"],        # |x| < 1, x != 0
    "pos": ["0.5", "1", "1.5", "2", "3", "0.75", "1.25"],                                  # x > 0
    "gt1": ["1.5", "2", "3", "1.25", "2.5"],                                               # x > 1
    "real": ["0.5", "-0.5", "1", "-1", "1.5", "-1.25", "0.25", "2", "-0.75"],             # moderate, x != 0
    "frac": ["0.25", "-0.25", "0.75", "-0.75", "1.25", "-1.25", "2.25", "-1.75", "0.375"],  # no integer, no half
}
FUNC_DOMAIN = {"log": "pos", "log10": "pos", "log2": "pos", "sqrt": "pos", "cbrt": "pos", "log1p": "pos", "acosh": "gt1",
               "asin": "unit", "acos": "unit", "atanh": "unit", "tan": "unit", "ceil": "frac", "floor": "frac",
               "round": "frac", "trunc": "frac", "rint": "frac", "nearbyint": "frac"}
# the active FixedArray types of the driver: from rank 3 on FixedArray::advance_index wraps a dimension other than the last
FIXED_DIMS = {"f4": [4], "f23": [2, 3], "f234": [2, 3, 4], "f2232": [2, 2, 3, 2]}
EXT = [1, 2, 3, 4, 5, 9]          # {1,2,3,W-1,W,W+1,2W+1} for W in {2,4}
EXT_W = [5, 6, 6, 4, 4, 2]
MAXCELLS = 260
CORPUS = os.path.join(vbuild.VERIF, "corpus", "C03")


# ------------------------------------------------------------------ generator
class Gen:
    def __init__(self, rng, mix="default"):
        self.r = rng
        self.mix = mix
        self.nxt = 0
        self.info = {}          # handle -> dict(rank, dims, active, root, kind, frozen)
        self.pre = []           # creation / view ops (before nr)
        self.stmts = []
        self.views_used = []
        self.targets = set()
        self.force = {}         # directed cases (sweep_cases): forced parameters of a statement family
        self.pool = []          # directed cases: extents not handed out yet
        self.layouts_used = []  # (statement kind, layout of the left operand, layout of the right operand): max/min, diag_vector, rank 4
        self.meta = []          # per statement: (kind, rank, dims)
        self.pref_dep = []      # views to be used as dependents / independents of the case's Jacobian (s_packed)
        self.pref_indep = []

    def h(self):
        self.nxt += 1
        return self.nxt - 1

    def pick(self, key, choices, weights=None):
        """a discrete parameter of a statement family: forced by a directed case (sweep_cases), random otherwise"""
        if key in self.force:
            return self.force[key]
        return self.r.choices(choices, weights)[0] if weights else self.r.choice(choices)

    def ext(self):
        if "extents" in self.force:
            # directed cases: pairwise different extents > 1, so that a wrong coordinate / dimension cannot cancel
            if not self.pool:
                self.pool = list(self.force["extents"]); self.r.shuffle(self.pool)
            return self.pool.pop()
        return self.r.choices(EXT, EXT_W)[0]

    def dims(self, rank, cap=MAXCELLS):
        if "extents" in self.force:
            return [self.ext() for _ in range(rank)]
        for _ in range(40):
            d = [self.ext() for _ in range(rank)]
            n = 1
            for x in d:
                n *= x
            if n <= cap:
                return d
        return [2] * rank

    def vals(self, n, style="any"):
        r = self.r
        if style == "pow2":
            return [r.choice([1, 2, 4, -1, -2, -4, 2, 1]) for _ in range(n)]
        if style == "prod":
            return [r.choice([1, 2, -1, -2, 3, 1, 2]) for _ in range(n)]
        if style == "distinct":
            v = list(range(-(n // 2), n - n // 2)); r.shuffle(v); return v
        if style in DOMAIN_VALUES:
            return [r.choice(DOMAIN_VALUES[style]) for _ in range(n)]
        return [r.randint(-4, 4) for _ in range(n)]

    def root(self, dims, active, style="any", col=None):
        h = self.h()
        n = 1
        for x in dims:
            n *= x
        col = (self.r.random() < 0.2) if col is None else col
        col = col and len(dims) >= 2
        self.pre.append("%s %d %s%s : %s" % ("av" if active else "pv", h, "col " if col else "", " ".join(map(str, dims)),
                                             " ".join(map(str, self.vals(n, style)))))
        self.info[h] = dict(rank=len(dims), dims=list(dims), active=active, root=h, kind="arr", views=["col" if col else "root"],
                            style=style if style in DOMAIN_VALUES else None)
        return h

    def scalar(self, v=None):
        h = self.h()
        v = self.r.choice([-3, -2, -1, 1, 2, 3, 4]) if v is None else v
        self.pre.append("as %d %d" % (h, v))
        self.info[h] = dict(rank=0, dims=[], active=True, root=h, kind="scal", views=["scalar"])
        return h

    def ivec(self, n, hi, perm=False):
        h = self.h()
        if perm and n == hi:
            v = list(range(hi)); self.r.shuffle(v)
        else:
            v = [self.r.randrange(hi) for _ in range(n)]
        self.pre.append("iv %d : %s" % (h, " ".join(map(str, v))))
        self.info[h] = dict(rank=1, dims=[n], active=False, root=h, kind="ivec", views=[])
        return h

    def fixed(self, which, style="any"):
        h = self.h()
        d = FIXED_DIMS[which]
        n = 1
        for x in d:
            n *= x
        self.pre.append("%s %d : %s" % (which, h, " ".join(map(str, self.vals(n, style)))))
        self.info[h] = dict(rank=len(d), dims=list(d), active=True, root=h, kind=which, views=["fixed"])
        return h

    def derive(self, src, op, dims, tag):
        h = self.h()
        self.pre.append(op % dict(h=h, src=src))
        si = self.info[src]
        self.info[h] = dict(rank=len(dims), dims=list(dims), active=si["active"], root=si["root"], kind="arr",
                            views=si["views"] + [tag])
        return h

    def array(self, dims, active, depth=None, style="any", top=True):
        """an Array handle with extents `dims`: a root or a composition of views over a bigger root.
        soft_link() only as the outermost step: subsetting a storage-less ACTIVE array throws invalid_operation
        (Array(data, storage=0, ...) calls GradientIndex::assert_inactive) — a limitation noted in the report"""
        r = self.r
        depth = r.choice([0, 0, 1, 1, 2, 3]) if depth is None else depth
        rank = len(dims)
        if depth <= 0:
            return self.root(dims, active, style)
        kinds = ["sub", "sub", "rev", "link"] + (["soft"] if top else [])
        if rank == 2:
            kinds += ["T", "T", "slice"]
        if rank in (3, 4):
            kinds += ["perm", "perm"]
        if rank == 3:
            kinds += ["slice"]
        if rank == 1:
            kinds += ["diag", "slice", "slice"]
        k = r.choice(kinds)
        if k in ("sub", "rev"):
            sd, spec = [], []
            for d in dims:
                s = r.choice([1, 1, 2, -1, -1, -2, 3]) if k == "sub" else -1
                lo = r.randint(0, 2) if k == "sub" else 0
                hi_pad = r.randint(0, 2) if k == "sub" else 0
                span = (d - 1) * abs(s)
                n = lo + span + 1 + hi_pad
                if s > 0:
                    spec.append("s%d:%d:%d" % (lo, lo + span, s))
                else:
                    spec.append("s%d:%d:%d" % (lo + span, lo, s))
                sd.append(n)
            tot = 1
            for x in sd:
                tot *= x
            if tot > 2 * MAXCELLS:
                return self.root(dims, active, style)
            src = self.array(sd, active, depth - 1, style, False)
            return self.derive(src, "vw %(h)d %(src)d " + " ".join(spec), dims, "stride" if k == "sub" else "reversed")
        if k == "T":
            src = self.array([dims[1], dims[0]], active, depth - 1, style, False)
            return self.derive(src, "vT %(h)d %(src)d", dims, "T")
        if k == "perm":
            p = self.perm(rank)
            sd = [0] * rank
            for q in range(rank):
                sd[p[q]] = dims[q]
            src = self.array(sd, active, depth - 1, style, False)
            return self.derive(src, "vperm %(h)d %(src)d " + " ".join(map(str, p)), dims, "permute")
        if k == "slice":
            q = r.randint(0, rank)
            m = r.choice([1, 2, 3])
            sd = dims[:q] + [m] + dims[q:]
            tot = m
            for x in dims:
                tot *= x
            if rank + 1 > 4 or tot > 2 * MAXCELLS:
                return self.root(dims, active, style)
            src = self.array(sd, active, depth - 1, style, False)
            spec = ["s0:%d:1" % (d - 1) for d in dims]
            spec.insert(q, "i%d" % r.randrange(m))
            return self.derive(src, "vw %(h)d %(src)d " + " ".join(spec), dims, "slice")
        if k == "diag":
            off = r.choice([0, 0, 1, -1, 2])
            n = dims[0] + abs(off)
            if n * n > 2 * MAXCELLS:
                return self.root(dims, active, style)
            # (over a 1x1 block of a view with cancelling strides diag_vector has stride ZERO: kept in, it found the
            # zero-iteration loops repaired in a27a596)
            src = self.array([n, n], active, depth - 1, style, False)
            return self.derive(src, "vdiag %%(h)d %%(src)d %d" % off, dims, "diag")
        src = self.array(dims, active, depth - 1, style, False)
        return self.derive(src, ("vsoft" if k == "soft" else "vlink") + " %(h)d %(src)d", dims, "soft_link" if k == "soft" else "link")

    def perm(self, rank):
        """a non-identity permutation of the dimensions"""
        while True:
            p = list(range(rank)); self.r.shuffle(p)
            if p != list(range(rank)):
                return tuple(p)

    def operand(self, dims, active=None, avoid=(), style="any", reuse=0.25):
        """an operand with the given extents; sometimes an existing one (sharing / overlap with other operands)"""
        r = self.r
        active = (r.random() < 0.7) if active is None else active
        if style == "any" and r.random() < reuse:
            cands = [h for h, i in self.info.items() if i["kind"] == "arr" and i["dims"] == list(dims) and i["active"] == active
                     and i["root"] not in avoid and not self.info[i["root"]].get("style")]
            if cands:
                return r.choice(cands)
        return self.array(dims, active, None, style)

    def target(self, dims):
        t = self.array(dims, True)
        self.targets.add(t)
        return t

    # ---- statements
    def statement(self):
        r = self.r
        table = STMT_TABLE[self.mix]
        kind = r.choices([k for k, _ in table], [w for _, w in table])[0]
        getattr(self, "s_" + kind)()

    def emit(self, s, kind, dims, t=None):
        self.stmts.append(s)
        self.meta.append((kind, len(dims), tuple(dims)))
        if t is not None:
            self.targets.add(t)

    def rankdims(self, ranks=(1, 1, 2, 2, 3), cap=MAXCELLS):
        rank = self.pick("rank", ranks)
        return self.dims(rank, cap)

    def act(self, key="act"):
        """activeness of an operand: forced by a directed case, random (70 % active) otherwise"""
        return self.force.get(key)

    def s_copy(self):
        d = self.rankdims(); t = self.target(d)
        self.emit("copy %d %d" % (t, self.operand(d, self.act())), "copy", d, t)

    def s_neg(self):
        d = self.rankdims(); t = self.target(d)
        self.emit("neg %d %d" % (t, self.operand(d, True)), "neg", d, t)

    def s_bin(self):
        d = self.rankdims(); t = self.target(d)
        op = self.pick("op", ["add", "sub", "mul", "mul", "div"])
        a = self.operand(d, self.act("acta"))
        b = self.operand(d, self.act("actb"), style="pow2" if op == "div" else "any")
        self.emit("bin %s %d %d %d" % (op, t, a, b), "bin-" + op, d, t)

    def s_bins(self):
        d = self.rankdims(); t = self.target(d); r = self.r
        left = self.pick("left", [True, False])
        op = self.pick("op", ["add", "sub", "mul", "div"])
        if op == "div":
            c = r.choice([2, 4, -2, 8])
            a = self.operand(d, True, style="pow2" if left else "any")
        else:
            c = r.choice([-3, -2, 2, 3, 5]); a = self.operand(d, True)
        if left:
            self.emit("binsl %s %d %d %d" % (op, t, c, a), "scalar-left-" + op, d, t)
        else:
            self.emit("binsr %s %d %d %d" % (op, t, a, c), "scalar-right-" + op, d, t)

    def s_bina(self):
        d = self.rankdims(); t = self.target(d); r = self.r
        op = self.pick("op", ["add", "sub", "mul"]); s = self.scalar(); a = self.operand(d, self.act())
        if self.pick("left", [True, False]):
            self.emit("binal %s %d %d %d" % (op, t, s, a), "adouble-left-" + op, d, t)
        else:
            self.emit("binar %s %d %d %d" % (op, t, a, s), "adouble-right-" + op, d, t)

    def s_nested(self):
        d = self.rankdims(); t = self.target(d); r = self.r
        k = self.pick("k", ["n1", "n2", "n3", "n8"])
        # n8 puts its first operand under noalias(): keep the promise
        a = self.operand(d, True, avoid=(self.info[t]["root"],) if k == "n8" else ())
        self.emit("%s %d %d %d %d" % (k, t, a, self.operand(d), self.operand(d)), "nested-" + k, d, t)

    def s_wrap(self):
        d = self.rankdims(); t = self.target(d); r = self.r
        k = self.pick("k", ["n4", "n5", "n6", "n7"])
        troot = self.info[t]["root"]
        # noalias promises that nothing overlaps the target: keep the promise (C04 owns broken promises)
        avoid = (troot,) if k != "n7" else ()
        a = self.operand(d, True, avoid=avoid); b = self.operand(d, avoid=avoid)
        if k == "n6":
            self.emit("n6 %d %d %d %d" % (t, r.choice([2, -3, 4]), a, b), "noalias-under-scalar", d, t)
        else:
            self.emit("%s %d %d %d" % (k, t, a, b), {"n4": "noalias-under-multiply", "n5": "noalias-top", "n7": "eval"}[k], d, t)

    def s_bcast(self):
        d = self.rankdims(); t = self.target(d); r = self.r
        k = self.pick("k", ["bcp", "bca", "bce"])
        if k == "bcp":
            self.emit("bcp %d %d" % (t, r.randint(-5, 5)), "broadcast-passive", d, t)
        elif k == "bca":
            self.emit("bca %d %d" % (t, self.scalar()), "broadcast-adouble", d, t)
        else:
            self.emit("bce %d %d %d" % (t, self.scalar(), self.scalar()), "broadcast-scalar-expression", d, t)

    def s_passive(self):
        d = self.rankdims(); t = self.target(d)
        if self.pick("k", [True, False]):
            self.emit("copy %d %d" % (t, self.operand(d, False)), "passive-array", d, t)
        else:
            self.emit("bin %s %d %d %d" % (self.r.choice(["add", "mul", "sub"]), t, self.operand(d, False), self.operand(d, False)), "passive-expression", d, t)

    def s_compound(self):
        d = self.rankdims(); t = self.target(d); r = self.r
        troot = self.info[t]["root"]
        op = self.pick("op", ["add", "sub", "mul", "mul", "div"])
        k = self.pick("k", ["cmp", "cmp", "cmps", "cmpa"])
        if k == "cmp":
            a = self.operand(d, self.act(), avoid=(troot,), style="pow2" if op == "div" else "any")
            self.emit("cmp %s %d %d" % (op, t, a), "compound-" + op, d, t)
        elif k == "cmps":
            self.emit("cmps %s %d %d" % (op, t, r.choice([2, 4, -2]) if op == "div" else r.choice([-3, 2, 3])), "compound-scalar-" + op, d, t)
        else:
            # T /= s records 1/s and T/s^2: exact only for a power of two (directed cases; the random choice keeps to + - *)
            op = op if "op" in self.force else r.choice(["add", "sub", "mul"])
            self.emit("cmpa %s %d %d" % (op, t, self.scalar(r.choice([2, -2, 4]) if op == "div" else None)), "compound-adouble-" + op, d, t)

    def s_overlap(self):
        """target and operand are different views of one root whose address ranges touch, overlap in one element, overlap
        widely or are interleaved — the cases that decide Array::is_aliased_() and the temporary copy of the right-hand side"""
        r = self.r
        if r.random() < 0.25:
            # rank 2: a square root against its own transpose / reversed view / shifted block
            m = r.choice([2, 3, 4])
            root = self.root([m, m], True)
            k = r.choice(["T", "rev", "block"])
            if k == "T":
                t = root; a = self.derive(root, "vT %(h)d %(src)d", [m, m], "T"); d = [m, m]
            elif k == "rev":
                t = root; a = self.derive(root, "vw %%(h)d %%(src)d s%d:0:-1 s%d:0:-1" % (m - 1, m - 1), [m, m], "reversed"); d = [m, m]
            else:
                n = m - 1
                t = self.derive(root, "vw %%(h)d %%(src)d s1:%d:1 s1:%d:1" % (m - 1, m - 1), [n, n], "stride")
                a = self.derive(root, "vw %%(h)d %%(src)d s0:%d:1 s0:%d:1" % (m - 2, m - 2), [n, n], "stride")
                if r.random() < 0.5:
                    t, a = a, t
                d = [n, n]
        else:
            n = r.choice([1, 2, 2, 3, 3, 4]); st = r.choice([1, 1, 1, 2]); sa = r.choice([1, 1, -1, 2])
            span_t = (n - 1) * st; span_a = (n - 1) * abs(sa)
            lo_t = r.randint(0, 4)
            # lowest address of the operand relative to the target's range
            rel = r.choice(["end_touch", "end_touch", "end_gap", "begin_touch", "begin_touch", "begin_gap", "shift1", "shift1", "same", "inter"])
            lo_a = {"end_touch": lo_t - span_a, "end_gap": lo_t - span_a - 1, "begin_touch": lo_t + span_t, "begin_gap": lo_t + span_t + 1,
                    "shift1": lo_t + r.choice([-1, 1]), "same": lo_t, "inter": lo_t + 1}[rel]
            if lo_a < 0:
                lo_t -= lo_a; lo_a = 0
            N = max(lo_t + span_t, lo_a + span_a) + 1 + r.randint(0, 2)
            root = self.root([N], True, "distinct")
            t = self.derive(root, "vw %%(h)d %%(src)d s%d:%d:%d" % (lo_t, lo_t + span_t, st), [n], "stride")
            if sa > 0:
                a = self.derive(root, "vw %%(h)d %%(src)d s%d:%d:%d" % (lo_a, lo_a + span_a, sa), [n], "stride")
            else:
                a = self.derive(root, "vw %%(h)d %%(src)d s%d:%d:%d" % (lo_a + span_a, lo_a, sa), [n], "reversed")
            d = [n]
        self.targets.add(t)
        k = r.choice(["copy", "neg", "binsl", "bin", "bin2", "n1"])
        if k == "copy":
            self.emit("copy %d %d" % (t, a), "overlap-copy", d, t)
        elif k == "neg":
            self.emit("neg %d %d" % (t, a), "overlap-neg", d, t)
        elif k == "binsl":
            self.emit("binsl mul %d %d %d" % (t, r.choice([-3, 2, 3]), a), "overlap-scalar-mul", d, t)
        elif k == "bin":
            self.emit("bin %s %d %d %d" % (r.choice(["add", "sub", "mul"]), t, a, self.operand(d, reuse=0)), "overlap-bin", d, t)
        elif k == "bin2":
            self.emit("bin %s %d %d %d" % (r.choice(["add", "mul"]), t, self.operand(d, reuse=0), a), "overlap-bin", d, t)
        else:
            self.emit("n1 %d %d %d %d" % (t, a, self.operand(d, reuse=0), a), "overlap-nested", d, t)

    def s_packed(self):
        """rank-2/3 views in which each dimension independently is the whole root extent, a leading/trailing part of it,
        strided or reversed — the patterns that decide "is this view one linear run of memory / of gradient indices?"
        (Array::push_gradient_indices, is_contiguous-style fast paths).  Target and operand are registered as preferred
        dependents / independents of the case's Jacobian, so Stack::independent(view) and dependent(view) are exercised."""
        r = self.r
        rank = r.choice([2, 3, 3])
        d = [r.choice([1, 2, 2, 3]) for _ in range(rank)]

        def embed():
            rootd, spec = [], []
            for n in d:
                mode = r.choice(["full", "full", "full", "head", "tail", "stride2", "rev"])
                pad = r.randint(1, 2)
                if mode == "full":
                    rootd.append(n); spec.append("s0:%d:1" % (n - 1))
                elif mode == "head":
                    rootd.append(n + pad); spec.append("s0:%d:1" % (n - 1))
                elif mode == "tail":
                    rootd.append(n + pad); spec.append("s%d:%d:1" % (pad, pad + n - 1))
                elif mode == "stride2":
                    rootd.append(2 * n - 1 + (pad - 1)); spec.append("s0:%d:2" % (2 * (n - 1)))
                else:
                    rootd.append(n); spec.append("s%d:0:-1" % (n - 1))
            root = self.root(rootd, True, "distinct")
            return self.derive(root, "vw %(h)d %(src)d " + " ".join(spec), d, "stride")
        t = embed(); a = embed()
        self.targets.add(t)
        self.pref_dep.append(t); self.pref_indep.append(a)
        k = r.choice(["copy", "binsl", "bin"])
        if k == "copy":
            self.emit("copy %d %d" % (t, a), "packed-copy", d, t)
        elif k == "binsl":
            self.emit("binsl mul %d %d %d" % (t, r.choice([-3, 2, 3]), a), "packed-scalar-mul", d, t)
        else:
            self.emit("bin %s %d %d %d" % (r.choice(["add", "mul"]), t, a, self.operand(d, reuse=0)), "packed-bin", d, t)

    def s_where(self):
        d = self.rankdims((1, 1, 2, 2)); t = self.target(d); r = self.r
        troot = self.info[t]["root"]
        k = self.pick("k", ["whr", "whr", "whrs", "wheo", "wheo", "wheos"])
        # the mask is evaluated lazily while the target is written (F-25, a C04 matter): keep it off the target
        if k in ("whr", "whrs"):
            a = self.operand(d, avoid=(troot,)); b = self.operand(d, avoid=(troot,))
            if k == "whr":
                self.emit("whr %d %d %d %d" % (t, a, b, self.operand(d)), "where", d, t)
            else:
                self.emit("whrs %d %d %d %d" % (t, a, b, r.randint(-5, 5)), "where-scalar", d, t)
        else:
            p = self.operand(d, avoid=(troot,)); c = r.randint(-2, 2)
            # either_or runs two passes (where.h); an operand that overlaps the target at other positions is read in the
            # second pass after the first has written (value semantics under aliasing: C04) — keep operands off the target
            if k == "wheo":
                self.emit("wheo %d %d %d %d %d" % (t, p, c, self.operand(d, avoid=(troot,)), self.operand(d, avoid=(troot,))), "either_or", d, t)
            else:
                self.emit("wheos %d %d %d %d %d" % (t, p, c, self.operand(d, avoid=(troot,)), r.randint(-5, 5)), "either_or-scalar", d, t)

    def s_indexed(self):
        r = self.r
        k = self.pick("k", ["ixt", "ixe", "ixts", "ixtc", "ixs", "ixss", "ixtt", "ixcmp", "ixt2", "ixe2", "ixs2", "ixts2"])
        if k in ("ixt2", "ixe2", "ixs2", "ixts2"):
            D = self.dims(2, 80); m0 = r.choice([1, 2, 3, D[0]]); m1 = r.choice([1, 2, 3, D[1]])
            if k == "ixs2":
                t = self.target([m0, m1]); a = self.operand(D)
                i = self.ivec(m0, D[0]); j = self.ivec(m1, D[1])
                self.emit("ixs2 %d %d %d %d" % (t, a, i, j), "indexed-source-2", [m0, m1], t)
                return
            t = self.target(D)
            i = self.ivec(m0, D[0], perm=r.random() < 0.6); j = self.ivec(m1, D[1], perm=r.random() < 0.6)
            if k == "ixt2":
                self.emit("ixt2 %d %d %d %d" % (t, i, j, self.operand([m0, m1])), "indexed-target-2", D, t)
            elif k == "ixe2":
                self.emit("ixe2 %d %d %d %d %d" % (t, i, j, self.operand([m0, m1], True), self.operand([m0, m1])), "indexed-target-2-expression", D, t)
            else:
                self.emit("ixts2 %d %d %d %d" % (t, i, j, self.scalar()), "indexed-target-2-adouble", D, t)
            return
        n = self.ext(); m = r.choice([1, 2, 3, n, n])
        if k in ("ixs", "ixss"):
            t = self.target([m]); a = self.operand([n]); i = self.ivec(m, n)
            if k == "ixs":
                self.emit("ixs %d %d %d" % (t, a, i), "indexed-source", [m], t)
            else:
                self.emit("ixss %d %d %d %d" % (t, a, i, self.operand([m])), "indexed-source-expression", [m], t)
            return
        t = self.target([n]); i = self.ivec(m, n, perm=r.random() < 0.6)
        troot = self.info[t]["root"]
        if k == "ixt":
            self.emit("ixt %d %d %d" % (t, i, self.operand([m])), "indexed-target", [n], t)
        elif k == "ixe":
            self.emit("ixe %d %d %d %d" % (t, i, self.operand([m], True), self.operand([m])), "indexed-target-expression", [n], t)
        elif k == "ixts":
            self.emit("ixts %d %d %d" % (t, i, self.scalar()), "indexed-target-adouble", [n], t)
        elif k == "ixtc":
            self.emit("ixtc %d %d %d" % (t, i, r.randint(-5, 5)), "indexed-target-passive-scalar", [n], t)
        elif k == "ixtt":
            n2 = self.ext(); a = self.operand([n2]); j = self.ivec(m, n2)
            self.emit("ixtt %d %d %d %d" % (t, i, a, j), "indexed-both", [n], t)
        else:
            op = self.pick("op", ["add", "sub", "mul"])
            # repeated indices in a compound indexed assignment read elements the statement has already written
            i = self.ivec(m if m <= n else n, n, perm=True) if m == n else i
            self.emit("ixcmp %s %d %d %d" % (op, t, i, self.operand([m], avoid=(troot,))), "indexed-compound", [n], t)

    def s_reduce(self):
        r = self.r
        f = self.pick("f", ["sum", "sum", "mean", "product", "minval", "maxval", "norm2"])
        d = self.rankdims((1, 1, 2, 3), 64 if f != "product" else 20)
        if f == "mean" and r.random() < 0.7 and "extents" not in self.force:
            d = [r.choice([1, 2, 4, 8])] if len(d) == 1 else [r.choice([1, 2, 4]) for _ in d]
        s = self.scalar(0)
        style = "prod" if f in ("product", "norm2") else "distinct" if f in ("minval", "maxval") and r.random() < 0.7 else "any"
        k = self.pick("k", ["red", "red", "rede", "dot"])
        if k == "dot" or (k == "rede" and len(d) == 1 and r.random() < 0.5 and "k" not in self.force):
            n = [d[0]]
            self.emit("dot %d %d %d" % (s, self.operand(n, True), self.operand(n)), "dot_product", n, s)
        elif k == "red":
            a = self.operand(d, True, style=style, reuse=0.0 if style != "any" else 0.25)
            self.emit("red %s %d %d" % (f, s, a), "reduce-" + f, d, s)
        else:
            a = self.operand(d, True, style=style, reuse=0.0 if style != "any" else 0.25)
            b = self.operand(d, style="prod" if f == "product" else "any")
            self.emit("rede %s %d %d %d" % (f, s, a, b), "reduce-expression-" + f, d, s)

    def s_rdim(self):
        r = self.r
        f = self.pick("f", ["sum", "sum", "mean", "product", "minval", "maxval", "norm2"])
        d = self.rankdims((2, 2, 3), 120)
        dim = self.force["dim"] if "dim" in self.force else r.randrange(len(d))
        if f == "product" and d[dim] > 5:
            d[dim] = r.choice([1, 2, 3])
        if f == "mean" and r.random() < 0.7 and "extents" not in self.force:
            d[dim] = r.choice([1, 2, 4, 8])
        style = "prod" if f in ("product", "norm2") else "any"
        a = self.operand(d, True, style=style, reuse=0.0 if style != "any" else 0.25)
        nh = self.h()
        nd = d[:dim] + d[dim + 1:]
        self.info[nh] = dict(rank=len(nd), dims=nd, active=True, root=nh, kind="arr", views=["root"], late=True)
        if self.pick("k", ["rdim", "rdim", "rdim", "rdime"]) == "rdim":
            self.emit("rdim %s %d %d %d" % (f, nh, a, dim), "reduce-dim-" + f, d, None)
        else:
            self.emit("rdime %s %d %d %d %d" % (f, nh, a, self.operand(d, style=style), dim), "reduce-dim-expression-" + f, d, None)
        self.targets.add(nh)

    def s_products(self):
        r = self.r
        k = r.choice(["outer", "outx", "outx", "spr", "spr", "spre"])
        if self.force.get("spr"):
            k = self.force["spr"][0]
        if self.force.get("outer"):
            k = "outer"
        if self.force.get("outx"):
            k = "outx"
        if k == "outx":
            # outer_product as a SUB-expression: the enclosing operation hands it a multiplier (scalar factor, array factor,
            # sign of a subtraction, the other factor of a compound product, the derivative of a function)
            n, m = self.ext(), self.ext(); t = self.target([n, m])
            form, (la, ra) = self.force.get("outx") or (r.choice(["sl", "sr", "neg", "al", "ar", "cadd", "csub", "cmul", "fexp"]),
                                                       r.choice([(None, True), (True, None), (True, True), (True, False), (False, True)]))
            a, b = self.operand([n], la), self.operand([m], ra)
            if form in ("sl", "sr"):
                self.emit("outx %s %d %d %d %s" % (form, t, a, b, r.choice(["3", "-2", "0.5", "-1"])), "outer_product-nested-" + form, [n, m], t)
            elif form in ("al", "ar"):
                self.emit("outx %s %d %d %d %d" % (form, t, a, b, self.operand([n, m])), "outer_product-nested-" + form, [n, m], t)
            else:
                self.emit("outx %s %d %d %d" % (form, t, a, b), "outer_product-nested-" + form, [n, m], t)
            return
        if k == "outer":
            n, m = self.ext(), self.ext(); t = self.target([n, m])
            # activity of the two vectors: active x active, passive x active, active x passive (each operand's n_active counts)
            la, ra = self.force.get("outer") or r.choice([(None, True), (None, True), (True, False)])
            self.emit("outer %d %d %d" % (t, self.operand([n], la), self.operand([m], ra)), "outer_product", [n, m], t)
            return
        rank = r.choice([1, 1, 2]) if k == "spr" else 1
        d = self.dims(rank, 40); sd = r.randint(0, rank); n = r.choice([1, 2, 3, 4, 5])
        if self.force.get("spr"):
            k, rank, sd = self.force["spr"]
            d = r.sample([2, 3, 4, 5], rank); n = r.choice([2, 3])      # pairwise different extents > 1: a wrong coordinate cannot cancel
        td = d[:sd] + [n] + d[sd:]
        t = self.target(td); a = self.operand(d, True if r.random() < 0.8 else False)
        if k == "spr":
            self.emit("spr %d %d %d %d" % (sd, t, a, n), "spread", td, t)
        else:
            self.emit("spre %d %d %d %d %d" % (sd, t, a, n, self.operand(td)), "spread-in-expression", td, t)

    def s_element(self):
        r = self.r
        d = self.rankdims((1, 2, 3), 60)
        ix = lambda: " ".join(str(r.randrange(x)) for x in d)
        k = self.pick("k", ["elr", "elrc", "elw", "elc", "elcp", "elx"])
        if k in ("elr", "elrc"):
            s = self.scalar(0); a = self.operand(d, True)
            self.emit("%s %d %d : %s" % (k, s, a, ix()), "element-read", d, s)
        elif k == "elw":
            a = self.target(d)
            self.emit("elw %d %d %d : %s" % (a, self.scalar(), self.scalar(), ix()), "element-write", d, a)
        elif k == "elc":
            a = self.target(d)
            self.emit("elc %s %d %d : %s" % (self.pick("op", ["add", "sub", "mul"]), a, self.scalar(), ix()), "element-compound", d, a)
        elif k == "elcp":
            a = self.target(d); b = self.operand(d, True)
            self.emit("elcp %d %d : %s : %s" % (a, b, ix(), ix()), "element-copy", d, a)
        else:
            s = self.scalar(0)
            self.emit("elx %d %d %d : %s : %s" % (s, self.operand(d, True), self.operand(d, True), ix(), ix()), "element-expression", d, s)

    def s_float(self):
        r = self.r
        d = self.rankdims((1, 2), 30); t = self.target(d)
        k = r.choice(["fsin", "fexpm", "fsqrt"])
        if k == "fsqrt":
            h = self.h(); n = 1
            for x in d:
                n *= x
            self.pre.append("av %d %s : %s" % (h, " ".join(map(str, d)), " ".join(str(r.choice([1, 4, 9, 16, 2, 3])) for _ in range(n))))
            self.info[h] = dict(rank=len(d), dims=list(d), active=True, root=h, kind="arr", views=["root"], nouse=True)
            self.emit("fsqrt %d %d" % (t, h), "float-sqrt", d, t)
        elif k == "fsin":
            self.emit("fsin %d %d" % (t, self.operand(d, True)), "float-sin", d, t)
        else:
            self.emit("fexpm %d %d %d" % (t, self.operand(d, True), self.operand(d)), "float-exp-times", d, t)

    def layout(self, dims, active, kind, style="any"):
        """an array with extents `dims` in a prescribed memory layout: row-major root, column-major root, transposed /
        permuted / reversed / strided / sliced view of a fresh root, or ("any") whatever array() composes"""
        r = self.r; rank = len(dims)
        active = (r.random() < 0.7) if active is None else active
        if kind == "any":
            return self.array(dims, active, None, style)
        if kind == "root" or (kind == "col" and rank < 2) or (kind == "T" and rank != 2) or (kind == "perm" and rank < 3) \
                or (kind == "slice" and rank > 3):
            return self.root(dims, active, style, col=False)
        if kind == "col":
            return self.root(dims, active, style, col=True)
        if kind == "T":
            src = self.root([dims[1], dims[0]], active, style, col=r.random() < 0.3)
            return self.derive(src, "vT %(h)d %(src)d", dims, "T")
        if kind == "perm":
            p = self.perm(rank)
            sd = [0] * rank
            for q in range(rank):
                sd[p[q]] = dims[q]
            src = self.root(sd, active, style, col=False)
            return self.derive(src, "vperm %(h)d %(src)d " + " ".join(map(str, p)), dims, "permute")
        if kind == "slice":
            q = r.randint(0, rank); m = r.choice([2, 3])
            src = self.root(dims[:q] + [m] + dims[q:], active, style, col=False)
            spec = ["s0:%d:1" % (x - 1) for x in dims]
            spec.insert(q, "i%d" % r.randrange(m))
            return self.derive(src, "vw %(h)d %(src)d " + " ".join(spec), dims, "slice")
        # "rev": every dimension reversed; "stride": stride 2 or 3 (either sign) with padding at both ends
        sd, spec = [], []
        for x in dims:
            st = -1 if kind == "rev" else r.choice([2, 3, -2])
            lo = 0 if kind == "rev" else r.randint(0, 1); pad = 0 if kind == "rev" else r.randint(0, 1)
            span = (x - 1) * abs(st)
            spec.append("s%d:%d:%d" % ((lo, lo + span, st) if st > 0 else (lo + span, lo, st)))
            sd.append(lo + span + 1 + pad)
        src = self.root(sd, active, style, col=False)
        return self.derive(src, "vw %(h)d %(src)d " + " ".join(spec), dims, "reversed" if kind == "rev" else "stride")

    LAYOUT_PAIRS = {1: [("root", "rev"), ("root", "stride"), ("stride", "rev"), ("slice", "root"), ("rev", "stride")],
                    2: [("root", "T"), ("T", "root"), ("root", "col"), ("col", "T"), ("stride", "rev"), ("slice", "T"), ("rev", "root")],
                    3: [("root", "perm"), ("perm", "col"), ("col", "root"), ("stride", "perm"), ("rev", "root")],
                    4: [("root", "perm"), ("perm", "col"), ("stride", "rev"), ("slice", "perm")]}

    def s_maxmin(self):
        """element-wise max/min/fmax/fmin (policy classes Max, Min) and abs/fabs.  The two operands get DIFFERENT memory
        layouts in most cases: each is read — for the value and for the comparison that decides which operand receives the
        derivative — at its own location.  Integers in [-4, 4]: ties occur and follow the rule of is_left."""
        r = self.r
        k = self.pick("k", ["mm", "mm", "mm", "mm", "mmsl", "mmsr", "mmal", "mmar", "mmn1", "mmn2", "mmred", "ab", "abn"])
        fn = self.pick("fn", ["max", "min", "fmax", "fmin"])
        maxrank = 2 if k in ("mmn1", "mmn2", "mmred") else 3
        d = self.rankdims((1, 2, 2, 3) if maxrank == 3 else (1, 2, 2), 120)
        rank = len(d)
        la, lb = self.pick("layouts", self.LAYOUT_PAIRS[rank] + [("any", "any")] * 3)
        self.layouts_used.append(("maxmin", la, lb))
        if k == "mmred":
            s_ = self.scalar(0)
            a = self.layout(d, True, la); b = self.layout(d, self.act("actb"), lb)
            self.emit("mmred %s %d %d %d" % (fn, s_, a, b), "maxmin-sum-" + ac.MAXMIN[fn], d, s_)
            return
        t = self.target(d)
        if k == "mm":
            acta, actb = self.pick("acts", [(True, True), (True, True), (True, False), (False, True), (False, False)],
                                   [6, 6, 4, 4, 1])
            a = self.layout(d, acta, la); b = self.layout(d, actb, lb)
            self.emit("mm %s %d %d %d" % (fn, t, a, b), "maxmin-" + fn, d, t)
        elif k in ("mmsl", "mmsr"):
            a = self.layout(d, True, la); c = r.randint(-3, 3)
            self.emit(("mmsl %s %d %d %d" % (fn, t, c, a)) if k == "mmsl" else ("mmsr %s %d %d %d" % (fn, t, a, c)),
                      "maxmin-scalar-%s-%s" % ("left" if k == "mmsl" else "right", ac.MAXMIN[fn]), d, t)
        elif k in ("mmal", "mmar"):
            a = self.layout(d, self.act(), la); sc = self.scalar(r.randint(-3, 3))
            self.emit(("mmal %s %d %d %d" % (fn, t, sc, a)) if k == "mmal" else ("mmar %s %d %d %d" % (fn, t, a, sc)),
                      "maxmin-adouble-%s-%s" % ("left" if k == "mmal" else "right", ac.MAXMIN[fn]), d, t)
        elif k in ("mmn1", "mmn2"):
            a = self.layout(d, True, la); b = self.layout(d, self.act("actb"), lb); c = self.layout(d, self.act("actc"), r.choice([la, lb, "any"]))
            self.emit("%s %s %d %d %d %d" % (k, fn, t, a, b, c), "maxmin-nested-%s-%s" % (k[-1], ac.MAXMIN[fn]), d, t)
        elif k == "ab":
            f = self.pick("absfn", ["abs", "fabs"])
            self.emit("ab %s %d %d" % (f, t, self.layout(d, True, la)), "abs", d, t)
        else:
            f = self.pick("absfn", ["abs", "fabs"])
            self.emit("abn %s %d %d %d" % (f, t, self.layout(d, True, la), self.layout(d, self.act("actb"), lb)), "abs-nested", d, t)

    def s_funcs(self):
        """Float regime (oracle only): every element-wise function of ADEPT_DEF_UNARY_FUNC and the binary pow / atan2 on
        active arrays of any layout, plain and as `f(A*B)*B`; arguments inside the open domain of the function"""
        r = self.r
        k = self.pick("k", ["ffn", "ffn", "ffn", "ffnn", "ffnn", "ffb", "ffbl", "ffbr", "ffbn"])
        d = self.rankdims((1, 2), 30); t = self.target(d)
        lay = lambda: self.pick("layout", ["any", "any", "root", "T", "rev", "stride", "col"])
        if k in ("ffn", "ffnn"):
            name = self.pick("name", ac.FLOAT_FUNCS)
            st = FUNC_DOMAIN.get(name, "real")
            a = self.layout(d, True, lay(), st)
            if k == "ffn":
                self.emit("ffn %s %d %d" % (name, t, a), "function-" + name, d, t)
            else:
                self.emit("ffnn %s %d %d %d" % (name, t, a, self.layout(d, True, lay(), st)), "function-nested-" + name, d, t)
            return
        f = self.pick("name", ["pow", "atan2"])
        if k == "ffbn":
            a = self.layout(d, True, lay(), "pos" if f == "pow" else "real")
            self.emit("ffbn %s %d %d %d" % (f, t, a, self.layout(d, True, lay(), "real")), "function-nested-" + f, d, t)
        elif k == "ffb":
            acta, actb = self.pick("acts", [(True, True), (True, False), (False, True)])
            a = self.layout(d, acta, lay(), "pos" if f == "pow" else "real")
            b = self.layout(d, actb, lay(), "real")
            self.emit("ffb %s %d %d %d" % (f, t, a, b), "function-" + f, d, t)
        elif k == "ffbl" or f == "atan2":
            a = self.layout(d, True, lay(), "real")
            self.emit("ffbl %s %d %s %d" % (f, t, r.choice(["0.5", "2", "1.5", "3"]), a), "function-%s-scalar-left" % f, d, t)
        else:
            a = self.layout(d, True, lay(), "pos")
            self.emit("ffbr pow %d %d %s" % (t, a, r.choice(["2", "0.5", "-1", "2.5", "3"])), "function-pow-scalar-right", d, t)

    def s_diagx(self):
        """N = diag_vector(A*B + A, k) of an active rank-2 expression: k of both signs, non-square extents, operands of any
        layout (reduce.h section 5; F-69, F-71)"""
        r = self.r
        if "extents" in self.force:
            d = self.dims(2)
        else:
            d = [r.choice([1, 2, 3, 4, 5]), r.choice([1, 2, 3, 4, 5])]
        k = self.force["diag"] if "diag" in self.force else r.randint(-(d[0] - 1), d[1] - 1)
        k = max(-(d[0] - 1), min(d[1] - 1, k))
        la, lb = self.pick("layouts", self.LAYOUT_PAIRS[2] + [("any", "any")] * 3)
        self.layouts_used.append(("diag_vector", la, lb))
        a = self.layout(d, True, la); b = self.layout(d, self.act("actb"), lb)
        nh = self.h()
        n = min(d[0], d[1] - k) if k >= 0 else min(d[0] + k, d[1])
        self.info[nh] = dict(rank=1, dims=[n], active=True, root=nh, kind="arr", views=["root"], late=True)
        self.emit("dvx %d %d %d %d" % (nh, a, b, k), "diag_vector-expression", d, None)
        self.targets.add(nh)

    def s_rank4(self):
        """rank-4 targets and operands (drv_arrayad_s9.cpp): the theorems are rank-generic, parts 1..8 of the driver stop at 3"""
        r = self.r
        k = self.pick("k", ["copy", "neg", "bin", "bin", "binsl", "binsr", "cmp", "n1", "mm", "mm", "red", "rdim", "spr"])
        if k in ("red", "rdim"):
            f = self.pick("f", ["sum", "sum", "mean", "product", "minval", "maxval", "norm2"])
            d = self.dims(4, 24 if f == "product" else 120)
            style = "prod" if f in ("product", "norm2") else "any"
            a = self.operand(d, True, style=style, reuse=0.0)
            if k == "red":
                s_ = self.scalar(0)
                self.emit("red %s %d %d" % (f, s_, a), "reduce-" + f, d, s_)
                return
            dim = self.force["dim"] if "dim" in self.force else r.randrange(4)
            nh = self.h(); nd = d[:dim] + d[dim + 1:]
            self.info[nh] = dict(rank=3, dims=nd, active=True, root=nh, kind="arr", views=["root"], late=True)
            self.emit("rdim %s %d %d %d" % (f, nh, a, dim), "reduce-dim-" + f, d, None)
            self.targets.add(nh)
            return
        if k == "spr":
            d = self.dims(3, 60); sd = self.force["sd"] if "sd" in self.force else r.randint(0, 3); n = r.choice([2, 3]) if "extents" in self.force else r.choice([1, 2, 3])
            td = d[:sd] + [n] + d[sd:]
            t = self.target(td)
            self.emit("spr %d %d %d %d" % (sd, t, self.operand(d, True if r.random() < 0.8 else False), n), "spread", td, t)
            return
        d = self.dims(4, 160); t = self.target(d); troot = self.info[t]["root"]
        la, lb = self.pick("layouts", self.LAYOUT_PAIRS[4] + [("any", "any")] * 4)
        self.layouts_used.append(("rank4", la, lb))
        op = self.pick("op", ["add", "sub", "mul", "mul", "div"])
        if k in ("copy", "neg"):
            self.emit("%s %d %d" % (k, t, self.layout(d, self.act() if k == "copy" else True, la)), k, d, t)
        elif k == "bin":
            a = self.layout(d, self.act("acta"), la); b = self.layout(d, self.act("actb"), lb, "pow2" if op == "div" else "any")
            self.emit("bin %s %d %d %d" % (op, t, a, b), "bin-" + op, d, t)
        elif k in ("binsl", "binsr"):
            left = k == "binsl"
            c = r.choice([2, 4, -2, 8]) if op == "div" else r.choice([-3, -2, 2, 3, 5])
            a = self.layout(d, True, la, "pow2" if (op == "div" and left) else "any")
            self.emit(("binsl %s %d %d %d" % (op, t, c, a)) if left else ("binsr %s %d %d %d" % (op, t, a, c)),
                      "scalar-%s-%s" % ("left" if left else "right", op), d, t)
        elif k == "cmp":
            a = self.layout(d, self.act(), la, "pow2" if op == "div" else "any")
            self.emit("cmp %s %d %d" % (op, t, a), "compound-" + op, d, t)
        elif k == "n1":
            self.emit("n1 %d %d %d %d" % (t, self.layout(d, True, la), self.layout(d, None, lb), self.layout(d, None, "any")), "nested-n1", d, t)
        else:
            fn = self.pick("fn", ["max", "min", "fmax", "fmin"])
            acta, actb = self.pick("acts", [(True, True), (True, False), (False, True)])
            self.emit("mm %s %d %d %d" % (fn, t, self.layout(d, acta, la), self.layout(d, actb, lb)), "maxmin-" + fn, d, t)

    def s_fixed(self):
        r = self.r
        which = self.pick("which", ["f4", "f23", "f234", "f234", "f2232"]); d = list(FIXED_DIMS[which])
        k = self.pick("k", ["fxcopy", "fxbin", "fxsrc", "fxff", "fxbcp", "fxbca", "fxcmp", "fxred"])
        op = self.pick("op", ["add", "sub", "mul"])
        if k == "fxred" and len(d) > 2 and self.force.get("f", "") in ("", "product"):
            # 24 factors: keep the product inside the exact regime
            f = self.fixed(which, "prod"); s = self.scalar(0)
            self.emit("fxred %s %d %d" % (self.pick("f", ["sum", "product", "maxval", "mean", "minval"]), s, f), "fixed-reduce", d, s)
            self.targets.add(s)
            return
        if k == "fxsrc":
            t = self.target(d); f = self.fixed(which)
            self.emit("fxsrc %s %d %d %d" % (op, t, f, self.operand(d)), "fixed-source", d, t)
            return
        f = self.fixed(which)
        if k == "fxcopy":
            self.emit("fxcopy %d %d" % (f, self.operand(d)), "fixed-target-copy", d, f)
        elif k == "fxbin":
            self.emit("fxbin %s %d %d %d" % (op, f, self.operand(d, True), self.operand(d)), "fixed-target-expression", d, f)
        elif k == "fxff":
            self.emit("fxff %s %d %d %d" % (op, f, self.fixed(which), self.fixed(which)), "fixed-all", d, f)
        elif k == "fxbcp":
            self.emit("fxbcp %d %d" % (f, r.randint(-5, 5)), "fixed-broadcast-passive", d, f)
        elif k == "fxbca":
            self.emit("fxbca %d %d" % (f, self.scalar()), "fixed-broadcast-adouble", d, f)
        elif k == "fxcmp":
            self.emit("fxcmp %s %d %d" % (op, f, self.operand(d)), "fixed-compound", d, f)
        else:
            s = self.scalar(0)
            self.emit("fxred %s %d %d" % (self.pick("f", ["sum", "product", "maxval", "mean", "minval"]), s, f), "fixed-reduce", d, s)
            self.targets.add(s)
            return
        self.targets.add(f)

    def case(self, nstmt):
        for _ in range(nstmt):
            self.statement()
        # Jacobian request: independents among the initial active roots, dependents among the targets' roots
        roots = [h for h, i in self.info.items() if i["active"] and i["root"] == h and not i.get("late") and i["kind"] != "ivec"]
        size = lambda h: max(1, eval("*".join(map(str, self.info[h]["dims"])) or "1"))
        self.r.shuffle(roots)
        indep, n = [], 0
        # views as independents: only if nothing writes to their root (every cell is still an input), one view per root
        troots = set(self.info[t]["root"] for t in self.targets)
        for h in self.pref_indep:
            rt = self.info[h]["root"]
            if rt not in troots and rt in roots and n + size(h) <= 60 and len(indep) < 2:
                indep.append(h); n += size(h); roots.remove(rt)
        for h in roots:
            if n + size(h) <= 60 and len(indep) < 4:
                indep.append(h); n += size(h)
        deps, m = [], 0
        tl = sorted(self.targets); self.r.shuffle(tl)
        tl = [h for h in self.pref_dep if h in self.targets] + [h for h in tl if h not in self.pref_dep]
        for h in tl:
            if m + size(h) <= 60 and len(deps) < 4:
                deps.append(h); m += size(h)
        ops = ["cfg"] + self.pre + ["nr"] + self.stmts
        if indep and deps:
            ops += ["geom %d" % h for h in indep + deps]
            ops.append("jac : %s : %s" % (" ".join(map(str, indep)), " ".join(map(str, deps))))
        ops.append("ev")
        return ops


STMT_TABLE = {
    "default": [("copy", 4), ("neg", 2), ("bin", 9), ("bins", 5), ("bina", 4), ("nested", 6), ("wrap", 6), ("bcast", 5),
                ("passive", 4), ("compound", 8), ("where", 8), ("indexed", 9), ("reduce", 8), ("rdim", 7), ("products", 5),
                ("element", 5), ("float", 1), ("fixed", 5), ("overlap", 9), ("packed", 6), ("maxmin", 9), ("funcs", 4),
                ("diagx", 2), ("rank4", 6)],
    "fixed-indexed": [("indexed", 10), ("fixed", 8), ("where", 3), ("compound", 2), ("bin", 2), ("rdim", 2), ("reduce", 2)],
}


def gen_case(rng, mix="default"):
    g = Gen(rng, mix)
    ops = g.case(rng.choice([1, 2, 2, 3, 3, 4]))
    return ops, g


def directed(rng, method, extents=(2, 3, 4, 5), **force):
    """one single-statement case of family `method` with the given discrete parameters forced and pairwise different
    extents > 1 (a wrong coordinate, dimension or stride cannot cancel)"""
    g = Gen(rng, "default")
    g.force.update(force)
    if extents:
        g.force["extents"] = list(extents)
    getattr(g, "s_" + method)()
    g.force.clear()
    return (g.case(0), g)


def sweep_cases(rng, tier="quick"):
    """directed cases run in EVERY run: the discrete parameter combinations of each statement family that the weighted random
    choice reaches too rarely to rely on.  One statement per case, pairwise different extents > 1, operands and targets in
    random layouts (array()) unless the layout is the swept parameter."""
    out = []
    D = lambda *a, **kw: out.append(directed(rng, *a, **kw))
    OPS4 = ["add", "sub", "mul", "div"]; OPS3 = ["add", "sub", "mul"]
    FUNS = ["sum", "mean", "product", "minval", "maxval", "norm2"]
    fext = lambda f: (2, 4, 8) if f == "mean" else (2, 3, 4) if f == "product" else (2, 3, 4, 5)
    # spread<d>(A, n): every rank of A and every position d of the new dimension (plain and inside an expression)
    for k, rank in (("spr", 1), ("spr", 2), ("spre", 1)):
        for sd in range(rank + 1):
            out.append(directed(rng, "products", extents=None, spr=(k, rank, sd)))
    # outer_product: every activity pattern of the two vectors
    for pat in ((True, True), (False, True), (True, False)):
        for _ in range(2):
            D("products", extents=(2, 3, 4, 5), outer=pat)
    # outer_product nested in an enclosing operation: every form x every activity pattern
    for form in ("sl", "sr", "neg", "al", "ar", "cadd", "csub", "cmul", "fexp"):
        for pat in ((True, True), (False, True), (True, False)):
            D("products", extents=(2, 3, 4, 5), outx=(form, pat))
    # reductions: function x rank (whole array, plain and of an expression), function x rank x dimension (plain and expression)
    for f in FUNS:
        for rank in (1, 2, 3):
            for k in ("red", "rede"):
                D("reduce", extents=fext(f), f=f, rank=rank, k=k)
        for rank in (2, 3):
            for dim in range(rank):
                for k in ("rdim", "rdime"):
                    D("rdim", extents=fext(f), f=f, rank=rank, dim=dim, k=k)
    D("reduce", k="dot", f="sum", rank=1)
    # where / either_or variants x rank
    for k in ("whr", "whrs", "wheo", "wheos"):
        for rank in (1, 2):
            D("where", k=k, rank=rank)
    # integer-vector indexing: every kind (compound: every operator)
    for k in ("ixt", "ixe", "ixts", "ixtc", "ixs", "ixss", "ixtt", "ixt2", "ixe2", "ixs2", "ixts2"):
        D("indexed", k=k)
    for op in OPS3:
        D("indexed", k="ixcmp", op=op)
    # compound assignment: operator x kind of right-hand side (active array, passive array, passive scalar, adouble) x rank
    for rank in (1, 2, 3):
        for op in OPS4:
            D("compound", k="cmp", op=op, act=True, rank=rank)
            D("compound", k="cmp", op=op, act=False, rank=rank)
            D("compound", k="cmps", op=op, rank=rank)
            D("compound", k="cmpa", op=op, rank=rank)
    # binary operators: operator x activeness of the operands x rank; scalar / adouble on either side
    for rank in (1, 2, 3):
        for op in OPS4:
            for acta, actb in ((True, True), (True, False), (False, True)):
                D("bin", op=op, acta=acta, actb=actb, rank=rank)
            for left in (True, False):
                D("bins", op=op, left=left, rank=rank)
        for op in OPS3:
            for left in (True, False):
                D("bina", op=op, left=left, rank=rank, act=rng.random() < 0.7)
        # wrappers and nested forms n1..n8, broadcasts, passive right-hand sides
        for k in ("n1", "n2", "n3", "n8"):
            D("nested", k=k, rank=rank)
        for k in ("n4", "n5", "n6", "n7"):
            D("wrap", k=k, rank=rank)
        for k in ("bcp", "bca", "bce"):
            D("bcast", k=k, rank=rank)
        for k in (True, False):
            D("passive", k=k, rank=rank)
        D("copy", rank=rank, act=True); D("copy", rank=rank, act=False); D("neg", rank=rank)
        # element access kinds
        for k in ("elr", "elrc", "elw", "elcp", "elx"):
            D("element", k=k, rank=rank)
        for op in OPS3:
            D("element", k="elc", op=op, rank=rank)
    # FixedArray kinds x both fixed types (x operator / reduction function where there is one)
    for which in ("f4", "f23", "f234", "f2232"):
        for k in ("fxcopy", "fxbcp", "fxbca"):
            D("fixed", extents=None, which=which, k=k)
        for k in ("fxbin", "fxsrc", "fxff", "fxcmp"):
            for op in OPS3:
                D("fixed", extents=None, which=which, k=k, op=op)
        for f in ("sum", "product", "maxval", "minval", "mean"):
            D("fixed", extents=None, which=which, k="fxred", f=f)
    # max / min: function x pair of DIFFERENT operand layouts x activeness; scalar and adouble forms; nested; reduced; abs
    for rank in (1, 2, 3):
        for li, lay in enumerate(Gen.LAYOUT_PAIRS[rank]):
            for fi, fn in enumerate(("max", "min", "fmax", "fmin")):
                acts = [(True, True), (True, False), (False, True)][(li + fi) % 3]
                D("maxmin", k="mm", fn=fn, rank=rank, layouts=lay, acts=acts)
            D("maxmin", k="mm", fn=("min", "max")[li % 2], rank=rank, layouts=lay, acts=(True, True))
        for fn in ("max", "min", "fmax", "fmin"):
            lay = rng.choice(Gen.LAYOUT_PAIRS[rank])
            for k in ("mmsl", "mmsr", "mmal", "mmar"):
                D("maxmin", k=k, fn=fn, rank=rank, layouts=lay)
        for fa in ("abs", "fabs"):
            D("maxmin", k="ab", absfn=fa, rank=rank, layouts=rng.choice(Gen.LAYOUT_PAIRS[rank]))
            D("maxmin", k="abn", absfn=fa, rank=rank, layouts=rng.choice(Gen.LAYOUT_PAIRS[rank]))
    for rank in (1, 2):
        for lay in Gen.LAYOUT_PAIRS[rank]:
            for fn in ("max", "min"):
                D("maxmin", k=rng.choice(["mmn1", "mmn2"]), fn=fn, rank=rank, layouts=lay)
        for fn in ("max", "min"):
            for k in ("mmn1", "mmn2", "mmred"):
                D("maxmin", k=k, fn=fn, rank=rank, layouts=rng.choice(Gen.LAYOUT_PAIRS[rank]))
    # rank 4: every statement kind of the rank-4 menu; operator x layouts; reduction function x dimension; spread position
    X4 = (2, 3, 4, 5)
    for lay in Gen.LAYOUT_PAIRS[4]:
        for op in OPS4:
            D("rank4", extents=X4, k="bin", op=op, layouts=lay, acta=True, actb=rng.random() < 0.6)
        for fn in ("max", "min"):
            D("rank4", extents=X4, k="mm", fn=fn, layouts=lay, acts=rng.choice([(True, True), (True, False), (False, True)]))
        for k in ("copy", "neg", "n1"):
            D("rank4", extents=X4, k=k, layouts=lay, act=True)
    for op in OPS4:
        for k in ("binsl", "binsr", "cmp"):
            D("rank4", extents=X4, k=k, op=op, layouts=rng.choice(Gen.LAYOUT_PAIRS[4]), act=rng.random() < 0.6)
    for f in FUNS:
        D("rank4", extents=(2, 2, 4, 2) if f == "mean" else (2, 3, 2, 2) if f == "product" else X4, k="red", f=f)
        for dim in range(4):
            D("rank4", extents=(2, 4, 8, 2) if f == "mean" else (2, 3, 2, 2) if f == "product" else X4, k="rdim", f=f, dim=dim)
    for sd in range(4):
        D("rank4", extents=X4, k="spr", sd=sd)
    # every element-wise function, plain and nested; pow / atan2 in every form
    for i, name in enumerate(ac.FLOAT_FUNCS):
        D("funcs", k="ffn", name=name, rank=1 + i % 2)
        D("funcs", k="ffnn", name=name, rank=2 - i % 2)
    for f in ("pow", "atan2"):
        for acts in ((True, True), (True, False), (False, True)):
            D("funcs", k="ffb", name=f, acts=acts)
        D("funcs", k="ffbl", name=f)
        D("funcs", k="ffbn", name=f, rank=1); D("funcs", k="ffbn", name=f, rank=2)
    D("funcs", k="ffbr", name="pow")
    # diag_vector(expression, k): every k of a 3x5 / 5x3 / 4x2-like expression (extents differ), both signs
    for ext_ in ((3, 5), (5, 3), (2, 4)):
        for k in range(-(max(ext_) - 1), max(ext_)):
            D("diagx", extents=ext_, diag=k, layouts=rng.choice(Gen.LAYOUT_PAIRS[2] + [("any", "any")]))
    return out


# ------------------------------------------------------------------ judging one case
class Verdict:
    def __init__(self):
        self.oracle = []        # (op index, message)
        self.model_jobs = []    # (op index, model line, cmp, StmtLine)
        self.notes = []
        self.stmts = 0
        self.exact = 0
        self.fevents = 0
        self.tapes = []         # per statement: tape part (for the small-capacity comparison)
        self.crash = None
        self.singular = False


def judge(ops, il, W, rc=0, err=""):
    v = Verdict()
    orc = ac.Oracle()
    geoms = {}
    allexact = True
    for i, o in enumerate(ops):
        if i >= len(il):
            v.crash = "the driver stopped at op %d (%s): rc=%s %s" % (i, o, rc, err[-1500:])
            break
        l = il[i]
        w = o.split()
        if l.startswith("EXC ") or l == "bad-op":
            v.oracle.append((i, "op rejected: %s" % l[:120]))
            continue
        if w[0] in ("av", "pv", "as", "f4", "f23", "f234", "f2232", "vw", "vT", "vperm", "vdiag", "vsoft", "vlink", "geom") and (l.startswith("ok ") or l.startswith("G ")):
            g = ac.Geom(l.split(" ", 1)[1])
            geoms[g.h] = g
            if g.badgeom:
                v.oracle.append((i, "element access through operator() disagrees with the printed geometry"))
        elif ac.is_stmt(o):
            if not l.startswith("S "):
                v.oracle.append((i, "statement not executed: %s" % l[:120])); continue
            P = ac.StmtLine(l)
            v.stmts += 1
            v.tapes.append(l.split(" | T ")[1].split(" | A ")[0] if " | T " in l else "")
            try:
                msg = orc.statement(w, P)
            except ZeroDivisionError:
                # a singular point of the denoted program (x/0, sqrt'(0)): outside the property's domain; nothing
                # after it in this case can be judged
                v.notes.append("singular point in the denoted program (rest of the case not judged)")
                v.singular = True
                break
            if msg:
                v.oracle.append((i, msg))
            allexact = allexact and P.exact
            if P.exact:
                v.exact += 1
                tm = ac.to_model(w, P, W)
                if tm is not None:
                    v.model_jobs.append((i, tm[0], tm[1], P))
        elif w[0] == "jac":
            J = ac.parse_J(l)
            parts = o.split(":")
            ind = [int(x) for x in parts[1].split()]; dep = [int(x) for x in parts[2].split()]
            if J is None:
                v.oracle.append((i, "no Jacobian returned: %s" % l[:120])); continue
            try:
                want = orc.jacobian([geoms[h] for h in dep], [geoms[h] for h in ind])
            except (KeyError, IndexError):
                want = None
            if want is None:
                v.notes.append("jacobian not judged (an independent was re-allocated or never used)")
            elif v.oracle:
                pass
            else:
                if len(want) != len(J) or (J and len(want[0]) != len(J[0])):
                    v.oracle.append((i, "Jacobian shape %dx%d, expected %dx%d" % (len(J), len(J[0]) if J else 0, len(want), len(want[0]) if want else 0)))
                else:
                    for a in range(len(J)):
                        for b in range(len(J[0])):
                            if not ac.close(J[a][b], want[a][b], allexact):
                                v.oracle.append((i, "Stack::jacobian() entry (%d,%d) = %s, the scalar loops give %s" % (a, b, ac.fmt(J[a][b]), ac.fmt(want[a][b]))))
                                break
                        else:
                            continue
                        break
        elif w[0] == "ev":
            v.fevents += l.count(" F")
    return v


def run_batch(ctx, exe, label, W, cases, small_exe=None):
    """cases: list of (ops, tag).  Runs implementation, model and oracle; returns list of failures
    (kind, case index, op index, message).  A case that kills the driver is reported and the rest of the batch is
    run in a fresh process."""
    fails, verdicts = run_batch1(ctx, exe, label, W, cases, small_exe)
    while len(verdicts) < len(cases):
        done = len(verdicts)
        f2, v2 = run_batch1(ctx, exe, label, W, cases[done:], small_exe)
        fails += [(k, ci + done, oi, msg) for (k, ci, oi, msg) in f2]
        verdicts += v2
    return fails, verdicts


def run_batch1(ctx, exe, label, W, cases, small_exe=None):
    text = "".join("\n".join(ops) + "\n" for ops, _ in cases)
    il, rc, err = vcheck.run_impl(exe, [], text)
    sl = None
    if small_exe is not None:
        sl, rc2, err2 = vcheck.run_impl(small_exe, [], text)
    pos = 0
    fails = []
    jobs = []
    verdicts = []
    small_dead = False
    for ci, (ops, tag) in enumerate(cases):
        lines = il[pos:pos + len(ops)]
        v = judge(ops, lines, W, rc, err)
        verdicts.append(v)
        if v.crash:
            fails.append(("crash", ci, len(lines), v.crash))
            pos += len(ops)
            break
        for (i, msg) in v.oracle[:1]:
            fails.append(("oracle", ci, i, msg))
        for (i, ml, cmp, P) in v.model_jobs:
            jobs.append((ci, i, ml, cmp, P))
        if sl is not None and not small_dead:
            s2 = sl[pos:pos + len(ops)]
            if len(s2) < len(ops):
                # the small-capacity process died inside this case; the cases after it are not compared in this batch
                small_dead = True
                fails.append(("capacity", ci, len(s2), "the ADEPT_INITIAL_STACK_LENGTH=2 build stopped at op %d (%s) of a case the "
                              "default-capacity build completes: rc=%s %s" % (len(s2), ops[len(s2)] if len(s2) < len(ops) else "?", rc2,
                                                                              " ".join(l for l in err2.split("\n") if "ERROR" in l or "#1 " in l or "#2 " in l)[:600])))
            else:
                nf = sum(l.count(" F") for o, l in zip(ops, s2) if o == "ev")
                ctx.notes["F_events_small_capacity"] = ctx.notes.get("F_events_small_capacity", 0) + nf
                if nf and len(ctx.notes.setdefault("F_event_cases", [])) < 5:
                    ctx.notes["F_event_cases"].append([o for o in ops if ac.is_stmt(o)])
                for i, (o, a, b) in enumerate(zip(ops, lines, s2)):
                    if ac.is_stmt(o) and a.startswith("S ") and b.startswith("S "):
                        ta = a.split(" | T ")[1].split(" | A ")[0]; tb = b.split(" | T ")[1].split(" | A ")[0]
                        if ta != tb and nf == 0:
                            fails.append(("capacity", ci, i, "tape differs between default capacity and ADEPT_INITIAL_STACK_LENGTH=2: %s vs %s" % (ta[:120], tb[:120])))
                            break
        pos += len(ops)
    if jobs:
        ml = vcheck.run_model("arrayad", "\n".join(j[2] for j in jobs) + "\n")
        seen = set()
        for (ci, i, line, cmp, P), out in zip(jobs, ml):
            ctx.cov["traces_validated_against_impl"] += 1
            r = ac.compare_model(P, cmp, out)
            if r is not None and ci not in seen:
                seen.add(ci)
                ctx.cov["disagreements_checked"] += 1
                fails.append(("model", ci, i, r + "   [model input: %s]" % line[:400]))
    return fails, verdicts


def shrink(exe, W, ops, kind):
    """delta debugging on the op list (cfg first, everything else removable); the failure kind must persist"""
    def failing(cand):
        cand = ["cfg"] + [o for o in cand if o != "cfg"]
        il, rc, err = vcheck.run_impl(exe, [], "\n".join(cand) + "\n")
        v = judge(cand, il, W, rc, err)
        if kind == "crash":
            return v.crash is not None
        if any(m.startswith("op rejected") or m.startswith("statement not executed") for _, m in v.oracle):
            return False
        if kind == "oracle":
            return bool(v.oracle)
        if kind == "model":
            if not v.model_jobs:
                return False
            ml = vcheck.run_model("arrayad", "\n".join(j[1] for j in v.model_jobs) + "\n")
            return any(ac.compare_model(P, cmp, out) is not None for (i, line, cmp, P), out in zip(v.model_jobs, ml))
        return False
    body = [o for o in ops if o != "cfg"]
    try:
        small = vcheck.ddmin(body, failing, max_tests=250)
    except Exception:
        small = body
    return ["cfg"] + small


def signature(ops, msg):
    sub = ("red", "rede", "rdim", "rdime", "mm", "mmsl", "mmsr", "mmal", "mmar", "mmn1", "mmn2", "mmred", "ffn", "ffnn", "ffb", "ffbl", "ffbr", "ffbn")
    kinds = sorted(set(o.split()[0] + ("-" + o.split()[1] if o.split()[0] in sub else "") for o in ops if ac.is_stmt(o)))
    return "C03:" + ",".join(kinds)


def load_corpus():
    out = []
    for f in sorted(glob.glob(os.path.join(CORPUS, "*.case"))):
        try:
            j = json.load(open(f))
            out.append((j["ops"], os.path.basename(f)))
        except Exception:
            pass
    return out


def run(ctx, replay):
    thms = [NS + t for t in vcheck.prop_theorems("AdeptProofs/Props/C03.lean", "C03_")]
    fails_lean = vcheck.lean_gate(ctx, ["AdeptProofs.Props.C03"], thms, required=[NS + r for r in REQUIRED])
    variants = [("sse2", dict(packets="sse2"))]
    if ctx.tier == "thorough":
        variants.append(("avx", dict(packets="avx")))
    small = True     # the ADEPT_INITIAL_STACK_LENGTH=2 build runs in both tiers (same cases, tapes must not depend on capacity)
    with ThreadPoolExecutor(max_workers=3) as ex:
        futs = [ex.submit(ac.build, **kw) for _, kw in variants]
        fsmall = ex.submit(ac.build, stack_len=2) if small else None
        exes = [f.result() for f in futs]
        small_exe = fsmall.result() if fsmall else None
    if replay:
        r = json.load(open(replay))
        ops = r["ops"]
        exe = exes[0]
        il, rc, err = vcheck.run_impl(exe, [], "\n".join(ops) + "\n")
        print("\n".join("%-40s | %s" % (o, l[:300]) for o, l in zip(ops, il)))
        fails, _ = run_batch(ctx, exe, "sse2", 2, [(ops, "replay")])
        for f in fails:
            print("REPLAY-FAIL:", f[0], "op", f[2], f[3][:600])
            ctx.violation("replayed case fails: " + f[3][:300], {"kind": f[0], "ops": ops, "message": f[3], "signature": signature(ops, f[3])})
        return
    nstmt_target = 1500 if ctx.tier == "quick" else 6000
    dist = {"statement_kinds": {}, "ranks": {}, "view_kinds": {}, "extents": {}, "regime": {"exact": 0, "float": 0},
            "operand_layout_pairs": {}}
    pending_model = []
    nviol = 0
    ncrash = 0
    nsweep = 0
    for vi, ((label, kw), exe) in enumerate(zip(variants, exes)):
        W = ac.PACKET_W[kw["packets"]]
        cases = []
        if vi == 0:
            cases += [(ops, "corpus:" + name) for ops, name in load_corpus()]
        sw = sweep_cases(ctx.rng, ctx.tier)
        nsweep = len(sw)
        cases += sw
        n = 0
        target = nstmt_target if vi == 0 else nstmt_target // 2
        mixes = [("default", target)] if ctx.tier == "quick" else [("default", target - target // 4), ("fixed-indexed", target // 4)]
        for mix, quota in mixes:
            n = 0
            while n < quota:
                ops, g = gen_case(ctx.rng, mix)
                cases.append((ops, g))
                n += len(g.stmts)
        # account the distribution
        for ops, g in cases:
            if isinstance(g, str):
                continue
            for (kind, rank, dims) in g.meta:
                dist["statement_kinds"][kind] = dist["statement_kinds"].get(kind, 0) + 1
                dist["ranks"][str(rank)] = dist["ranks"].get(str(rank), 0) + 1
                for d in dims:
                    dist["extents"][str(d)] = dist["extents"].get(str(d), 0) + 1
            for (fam, la, lb) in g.layouts_used:
                key = "%s:%s/%s" % (fam, la, lb)
                dist["operand_layout_pairs"][key] = dist["operand_layout_pairs"].get(key, 0) + 1
            used = set()
            for o in g.stmts:
                for tok in o.split()[1:]:
                    if tok.isdigit() and int(tok) in g.info:
                        used.add(int(tok))
            for h in used:
                for vk in g.info[h]["views"] or ["-"]:
                    dist["view_kinds"][vk] = dist["view_kinds"].get(vk, 0) + 1
        CH = 60
        for c0 in range(0, len(cases), CH):
            chunk = cases[c0:c0 + CH]
            fails, verdicts = run_batch(ctx, exe, label, W, chunk, small_exe if vi == 0 else None)
            for (ops, g), v in zip(chunk, verdicts):
                for o in ops:
                    if ac.is_stmt(o):
                        ctx.count_case((label, o, tuple(ops[:3])), nontrivial=True,
                                       sample={"build": label, "ops": [x for x in ops if ac.is_stmt(x)][:4]})
                dist["regime"]["exact"] += v.exact; dist["regime"]["float"] += v.stmts - v.exact
                ctx.notes["F_events_default_capacity"] = ctx.notes.get("F_events_default_capacity", 0) + v.fevents
            for (kind, ci, oi, msg) in fails:
                ops, g = chunk[ci]
                if kind == "model":
                    pending_model.append((label, exe, W, ops, oi, msg))
                    continue
                if nviol >= 3 or (kind == "crash" and ncrash >= 2):
                    continue          # at most two sanitizer stops: keep a slot for a wrong value / derivative
                ncrash += kind == "crash"
                small_ops = shrink(exe, W, ops, kind) if kind in ("oracle", "crash") else ops
                il, rc, err = vcheck.run_impl(exe, [], "\n".join(small_ops) + "\n")
                v2 = judge(small_ops, il, W, rc, err)
                m2 = v2.crash or (v2.oracle[0][1] if v2.oracle else msg)
                rep = {"kind": kind, "build": label, "ops": small_ops, "original_ops": ops, "message": m2,
                       "impl": [l[:2000] for l in il], "signature": signature(small_ops, m2)}
                if ctx.violation("%s [build %s; statements: %s]" % (m2[:500], label, "; ".join(o for o in small_ops if ac.is_stmt(o))[:300]), rep):
                    nviol += 1
    ctx.notes["distribution"] = dist
    ctx.notes["builds"] = [l for l, _ in variants] + (["sse2+ADEPT_INITIAL_STACK_LENGTH=2"] if small else [])
    ctx.cov["rule"] = ("cases = 1-4 statements over fresh pools: ranks 1-4, extents from {1,2,3,4,5,9}, operands and targets that are roots "
                       "(row/column-major) or compositions of stride/reversed/transposed/permuted/sliced/diag/soft_link/link views, active and "
                       "passive operands, targets Array/view/FixedArray (ranks 1-4)/adouble; every statement kind of the driver menu; non-trivial = every "
                       "executed statement; distinct = different (build, statement op, pool prefix). Each statement is compared with the model "
                       "(tape and memory image, exactly) when every number is a small dyadic, and always judged by the dual-number oracle. "
                       "In EVERY run, before the random cases, the directed cases of sweep_cases(): one statement each, pairwise different "
                       "extents > 1, every discrete parameter combination of every family (reduction function x rank x dimension, where / "
                       "either_or variants x rank, every indexed kind, compound operator x kind of right-hand side x rank, binary operator x "
                       "activeness x rank, wrappers n1..n8 x rank, element-access and FixedArray kinds, max/min function x pair of DIFFERENT "
                       "operand layouts x activeness, every element-wise function plain and nested, pow/atan2 forms, diag_vector(expr, k) for "
                       "every k of non-square expressions, the rank-4 menu, spread<d> for every d).")
    ctx.notes["directed_cases"] = nsweep
    ctx.assumptions += ["exact regime: integer/dyadic values held in doubles; statements whose numbers leave it (mean over 3 elements, norm2, the "
                        "element-wise functions of ADEPT_DEF_UNARY_FUNC other than abs/fabs, pow, atan2 - arguments inside the open domain) "
                        "are judged by the oracle only, with relative tolerance 1e-9",
                        "max/min at a tie: the derivative goes to the operand the scalar statement selects (Max::is_left `l > r`: right "
                        "operand; Min::is_left `l <= r`: left operand); abs at 0: derivative factor (0>0)-(0<0) = 0 - model and oracle "
                        "apply the same documented rule",
                        "noalias() promises are kept and where-masks do not read the target (broken promises / lazily evaluated masks are C04: F-03, F-25)",
                        "the gradient index of temporaries (alias copy, reduction accumulator) is taken from the implementation's tape; which index the "
                        "allocator hands out is C08",
                        "packet alignment (columns_aligned_) only selects between two loops that the theorems show to record the same"]
    if not ctx.violations:
        for (label, exe, W, ops, oi, msg) in pending_model[:1]:
            small_ops = shrink(exe, W, ops, "model")
            ctx.violation("model and implementation disagree on an array statement (build %s) although the oracle accepts the derivatives: %s" % (label, msg[:400]),
                          {"kind": "correspondence", "correspondence": "AdeptModel/ArrayAD.lean <-> Array.h/IndexedArray.h/reduce.h/where.h",
                           "build": label, "ops": small_ops, "first_difference": msg}, tag="c", no_input=True)
    if fails_lean and not ctx.violations:
        ctx.violation("proof obligation of C03 no longer checks: " + fails_lean[0][:400],
                      {"kind": "proof", "theorem": "AdeptProofs/Props/C03.lean", "failures": fails_lean}, tag="p", no_input=True)
