"""C12 — threads that each own a stack do not interfere.   (PARTIAL: proof over an abstract machine, races observed with TSan)

proof:  lean/AdeptProofs/Props/C12.lean — non-interference, race freedom and "active only in the activator" for EVERY schedule
        of ANY number of threads on the abstract machine of AdeptModel/Threads.lean; the hypotheses are discharged by `decide`
        from two GENERATED tables.
tie:    translate/globals.py  (symbol tables of the compiled library -> Generated/Globals.lean: the stack pointer is TLS, every
        other writable global is classified in the footprint table) and translate/storagecfg.py (Storage.h -> type of the global
        counters); regenerated on every run.  Dynamic: harness/drv_threads.cpp built with clang++-14 -fsanitize=thread
        (no OpenMP): 2/4/8 std::threads, each with its own Stack, scalar + array programs, adjoints/tangents/Jacobians;
        results compared bitwise with the single-thread run; active_stack() sampled in stack-less threads; deterministic
        schedules on real threads compared line by line with the Lean machine.
        Allocation faults: operator new[] wrapped (thread-local trigger), Stack constructors whose 1st/2nd/3rd array allocation
        fails inside every workload and in the deterministic schedules (`nsf`); constructor order translated from Stack.h
        (C12_ctor_order_generated, C12_failed_ctor_pointer_unchanged, refutation C12_swapped_ctor_order_dangles).  Growing stacks:
        a -DADEPT_INITIAL_STACK_LENGTH=64 TSan build; std::thread callers in the g++ -fopenmp build (Jacobians with up to 9 dependents).
oracle: bitwise solo/parallel comparison, the active_stack() samples, n_storage_objects() after join, ThreadSanitizer, and an
        exact python bookkeeping of the stack protocol (none of them uses the Lean model).
"""
import json
import vbuild, vcheck
import threadcommon as tc

LEVEL = "proof"
NS = "Adept.Threads."
SMALL = "ADEPT_INITIAL_STACK_LENGTH=64"
REQUIRED = ["C12_globals_accounted", "C12_hypothesis_generated", "C12_noninterference", "C12_noninterference_generated",
            "C12_race_free", "C12_race_free_generated", "C12_active_only_in_activator", "C12_stackless_thread_reads_zero",
            "C12_ctor_order_generated", "C12_failed_ctor_pointer_unchanged", "C12_stack_constructible_after_failed_ctor",
            "C12_swapped_ctor_order_dangles"]


def cases(rng, n, thorough):
    out = []
    for i in range(n):
        T = [2, 4, 8][i % 3]
        out.append((T, rng.randrange(1, 1 << 30), rng.choice([3, 10, 40]) if i % 4 == 0 else rng.randint(50, 2000 if thorough else 600)))
    return out


def run(ctx, replay):
    fails = tc.translate(ctx)
    thms = [NS + t for t in vcheck.prop_theorems("AdeptProofs/Props/C12.lean", "C12_")]
    fails += vcheck.lean_gate(ctx, ["AdeptProofs.Props.C12"], thms, required=[NS + r for r in REQUIRED])
    ctx.pending = []
    exe = tc.build(False)
    if replay:
        r = json.load(open(replay))
        if r.get("kind") == "tsan-run":
            tc.replay_workload(ctx, r)
        elif r.get("kind") == "sched":
            tc.replay_sched(ctx, r)
        tc.report(ctx, fails, "C12")
        return
    thorough = ctx.tier == "thorough"
    nruns = 100 if thorough else 24
    tc.run_many(ctx, exe, "default", "c12", cases(ctx.rng, nruns - (12 if thorough else 0), thorough))
    if thorough:
        exe_ts = tc.build(True)
        tc.run_many(ctx, exe_ts, "thread-safe", "c12", cases(ctx.rng, 12, thorough))
    # the same workloads run by the members of one OpenMP team (g++ -fopenmp build, ASan/UBSan, no TSan), plus exact global
    # storage bookkeeping after the join
    exe_omp = tc.build_omp()
    omp_cases = [(T, ws, min(rounds, 120)) for (T, ws, rounds) in cases(ctx.rng, 12 if thorough else 6, thorough)]
    tc.run_many(ctx, exe_omp, "openmp-team", "c12omp", omp_cases, workers=2)
    # std::threads (not a team) in the OpenMP build: each caller's reverse/forward Jacobian (up to 9 dependents, several blocks)
    # may start its own OpenMP team while the other callers do the same; results against the solo run
    omp_thr = [(T, ws, min(rounds, 150)) for (T, ws, rounds) in cases(ctx.rng, 12 if thorough else 6, thorough)]
    tc.run_many(ctx, exe_omp, "openmp-team", "c12", omp_thr, workers=2)
    # stacks that GROW: the library and the driver built with a small ADEPT_INITIAL_STACK_LENGTH, so every thread's recordings
    # outgrow the initial buffers several times (grow_operation_stack / grow_statement_stack in all threads at once), under TSan
    exe_small = tc.build(False, also=[SMALL])
    small = [(T, ws, max(rounds, 60)) for (T, ws, rounds) in cases(ctx.rng, 18 if thorough else 6, thorough)]
    tc.run_many(ctx, exe_small, "default+" + SMALL, "c12", small, grow=True)
    ctx.notes["growing_stacks"] = ("%d ThreadSanitizer runs of a -D%s build (>= 60 rounds; the stacks outgrow their initial buffers, "
                                   "checked from n_allocated_operations()); %d runs of std::thread callers in the g++ -fopenmp build "
                                   "(Jacobians with 2..9 dependents, set_max_jacobian_threads 1 or 3)" % (18 if thorough else 6, SMALL, len(omp_thr)))
    # deterministic schedules on real threads vs the Lean machine (stack protocol, recording, private arrays)
    nsched = 400 if thorough else 120
    tc.run_sched_batch(ctx, exe, "default", "default", tc.sched_cases(ctx.rng, nsched, shared=False),
                       "stack activation protocol / storage count on real threads")
    ctx.cov["rule"] = ("%d ThreadSanitizer runs of T in {2,4,8} std::threads (+2 stack-less sampler threads + main), each thread with its own "
                       "Stack running a seeded random scalar program (7 statement shapes) and array program (aVector/aMatrix, views of own "
                       "data, temporaries) for 3..%d rounds with adjoint, tangent, forward and reverse Jacobians; every result word compared "
                       "bitwise with the same workload run alone; + %d deterministic random schedules (10..60 steps over 1..4 real threads: "
                       "Stack ctor/activate/deactivate/destructor, recording, new_recording, private arrays) compared line by line with the "
                       "Lean machine and with an exact python bookkeeping; non-trivial = every run; distinct = different (build, threads, "
                       "workload seed, rounds) or schedule" % (nruns, 2000 if thorough else 600, nsched))
    ctx.notes["allocation_faults"] = ("every c12/c12omp workload (solo and in its thread) runs Stack constructors whose 1st/2nd/3rd array "
                                      "allocation fails (operator new[] wrapped, thread-local trigger): 2 before the thread owns a stack "
                                      "(activating 3 of 4), 1 in each of the first 24 deactivated windows and 1 in 8 later, 1 while its own "
                                      "stack is active, 1 after its destructor followed by a fresh Stack that records and differentiates; "
                                      "oracle: active_stack() unchanged, later activations succeed, results equal the solo run; the "
                                      "deterministic schedules draw `nsf` (faulted constructor, allocation 0..2) with weight 1/14")
    ctx.cov["exhaustive"] = False
    ctx.assumptions += [
        "PARTIAL: the theorems are about an abstract machine with atomic API steps and a footprint table; that the compiled library performs "
        "only the listed accesses is OBSERVED by ThreadSanitizer on the sampled interleavings, not proved; the C++ memory model, the TLS "
        "implementation, std::atomic, malloc and the compiler are trusted",
        "the footprint table is tied to the binary only through the symbol table (every writable global is classified; the stack pointer is "
        "TLS) and Storage.h (counter types); heap objects are assumed private to the thread that created them unless shared through an Array",
        "OpenMP is not used in the TSan builds (the serial Jacobian path is exercised; OpenMP Jacobians are C13's subject)",
        "workloads use the thread-safe stack (ADEPT_STACK_THREAD_UNSAFE off) and never change global settings "
        "(set_array_row_major_order, print styles) while threads run",
    ]
    tc.report(ctx, fails, "C12")
