"""Shared pieces for the array-AD family (driver harness/drv_arrayad*.cpp, model family `arrayad`):
parsing of the driver's lines, translation of one executed statement into the self-contained model line
(two-phase correspondence: geometry comes from the implementation), and the independent oracle (scalar loops the
statement denotes, evaluated with textbook forward-mode dual numbers over Fractions).  Used by C03 (and C09)."""
import os, math, itertools
from fractions import Fraction
import vbuild, vcheck

H = os.path.join(vbuild.VERIF, "harness")
DRIVERS = [os.path.join(H, f) for f in ("drv_arrayad.cpp", "drv_arrayad_s1.cpp", "drv_arrayad_s2.cpp",
                                        "drv_arrayad_s3.cpp", "drv_arrayad_s4.cpp", "drv_arrayad_s5.cpp",
                                        "drv_arrayad_s6.cpp", "drv_arrayad_s7.cpp", "drv_arrayad_s8.cpp", "drv_arrayad_s9.cpp", "drv_arrayad_s10.cpp")]
EXACT_BOUND = 1 << 50


def build(packets="sse2", stack_len=None, extra_defs=()):
    defs = list(extra_defs)
    if stack_len is not None:
        defs.append("ADEPT_INITIAL_STACK_LENGTH=%d" % stack_len)
    extra = ["-std=c++17"] + {"sse2": [], "avx": ["-mavx"]}[packets]
    return vbuild.build("arrayad", DRIVERS, defines=defs, extra=extra)


PACKET_W = {"sse2": 2, "avx": 4}


# ------------------------------------------------------------------ numbers
def pnum(s):
    """exact value of a printed double -> (Fraction, exact_dyadic?)"""
    if "/" in s:
        a, b = s.split("/")
        return Fraction(int(a), int(b)), True
    try:
        return Fraction(int(s)), True
    except ValueError:
        x = float(s)
        if x != x or x in (float("inf"), float("-inf")):
            return x, False
        return Fraction(x), False


def fmt(q):
    if isinstance(q, float):
        return repr(q)
    return str(q.numerator) if q.denominator == 1 else "%d/%d" % (q.numerator, q.denominator)


def is_small_dyadic(q):
    if not isinstance(q, Fraction):
        return False
    d = q.denominator
    return d & (d - 1) == 0 and abs(q.numerator) < EXACT_BOUND and d < EXACT_BOUND


# ------------------------------------------------------------------ parsing the driver's output
class Geom:
    def __init__(self, text):
        self.text = text
        f = dict(kv.split("=", 1) for kv in text.split(";"))
        self.h = int(f["h"]); self.root = int(f["r"]); self.kind = int(f["k"]); self.active = f["a"] == "1"
        self.badgeom = False
        if "iv" in f:
            self.iv = [int(x) for x in f["iv"].split(",")] if f["iv"] else []
            self.dims = [len(self.iv)]
            return
        self.iv = None
        self.g = int(f["g"]); self.off = int(f["o"])
        self.dims = [int(x) for x in f["d"].split(",")] if f["d"] else []
        self.strides = [int(x) for x in f["s"].split(",")] if f["s"] else []
        vs = f["v"]
        if "!GEOM" in vs:
            self.badgeom = True
            vs = vs.replace("!GEOM", "")
        self.vals = [pnum(x)[0] for x in vs.split(",")] if vs else []
        self.exact = all(pnum(x)[1] for x in vs.split(",")) if vs else True

    def addr(self, ix):
        return self.off + sum(i * s for i, s in zip(ix, self.strides))

    def indices(self):
        return itertools.product(*[range(d) for d in self.dims])

    def size(self):
        n = 1
        for d in self.dims:
            n *= d
        return n


class MemImg:
    def __init__(self, text):
        head, _, cells = text.partition(":")
        w = head.split()
        self.root = int(w[0]); self.gbase = int(w[1]); self.n = int(w[2])
        toks = cells.split()
        pv = [pnum(x) for x in toks]
        self.cells = [p[0] for p in pv]
        self.exact = all(p[1] for p in pv)


def parse_tape_part(text):
    out = []
    text = text.strip()
    if not text:
        return out, True
    exact = True
    for st in text.split(" ; "):
        lhs, _, ops = st.strip().partition(":")
        ol = []
        if ops:
            for o in ops.split(","):
                mm, _, ii = o.rpartition("*")
                q, ex = pnum(mm)
                exact = exact and ex
                ol.append((q, int(ii)))
        out.append((int(lhs), ol))
    return out, exact


class StmtLine:
    """S <status> | G geom.. | M mem.. | T tape | A geom | N mem"""
    def __init__(self, line):
        parts = line.split(" | ")
        assert parts[0].startswith("S "), line[:80]
        self.status = parts[0][2:].strip()
        self.geoms, self.mems = [], {}
        self.tape, self.after, self.memafter = [], None, None
        self.exact = True
        for p in parts[1:]:
            tag, _, body = p.partition(" ")
            if tag == "G":
                self.geoms.append(Geom(body))
            elif tag == "M":
                m = MemImg(body); self.mems[m.root] = m; self.exact = self.exact and m.exact
            elif tag == "T":
                self.tape, ex = parse_tape_part(body); self.exact = self.exact and ex
            elif tag == "A":
                self.after = Geom(body)
            elif tag == "N":
                self.memafter = MemImg(body); self.exact = self.exact and self.memafter.exact
        nums = [c for m in self.mems.values() for c in m.cells] + (self.memafter.cells if self.memafter else [])
        nums += [m for _, ops in self.tape for m, _ in ops]
        self.exact = self.exact and all(is_small_dyadic(q) for q in nums)
        self.badgeom = any(g.badgeom for g in self.geoms) or (self.after is not None and self.after.badgeom)


# ------------------------------------------------------------------ statement descriptions
# expression trees over operand positions of the statement line:
#   ("arr", gi) ("c", Fraction) ("add"|"sub"|"mul"|"div", l, r) ("neg", x) ("noalias", x)
#   ("idx", gi, [gi of index vectors]) ("spread", d, n, gi) ("outer", gi, gj) ("el", gi, index tuple)
#   ("sin"|"exp"|"sqrt", x)   (Float regime, oracle only)
#   ("max"|"min", l, r) ("abs", x)   (exact regime; the tie rule of Max/Min::is_left: max -> right operand, min -> left)
#   (name, x) for name in FLOAT_FUNCS, ("pow"|"atan2", l, r)   (Float regime, oracle only)
OPS = {"add": "add", "sub": "sub", "mul": "mul", "div": "div"}
MAXMIN = {"max": "max", "fmax": "max", "min": "min", "fmin": "min"}
# the functions of ADEPT_DEF_UNARY_FUNC (UnaryOperation.h) except abs/fabs (exact regime, modelled) and fastexp
FLOAT_FUNCS = ["log", "log10", "log2", "log1p", "cos", "tan", "asin", "acos", "atan", "sinh", "cosh", "tanh", "sin", "ceil",
               "floor", "expm1", "exp2", "cbrt", "erf", "erfc", "asinh", "acosh", "atanh", "exp", "sqrt", "round", "trunc",
               "rint", "nearbyint"]


def describe(w):
    """op words -> statement description (dict) with operand positions as printed by the driver (target = 0)"""
    k = w[0]
    A = lambda i: ("arr", i)
    C = lambda s: ("c", Fraction(s) if "." not in s and "e" not in s.lower() else Fraction(float(s)))
    if k == "copy":
        return dict(kind="assign", t=0, e=A(1))
    if k == "neg":
        return dict(kind="assign", t=0, e=("neg", A(1)))
    if k == "bin":
        return dict(kind="assign", t=0, e=(w[1], A(1), A(2)))
    if k == "binsl":
        return dict(kind="assign", t=0, e=(w[1], C(w[3]), A(1)))
    if k == "binsr":
        # A/c is coded as A*(1/c) (BinaryOperation.h operator/): same value and multiplier in exact arithmetic
        return dict(kind="assign", t=0, e=(w[1], A(1), C(w[4])))
    if k == "binal":
        return dict(kind="assign", t=0, e=(w[1], A(1), A(2)))
    if k == "binar":
        return dict(kind="assign", t=0, e=(w[1], A(2), A(1)))
    if k == "n1":
        return dict(kind="assign", t=0, e=("add", ("mul", A(1), A(2)), A(3)))
    if k == "n2":
        return dict(kind="assign", t=0, e=("mul", ("add", A(1), A(2)), ("sub", A(1), A(3))))
    if k == "n3":
        return dict(kind="assign", t=0, e=("mul", A(1), ("mul", A(2), A(3))))
    if k == "n8":
        return dict(kind="assign", t=0, e=("sub", ("mul", ("noalias", A(1)), A(2)), A(3)))
    if k == "n4":
        return dict(kind="assign", t=0, e=("mul", A(1), ("noalias", A(2))))
    if k == "n5":
        return dict(kind="assign", t=0, e=("noalias", ("mul", A(1), A(2))))
    if k == "n6":
        return dict(kind="assign", t=0, e=("mul", C(w[2]), ("noalias", ("sub", A(1), A(2)))))
    if k == "n7":
        return dict(kind="eval", t=0, e=("mul", A(1), A(2)))
    if k == "bcp":
        return dict(kind="assign", t=0, e=C(w[2]), scalar_rhs=True)
    if k == "bca":
        return dict(kind="bcasta", t=0, s=1)
    if k == "bce":
        return dict(kind="bcaste", t=0, e=("mul", A(1), A(2)))
    if k == "cmp":
        # `T op= A` is `T = noalias(T) op A` / `T = noalias(T op A)`: per element, target element op rhs element
        return dict(kind="assign", t=0, e=(w[1], ("noalias", A(0)), A(1)), compound=True)
    if k == "cmps":
        return dict(kind="assign", t=0, e=(w[1], ("noalias", A(0)), C(w[3])), compound=True)
    if k == "cmpa":
        return dict(kind="assign", t=0, e=(w[1], ("noalias", A(0)), A(1)), compound=True)
    if k == "whr":
        return dict(kind="where", t=0, ma=A(1), mb=A(2), e=A(3))
    if k == "whrs":
        return dict(kind="where", t=0, ma=A(1), mb=A(2), e=C(w[4]))
    if k == "wheo":
        return dict(kind="eitheror", t=0, ma=A(1), mb=C(w[3]), ec=A(2), ed=A(3))
    if k == "wheos":
        return dict(kind="eitheror", t=0, ma=A(1), mb=C(w[3]), ec=A(2), ed=C(w[5]))
    if k == "ixt":
        return dict(kind="idx", t=0, iv=[1], e=A(2))
    if k == "ixe":
        return dict(kind="idx", t=0, iv=[1], e=("mul", A(2), A(3)))
    if k == "ixts":
        return dict(kind="idx", t=0, iv=[1], e=A(2))
    if k == "ixtc":
        return dict(kind="idx", t=0, iv=[1], e=C(w[3]))
    if k == "ixs":
        return dict(kind="assign", t=0, e=("idx", 1, [2]))
    if k == "ixss":
        return dict(kind="assign", t=0, e=("mul", ("idx", 1, [2]), A(3)))
    if k == "ixtt":
        return dict(kind="idx", t=0, iv=[1], e=("idx", 2, [3]))
    if k == "ixcmp":
        # `T(i) op= A` is `T(i) = noalias(T(i)) op A`
        return dict(kind="idx", t=0, iv=[1], e=(w[1], ("noalias", ("idx", 0, [1])), A(2)), seq=True)
    if k == "ixt2":
        return dict(kind="idx", t=0, iv=[1, 2], e=A(3))
    if k == "ixe2":
        return dict(kind="idx", t=0, iv=[1, 2], e=("mul", A(3), A(4)))
    if k == "ixs2":
        return dict(kind="assign", t=0, e=("idx", 1, [2, 3]))
    if k == "ixts2":
        return dict(kind="idx", t=0, iv=[1, 2], e=A(3))
    if k == "red":
        return dict(kind="reduce", f=w[1], t=0, e=A(1), shape=1)
    if k == "rede":
        return dict(kind="reduce", f=w[1], t=0, e=("mul", A(1), A(2)), shape=1)
    if k == "dot":
        return dict(kind="reduce", f="sum", t=0, e=("mul", A(1), A(2)), shape=1)
    if k == "rdim":
        return dict(kind="rdim", f=w[1], e=A(1), shape=1, d=int(w[4]), newh=int(w[2]))
    if k == "rdime":
        return dict(kind="rdim", f=w[1], e=("mul", A(1), A(2)), shape=1, d=int(w[5]), newh=int(w[2]))
    if k == "outer":
        return dict(kind="assign", t=0, e=("outer", 1, 2))
    if k == "outx":
        O = ("outer", 1, 2); f = w[1]
        if f == "sl":
            return dict(kind="assign", t=0, e=("mul", C(w[5]), O))
        if f == "sr":
            return dict(kind="assign", t=0, e=("mul", O, C(w[5])))
        if f == "neg":
            return dict(kind="assign", t=0, e=("neg", O))
        if f == "al":
            return dict(kind="assign", t=0, e=("mul", A(3), O))
        if f == "ar":
            return dict(kind="assign", t=0, e=("sub", A(3), O))
        if f in ("cadd", "csub", "cmul"):
            return dict(kind="assign", t=0, e=(f[1:], ("noalias", A(0)), O), compound=True)
        if f == "fexp":
            return dict(kind="assign", t=0, e=("exp", O), float=True)
        return None
    if k == "spr":
        return dict(kind="assign", t=0, e=("spread", int(w[1]), int(w[4]), 1))
    if k == "spre":
        return dict(kind="assign", t=0, e=("mul", ("spread", int(w[1]), int(w[4]), 1), A(2)))
    if k in ("elr", "elrc"):
        i = tuple(int(x) for x in w[w.index(":") + 1:])
        return dict(kind="scalar", t=("el", 0, ()), e=("el", 1, i))
    if k == "elw":
        i = tuple(int(x) for x in w[w.index(":") + 1:])
        return dict(kind="scalar", t=("el", 0, i), e=("mul", ("el", 1, ()), ("el", 2, ())))
    if k == "elc":
        i = tuple(int(x) for x in w[w.index(":") + 1:])
        return dict(kind="scalar", t=("el", 0, i), e=(w[1], ("el", 0, i), ("el", 1, ())))
    if k in ("elcp", "elx"):
        c1 = w.index(":"); c2 = w.index(":", c1 + 1)
        i = tuple(int(x) for x in w[c1 + 1:c2]); j = tuple(int(x) for x in w[c2 + 1:])
        if k == "elcp":
            return dict(kind="scalar", t=("el", 0, i), e=("el", 1, j))
        return dict(kind="scalar", t=("el", 0, ()), e=("mul", ("el", 1, i), ("el", 2, j)))
    if k == "fsin":
        return dict(kind="assign", t=0, e=("sin", A(1)), float=True)
    if k == "fsqrt":
        return dict(kind="assign", t=0, e=("sqrt", A(1)), float=True)
    if k == "fexpm":
        return dict(kind="assign", t=0, e=("mul", ("exp", A(1)), A(2)), float=True)
    if k in ("mm", "mmsl", "mmsr", "mmal", "mmar", "mmn1", "mmn2", "mmred"):
        fn = MAXMIN.get(w[1])
        if fn is None:
            return None
        if k == "mm":
            return dict(kind="assign", t=0, e=(fn, A(1), A(2)))
        if k == "mmsl":
            return dict(kind="assign", t=0, e=(fn, C(w[3]), A(1)))
        if k == "mmsr":
            return dict(kind="assign", t=0, e=(fn, A(1), C(w[4])))
        if k == "mmal":
            return dict(kind="assign", t=0, e=(fn, A(1), A(2)))
        if k == "mmar":
            return dict(kind="assign", t=0, e=(fn, A(2), A(1)))
        if k == "mmn1":
            return dict(kind="assign", t=0, e=("mul", A(3), (fn, ("sub", A(1), A(2)), A(3))))
        if k == "mmn2":
            return dict(kind="assign", t=0, e=("min" if fn == "max" else "max", (fn, A(1), A(2)), A(3)))
        return dict(kind="reduce", f="sum", t=0, e=(fn, A(1), A(2)), shape=1)
    if k == "ab" and w[1] in ("abs", "fabs"):
        return dict(kind="assign", t=0, e=("abs", A(1)))
    if k == "abn" and w[1] in ("abs", "fabs"):
        return dict(kind="assign", t=0, e=("mul", A(2), ("abs", ("sub", A(1), A(2)))))
    if k == "ffn" and w[1] in FLOAT_FUNCS:
        return dict(kind="assign", t=0, e=(w[1], A(1)), float=True)
    if k == "ffnn" and w[1] in FLOAT_FUNCS:
        return dict(kind="assign", t=0, e=("mul", (w[1], ("mul", A(1), A(2))), A(2)), float=True)
    if k == "ffb" and w[1] in ("pow", "atan2"):
        return dict(kind="assign", t=0, e=(w[1], A(1), A(2)), float=True)
    if k == "ffbn" and w[1] in ("pow", "atan2"):
        return dict(kind="assign", t=0, e=("mul", (w[1], A(1), A(2)), A(2)), float=True)
    if k == "ffbl" and w[1] in ("pow", "atan2"):
        return dict(kind="assign", t=0, e=(w[1], C(w[3]), A(1)), float=True)
    if k == "ffbr" and w[1] == "pow":
        return dict(kind="assign", t=0, e=("pow", A(1), C(w[4])), float=True)
    if k == "dvx":
        # N = diag_vector(A*B + A, k); the driver prints A, A, B (the new vector exists only afterwards)
        return dict(kind="diag", e=("add", ("mul", A(1), A(2)), A(1)), shape=1, k=int(w[4]), newh=int(w[1]))
    if k == "fxcopy":
        return dict(kind="assign", t=0, e=A(1), fixed=True)
    if k == "fxbin":
        return dict(kind="assign", t=0, e=(w[1], A(1), A(2)), fixed=True)
    if k == "fxsrc":
        return dict(kind="assign", t=0, e=(w[1], A(1), A(2)))
    if k == "fxff":
        return dict(kind="assign", t=0, e=(w[1], A(1), A(2)), fixed=True)
    if k == "fxbcp":
        return dict(kind="assign", t=0, e=C(w[2]), fixed=True, scalar_rhs=True)
    if k == "fxbca":
        return dict(kind="bcasta", t=0, s=1, fixed=True)
    if k == "fxcmp":
        return dict(kind="assign", t=0, e=(w[1], ("noalias", A(0)), A(1)), fixed=True, compound=True)
    if k == "fxred":
        return dict(kind="reduce", f=w[1], t=0, e=A(1), shape=1)
    return None


STMT_KINDS = ["copy", "neg", "bin", "binsl", "binsr", "binal", "binar", "n1", "n2", "n3", "n4", "n5", "n6", "n7", "n8",
              "bcp", "bca", "bce", "cmp", "cmps", "cmpa", "whr", "whrs", "wheo", "wheos", "ixt", "ixe", "ixts", "ixtc", "ixs",
              "ixss", "ixtt", "ixcmp", "ixt2", "ixe2", "ixs2", "ixts2", "red", "rede", "dot", "rdim", "rdime", "outer", "spr",
              "spre", "elr", "elrc", "elw", "elc", "elcp", "elx", "fsin", "fsqrt", "fexpm", "fxcopy", "fxbin", "fxsrc", "fxff",
              "fxbcp", "fxbca", "fxcmp", "fxred",
              "mm", "mmsl", "mmsr", "mmal", "mmar", "mmn1", "mmn2", "mmred", "ab", "abn",
              "ffn", "ffnn", "ffb", "ffbl", "ffbr", "ffbn", "dvx", "outx"]


# statement kinds of drv_arrayad_s5.cpp that C09 emits itself (dvx has a C03 model and oracle since the diag_vector
# extension and is a statement kind as well; elg, fxg: recording sites without a C03 model)
EXTRA_KINDS = ["dvx", "elg", "fxg"]


def is_stmt(op):
    return op.split()[0] in STMT_KINDS


# ------------------------------------------------------------------ translation to the model's line
class ModelLine:
    """assembles the sections of one model line"""
    def __init__(self, P):
        self.P = P
        self.secs = []
        self.stos = {}
        self.nview = 0; self.nivec = 0; self.nexpr = 0
        self.next_sid = 1 + max([g.root for g in P.geoms] + [P.after.root if P.after else 0] + list(P.mems))

    def sto(self, root):
        if root not in self.stos:
            m = self.P.mems[root]
            active = any(g.root == root and g.active and g.iv is None for g in self.P.geoms)
            self.secs.append("sto %d %d %d %d %s" % (root, max(m.gbase, 0), 1 if active else 0, m.n, " ".join(fmt(c) for c in m.cells)))
            self.stos[root] = True
        return root

    def new_sto(self, gbase, n, cells=None):
        sid = self.next_sid; self.next_sid += 1
        cells = cells if cells is not None else [Fraction(0)] * n
        self.secs.append("sto %d %d 1 %d %s" % (sid, gbase, n, " ".join(fmt(c) for c in cells)))
        return sid

    def view_raw(self, sid, off, dims, strides):
        self.secs.append("view %d %d %d %s" % (sid, off, len(dims), " ".join(str(x) for x in list(dims) + list(strides))))
        self.nview += 1
        return self.nview - 1

    def view(self, gi, el=None):
        g = self.P.geoms[gi]
        self.sto(g.root)
        if el is not None:
            return self.view_raw(g.root, g.addr(el), [], [])
        return self.view_raw(g.root, g.off, g.dims, g.strides)

    def ivec(self, gi):
        iv = self.P.geoms[gi].iv
        self.secs.append("ivec %d %s" % (len(iv), " ".join(str(x) for x in iv)))
        self.nivec += 1
        return self.nivec - 1

    def toks(self, e):
        t = e[0]
        if t == "arr":
            return ["a%d" % self.view(e[1])]
        if t == "el":
            return ["a%d" % self.view(e[1], e[2])]
        if t == "c":
            return ["c" + fmt(e[1])]
        if t in ("add", "sub", "mul", "div", "max", "min"):
            return [t] + self.toks(e[1]) + self.toks(e[2])
        if t in ("neg", "noalias", "abs"):
            return [t] + self.toks(e[1])
        if t == "idx":
            ids = [self.ivec(i) for i in e[2]]
            return ["x%d" % self.view(e[1]), str(len(ids))] + [str(i) for i in ids]
        if t == "spread":
            return ["spread", str(e[1]), str(e[2]), "a%d" % self.view(e[3])]
        if t == "outer":
            na = self.P.geoms[e[1]].dims[0]; nb = self.P.geoms[e[2]].dims[0]
            return ["mul", "outerL", "a%d" % self.view(e[1]), str(nb), "outerR", "a%d" % self.view(e[2]), str(na)]
        raise ValueError("not modelled: %r" % (t,))

    def expr(self, e):
        self.secs.append("expr " + " ".join(self.toks(e)))
        self.nexpr += 1
        return self.nexpr - 1

    def line(self, head):
        return " | ".join([head] + self.secs)


def first_foreign_lhs(P, gi):
    """gradient index of the first tape statement whose left-hand side is not a cell of operand gi (a temporary)"""
    g = P.geoms[gi]
    own = set(g.g - g.off + g.addr(ix) for ix in g.indices()) if g.iv is None else set()
    for lhs, _ in P.tape:
        if lhs not in own:
            return lhs
    return 0


def swapped(P):
    """did the target take over another allocation (move assignment swaps)?  The root handle stays the same,
    the gradient base of the allocation does not."""
    r = P.geoms[0].root
    return P.after is not None and r in P.mems and P.after.root == P.after.h and P.memafter.gbase != P.mems[r].gbase


def to_model(w, P, W):
    """-> (model line, compare) or None when the statement is outside the modelled fragment.
    compare = ('all', root) : whole allocation image, or ('view', Geom): only the cells the view addresses"""
    d = describe(w)
    if d is None or d.get("float") or P.status != "ok":
        return None
    if d.get("f") == "norm2":
        return None
    M = ModelLine(P)
    first = P.tape[0][0] if P.tape else 0
    k = d["kind"]
    try:
        if k == "assign":
            t = M.view(d["t"]); e = M.expr(d["e"])
            if d.get("fixed"):
                return M.line("assignfx %d %d" % (t, e)), ("all", P.geoms[0].root)
            tmp = first_foreign_lhs(P, 0)
            return M.line("assign %d %d %d %d %d" % (t, e, M.next_sid, tmp, W)), ("all", P.geoms[0].root)
        if k == "eval":
            e = M.expr(d["e"])
            a = P.after
            if swapped(P):
                # move assignment swapped: the temporary filled by eval() IS the target's new allocation
                sid = M.new_sto(P.memafter.gbase, P.memafter.n)
                t = M.view_raw(sid, a.off, a.dims, a.strides)
                return M.line("assignfx %d %d" % (t, e)), ("view", a)
            t = M.view(d["t"])
            return M.line("evalcopy %d %d %d %d %d" % (t, e, M.next_sid, first, W)), ("all", P.geoms[0].root)
        if k == "bcasta":
            t = M.view(d["t"]); s = M.view(d["s"])
            return M.line("bcasta %d %d" % (t, s)), ("all", P.geoms[0].root)
        if k == "bcaste":
            t = M.view(d["t"]); e = M.expr(d["e"])
            sid = M.new_sto(first, 1)
            tv = M.view_raw(sid, 0, [], [])
            return M.line("bcaste %d %d %d" % (t, e, tv)), ("all", P.geoms[0].root)
        if k == "where":
            t = M.view(d["t"]); ea = M.expr(d["ma"]); eb = M.expr(d["mb"]); e = M.expr(d["e"])
            tmp = first_foreign_lhs(P, 0)
            return M.line("where %d 0 %d %d %d %d %d %d" % (t, ea, eb, e, M.next_sid, tmp, W)), ("all", P.geoms[0].root)
        if k == "eitheror":
            t = M.view(d["t"]); ea = M.expr(d["ma"]); eb = M.expr(d["mb"]); ec = M.expr(d["ec"]); ed = M.expr(d["ed"])
            tmp = first_foreign_lhs(P, 0)
            return M.line("eitheror %d %d %d %d %d %d %d %d %d" % (t, ea, eb, ec, ed, M.next_sid, tmp, tmp, W)), ("all", P.geoms[0].root)
        if k == "idx":
            t = M.view(d["t"]); ids = [M.ivec(i) for i in d["iv"]]; e = M.expr(d["e"])
            tmp = first_foreign_lhs(P, 0)
            return M.line("idx %d %d %s %d %d %d %d" % (t, len(ids), " ".join(str(i) for i in ids), e, M.next_sid, tmp, W)), ("all", P.geoms[0].root)
        if k == "reduce":
            sc = M.view(d["t"]); e = M.expr(d["e"])
            sid = M.new_sto(first, 1)
            tot = M.view_raw(sid, 0, [], [])
            dims = P.geoms[d["shape"]].dims
            return M.line("reduce %s %d %d %d %d %s" % (d["f"], sc, tot, e, len(dims), " ".join(str(x) for x in dims))), ("all", P.geoms[0].root)
        if k == "rdim":
            e = M.expr(d["e"])
            sid = M.new_sto(first, 1)
            tot = M.view_raw(sid, 0, [], [])
            a = P.after
            rsid = M.new_sto(P.memafter.gbase, P.memafter.n)
            res = M.view_raw(rsid, a.off, a.dims, a.strides)
            dims = P.geoms[d["shape"]].dims
            return M.line("rdim %s %d %d %d %s %d %d" % (d["f"], tot, e, len(dims), " ".join(str(x) for x in dims), d["d"], res)), ("view", a)
        if k == "diag":
            e = M.expr(d["e"])
            a = P.after
            rsid = M.new_sto(P.memafter.gbase, P.memafter.n)
            res = M.view_raw(rsid, a.off, a.dims, a.strides)
            dims = P.geoms[d["shape"]].dims
            return M.line("diag %d %d %d %d %d" % (e, dims[0], dims[1], d["k"], res)), ("view", a)
        if k == "scalar":
            t = M.view(d["t"][1], d["t"][2]); e = M.expr(d["e"])
            return M.line("scalar %d %d" % (t, e)), ("all", P.geoms[0].root)
    except ValueError:
        return None
    return None


def parse_model_out(line):
    if not line.startswith("T "):
        return None
    t, _, n = line[2:].partition(" | N")
    tape, _ = parse_tape_part(t)
    cells = [pnum(x)[0] for x in n.split()]
    return tape, cells


def compare_model(P, cmp, mline):
    """None if the model's line agrees with the implementation's, else a description"""
    out = parse_model_out(mline)
    if out is None:
        return "model rejected the statement: %r" % mline[:100]
    tape, cells = out
    if tape != P.tape:
        for i, (a, b) in enumerate(zip(tape, P.tape)):
            if a != b:
                return "tape statement %d: model %s, implementation %s" % (i, show_stmt(a), show_stmt(b))
        return "tape length: model %d statements, implementation %d" % (len(tape), len(P.tape))
    img = P.memafter.cells
    if cmp[0] == "all":
        if cells != img:
            bad = [i for i, (a, b) in enumerate(zip(cells, img)) if a != b][:4]
            return "values after the statement differ at cells %s: model %s, implementation %s" % (
                bad, [fmt(cells[i]) for i in bad], [fmt(img[i]) for i in bad])
    else:
        g = cmp[1]
        for ix in g.indices():
            a = g.addr(ix)
            if a >= len(cells) or cells[a] != img[a]:
                return "value of result element %s: model %s, implementation %s" % (list(ix), fmt(cells[a]) if a < len(cells) else "-", fmt(img[a]))
    return None


def show_stmt(st):
    return "%d:%s" % (st[0], ",".join("%s*%d" % (fmt(m), i) for m, i in st[1]))


# ------------------------------------------------------------------ the oracle: textbook dual numbers
class Dual:
    __slots__ = ("v", "d")

    def __init__(self, v, d=None):
        self.v = v; self.d = d or {}

    @staticmethod
    def lin(a, x, b, y):
        d = {}
        for k, q in x.items():
            d[k] = a * q
        for k, q in y.items():
            d[k] = d.get(k, 0) + b * q
        return {k: q for k, q in d.items() if q != 0}

    def __add__(self, o): return Dual(self.v + o.v, Dual.lin(1, self.d, 1, o.d))
    def __sub__(self, o): return Dual(self.v - o.v, Dual.lin(1, self.d, -1, o.d))
    def __mul__(self, o): return Dual(self.v * o.v, Dual.lin(o.v, self.d, self.v, o.d))
    def __neg__(self): return Dual(-self.v, Dual.lin(-1, self.d, 0, {}))

    def __truediv__(self, o):
        q = self.v / o.v
        return Dual(q, Dual.lin(1 / o.v if isinstance(o.v, Fraction) else 1.0 / o.v, self.d, -q / o.v, o.d))

    def fn(self, name):
        """textbook value and derivative of the element-wise functions (floats)"""
        x = float(self.v)
        m = math
        if name in ("ceil", "floor", "round", "trunc", "rint", "nearbyint"):
            v = {"ceil": m.ceil, "floor": m.floor, "trunc": m.trunc, "rint": round, "nearbyint": round,
                 "round": lambda y: m.copysign(m.floor(abs(y) + 0.5), y)}[name](x)
            return Dual(float(v), {})
        if name == "sqrt":
            r = m.sqrt(x)
            if r == 0:
                raise ZeroDivisionError
            return Dual(r, Dual.lin(0.5 / r, self.d, 0, {}))
        if name == "cbrt":
            r = m.cbrt(x)
            if r == 0:
                raise ZeroDivisionError
            return Dual(r, Dual.lin(1.0 / (3.0 * r * r), self.d, 0, {}))
        table = {
            "sin": (m.sin, m.cos), "cos": (m.cos, lambda y: -m.sin(y)), "tan": (m.tan, lambda y: 1.0 / m.cos(y) ** 2),
            "exp": (m.exp, m.exp), "expm1": (m.expm1, m.exp), "exp2": (lambda y: 2.0 ** y, lambda y: m.log(2.0) * 2.0 ** y),
            "log": (m.log, lambda y: 1.0 / y), "log10": (m.log10, lambda y: 1.0 / (y * m.log(10.0))),
            "log2": (m.log2, lambda y: 1.0 / (y * m.log(2.0))), "log1p": (m.log1p, lambda y: 1.0 / (1.0 + y)),
            "asin": (m.asin, lambda y: 1.0 / m.sqrt(1.0 - y * y)), "acos": (m.acos, lambda y: -1.0 / m.sqrt(1.0 - y * y)),
            "atan": (m.atan, lambda y: 1.0 / (1.0 + y * y)),
            "sinh": (m.sinh, m.cosh), "cosh": (m.cosh, m.sinh), "tanh": (m.tanh, lambda y: 1.0 - m.tanh(y) ** 2),
            "asinh": (m.asinh, lambda y: 1.0 / m.sqrt(y * y + 1.0)), "acosh": (m.acosh, lambda y: 1.0 / m.sqrt(y * y - 1.0)),
            "atanh": (m.atanh, lambda y: 1.0 / (1.0 - y * y)),
            "erf": (m.erf, lambda y: 2.0 / m.sqrt(m.pi) * m.exp(-y * y)),
            "erfc": (m.erfc, lambda y: -2.0 / m.sqrt(m.pi) * m.exp(-y * y)),
        }
        if name not in table:
            raise ValueError(name)
        f, df = table[name]
        try:
            return Dual(f(x), Dual.lin(df(x), self.d, 0, {}))
        except ValueError:
            raise ZeroDivisionError          # outside the domain of the function: not a point of the property

    def pow(self, o):
        x, y = float(self.v), float(o.v)
        try:
            v = x ** y
            dl = y * x ** (y - 1.0) if self.d else 0.0
            dr = v * math.log(x) if o.d else 0.0
        except (ValueError, OverflowError):
            raise ZeroDivisionError
        if isinstance(v, complex):
            raise ZeroDivisionError
        return Dual(v, Dual.lin(dl, self.d, dr, o.d))

    def atan2(self, o):
        y, x = float(self.v), float(o.v)
        q = x * x + y * y
        if q == 0:
            raise ZeroDivisionError
        return Dual(math.atan2(y, x), Dual.lin(x / q, self.d, -y / q, o.d))


class OracleFail(Exception):
    pass


def close(a, b, exact):
    if isinstance(a, float) and (a != a or abs(a) == float("inf")):
        return isinstance(b, float) and (b != b and a != a or a == b)
    if isinstance(b, float) and (b != b or abs(b) == float("inf")):
        return False
    if exact:
        return a == b
    a = float(a); b = float(b)
    return abs(a - b) <= 1e-9 * max(1.0, abs(a), abs(b))


class Oracle:
    """the element-by-element scalar program of every statement, evaluated on its own copy of the memory
    (root handle -> list of Dual), next to the gradients obtained by pushing unit seeds through the tape the
    implementation printed.  Shares no code with the Lean model."""

    def __init__(self):
        self.mem = {}        # root -> [Dual]
        self.G = {}          # gradient index -> derivative dict (tape semantics)
        self.gb = {}         # root -> gbase (or -1)
        self.inputs = {}     # (root, addr) known as initial cells

    def see(self, m, active):
        """first sight of an allocation: its cells are inputs"""
        if m.root in self.mem:
            return
        cells = []
        for a, v in enumerate(m.cells):
            if active:
                key = (m.root, a)
                cells.append(Dual(v, {key: Fraction(1)}))
                self.G[m.gbase + a] = {key: Fraction(1)}
                self.inputs[key] = True
            else:
                cells.append(Dual(v))
        self.mem[m.root] = cells
        self.gb[m.root] = m.gbase if active else -1

    def rd(self, g, ix):
        return self.mem[g.root][g.addr(ix)]

    def ev(self, e, P, ix):
        t = e[0]
        if t == "arr":
            g = P.geoms[e[1]]
            return self.rd(g, ix if g.dims else ())
        if t == "el":
            return self.rd(P.geoms[e[1]], e[2])
        if t == "c":
            return Dual(e[1])
        if t == "add": return self.ev(e[1], P, ix) + self.ev(e[2], P, ix)
        if t == "sub": return self.ev(e[1], P, ix) - self.ev(e[2], P, ix)
        if t == "mul": return self.ev(e[1], P, ix) * self.ev(e[2], P, ix)
        if t == "div": return self.ev(e[1], P, ix) / self.ev(e[2], P, ix)
        if t == "neg": return -self.ev(e[1], P, ix)
        if t == "noalias": return self.ev(e[1], P, ix)
        if t in ("max", "min"):
            # the scalar statement max(l, r) / min(l, r) on adoubles: the derivative is that of the selected operand; at a
            # tie max selects the right operand and min the left one (Max::is_left `l > r`, Min::is_left `l <= r`)
            l = self.ev(e[1], P, ix); r = self.ev(e[2], P, ix)
            if t == "max":
                return l if l.v > r.v else r
            return l if l.v <= r.v else r
        if t == "abs":
            x = self.ev(e[1], P, ix)
            sg = 1 if x.v > 0 else -1 if x.v < 0 else 0          # (val>0.0)-(val<0.0)
            return Dual(abs(x.v), Dual.lin(sg, x.d, 0, {}))
        if t == "pow": return self.ev(e[1], P, ix).pow(self.ev(e[2], P, ix))
        if t == "atan2": return self.ev(e[1], P, ix).atan2(self.ev(e[2], P, ix))
        if t in FLOAT_FUNCS: return self.ev(e[1], P, ix).fn(t)
        if t == "idx":
            g = P.geoms[e[1]]
            return self.rd(g, tuple(P.geoms[v].iv[i] for v, i in zip(e[2], ix)))
        if t == "spread":
            d = e[1]
            return self.rd(P.geoms[e[3]], tuple(ix[:d]) + tuple(ix[d + 1:]))
        if t == "outer":
            return self.rd(P.geoms[e[1]], (ix[0],)) * self.rd(P.geoms[e[2]], (ix[1],))
        raise ValueError(t)

    @staticmethod
    def reduce(f, xs):
        if f == "sum" or f == "mean":
            acc = Dual(Fraction(0))
            for x in xs:
                acc = acc + x
            if f == "mean":
                acc = acc / Dual(Fraction(len(xs)))
            return acc
        if f == "product":
            acc = Dual(Fraction(1))
            for x in xs:
                acc = acc * x
            return acc
        if f in ("minval", "maxval"):
            best = xs[0]
            for x in xs[1:]:
                if (x.v > best.v) if f == "maxval" else (x.v < best.v):
                    best = x
            return best
        if f == "norm2":
            acc = Dual(Fraction(0))
            for x in xs:
                acc = acc + x * x
            return acc.fn("sqrt")
        raise ValueError(f)

    def statement(self, w, P):
        """execute the denotation of op `w` on the oracle memory, then judge the implementation's line P.
        Returns None or a message."""
        d = describe(w)
        if d is None:
            return "oracle: unknown statement %r" % w[0]
        if P.badgeom:
            return "element access through operator() disagrees with the printed geometry (data()[Σ i·stride])"
        for g in P.geoms:
            if g.iv is None:
                self.see(P.mems[g.root], g.active)
        # the implementation's before-image must be what the oracle holds (values carried between statements)
        for r, m in P.mems.items():
            mine = self.mem[r]
            for a, v in enumerate(m.cells):
                if not close(v, mine[a].v, True) and not close(v, mine[a].v, False):
                    return "memory of handle %d drifted before the statement (cell %d: %s, oracle %s)" % (r, a, fmt(v), fmt(mine[a].v))
        if P.status != "ok":
            return "statement raised %s" % P.status
        k = d["kind"]
        exact = P.exact and not d.get("float") and d.get("f") != "norm2"
        writes = []      # (root, addr, Dual) in program order
        tg = P.geoms[d["t"]] if isinstance(d.get("t"), int) else None
        if k in ("assign", "eval"):
            vals = [(ix, self.ev(d["e"], P, ix)) for ix in tg.indices()]       # whole right-hand side first
            writes = [(tg.root, tg.addr(ix), v) for ix, v in vals]
        elif k == "bcasta":
            s = self.rd(P.geoms[d["s"]], ())
            writes = [(tg.root, tg.addr(ix), s) for ix in tg.indices()]
        elif k == "bcaste":
            s = self.ev(d["e"], P, ())
            writes = [(tg.root, tg.addr(ix), s) for ix in tg.indices()]
        elif k == "where":
            sel = [ix for ix in tg.indices() if self.ev(d["ma"], P, ix).v > self.ev(d["mb"], P, ix).v]
            vals = [(ix, self.ev(d["e"], P, ix)) for ix in sel]
            writes = [(tg.root, tg.addr(ix), v) for ix, v in vals]
        elif k == "eitheror":
            vals = []
            for ix in tg.indices():
                m = self.ev(d["ma"], P, ix).v > self.ev(d["mb"], P, ix).v
                vals.append((ix, self.ev(d["ec"] if m else d["ed"], P, ix)))
            writes = [(tg.root, tg.addr(ix), v) for ix, v in vals]
        elif k == "idx":
            ivs = [P.geoms[i].iv for i in d["iv"]]
            ixs = list(itertools.product(*[range(len(v)) for v in ivs]))
            if d.get("seq"):
                # `T(i) op= A` reads the target element it is about to write: with a repeated index the scalar loop
                # `for k: T[i[k]] = T[i[k]] op A[k]` sees the earlier update
                for ix in ixs:
                    ad = tg.addr(tuple(v[i] for v, i in zip(ivs, ix)))
                    val = self.ev(d["e"], P, ix)
                    self.mem[tg.root][ad] = val
                    writes.append((tg.root, ad, val))
            else:
                vals = [self.ev(d["e"], P, ix) for ix in ixs]
                writes = [(tg.root, tg.addr(tuple(v[i] for v, i in zip(ivs, ix))), val) for ix, val in zip(ixs, vals)]
        elif k == "reduce":
            sg = P.geoms[d["shape"]]
            xs = [self.ev(d["e"], P, ix) for ix in sg.indices()]
            writes = [(tg.root, tg.addr(()), self.reduce(d["f"], xs))]
        elif k == "rdim":
            sg = P.geoms[d["shape"]]; dim = d["d"]
            a = P.after
            newroot = a.root
            self.mem[newroot] = [Dual(c) for c in P.memafter.cells]     # padding cells: whatever the allocation holds
            self.gb[newroot] = P.memafter.gbase
            for jx in a.indices():
                xs = [self.ev(d["e"], P, tuple(jx[:dim]) + (i,) + tuple(jx[dim:])) for i in range(sg.dims[dim])]
                writes.append((newroot, a.addr(jx), self.reduce(d["f"], xs)))
        elif k == "diag":
            # N = diag_vector(expr, k): element j is expr(j, j+k) for k >= 0 and expr(j-k, j) for k < 0
            sg = P.geoms[d["shape"]]; kk = d["k"]
            a = P.after
            n = min(sg.dims[0], sg.dims[1] - kk) if kk >= 0 else min(sg.dims[0] + kk, sg.dims[1])
            if a.dims != [max(n, 0)]:
                return "diag_vector(expression, %d) of a %dx%d expression has %s elements, expected %d" % (
                    kk, sg.dims[0], sg.dims[1], a.dims, max(n, 0))
            newroot = a.root
            self.mem[newroot] = [Dual(c) for c in P.memafter.cells]
            self.gb[newroot] = P.memafter.gbase
            for j in range(n):
                ix = (j, j + kk) if kk >= 0 else (j - kk, j)
                writes.append((newroot, a.addr((j,)), self.ev(d["e"], P, ix)))
        elif k == "scalar":
            t = d["t"]
            g = P.geoms[t[1]]
            writes = [(g.root, g.addr(t[2]), self.ev(d["e"], P, ()))]
            tg = g
        a = P.after
        sw = k == "eval" and swapped(P)
        if sw:
            # the target took over the array eval() returned (move assignment): same elements, new allocation;
            # the cells it had at the start of the recording are gone
            self.mem[a.root] = [Dual(c) for c in P.memafter.cells]
            self.gb[a.root] = P.memafter.gbase
            for key in [q for q in self.inputs if q[0] == a.root]:
                del self.inputs[key]
            writes = [(a.root, a.addr(ix), v) for (ix, v) in vals]
        for r, ad, v in writes:
            self.mem[r][ad] = v
        # tape semantics of what the implementation recorded
        for lhs, ops in P.tape:
            acc = {}
            for m, i in ops:
                if i not in self.G:
                    return ("the recorded statement d[%d] = ... uses gradient index %d, which belongs to no operand and was "
                            "never the left-hand side of a statement" % (lhs, i))
                acc = Dual.lin(1, acc, m, self.G[i])
            self.G[lhs] = acc
        # judge: values of the whole allocation the target lives in, derivatives of every cell written
        root = a.root
        img = P.memafter
        if k in ("rdim", "diag") or sw:
            cells = [ad for r, ad, _ in writes]
        else:
            cells = range(img.n)
        for ad in cells:
            if not close(img.cells[ad], self.mem[root][ad].v, exact):
                return "value of cell %d of handle %d after the statement: %s, the scalar loop gives %s" % (
                    ad, root, fmt(img.cells[ad]), fmt(self.mem[root][ad].v))
        for r, ad, v in writes:
            gidx = img.gbase + ad if r == root else None
            if gidx is None:
                continue
            got = self.G.get(gidx, {})
            want = self.mem[r][ad].d
            for key in set(got) | set(want):
                if not close(got.get(key, Fraction(0)), want.get(key, Fraction(0)), exact):
                    return ("d(cell %d of handle %d)/d(initial cell %d of handle %d) by the recorded tape: %s, "
                            "by the scalar loop: %s" % (ad, r, key[1], key[0], fmt(got.get(key, Fraction(0))), fmt(want.get(key, Fraction(0)))))
        return None

    def jacobian(self, deps, indeps, exactflag=True):
        """deps/indeps: lists of Geom (current geometry) -> expected matrix rows (list of lists) or None if an
        independent is not an initial allocation"""
        cols = []
        for g in indeps:
            for ix in g.indices():
                key = (g.root, g.addr(ix))
                if key not in self.inputs:
                    return None
                cols.append(key)
        rows = []
        for g in deps:
            for ix in g.indices():
                dd = self.mem[g.root][g.addr(ix)].d
                rows.append([dd.get(c, Fraction(0)) for c in cols])
        return rows


def parse_J(line):
    if not line.startswith("J "):
        return None
    head, _, vals = line.partition(":")
    w = head.split()
    r, c = int(w[1]), int(w[2])
    v = [pnum(x)[0] for x in vals.split()]
    if len(v) != r * c:
        return None
    return [[v[i * c + j] for j in range(c)] for i in range(r)]
