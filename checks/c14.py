"""C14 — shared array data can be linked/sliced concurrently when built thread-safe.   (PARTIAL, like C12)

proof:  lean/AdeptProofs/Props/C14.lean — for EVERY interleaving of the atomic steps of any number of well-formed threads the
        shared storage is freed exactly once, by the removal of the last view, and never touched afterwards (invariant:
        counter = number of views); the split shapes of remove_link have concrete double-free schedules; soft links never touch
        the count; every conflicting access of a C14 workload is atomic (thread-safe build) / absent (soft links, default build).
tie:    translate/storagecfg.py regenerates Generated/StorageCfg.lean from Storage.h (type of n_links_ with/without
        ADEPT_STORAGE_THREAD_SAFE, shape of remove_link/add_link, counter types) and the theorems are instantiated with these
        flags; translate/globals.py as in C12.  Dynamic: harness/drv_threads.cpp under ThreadSanitizer: -DADEPT_STORAGE_THREAD_SAFE
        build with 2/4/8 threads copy-constructing, linking, slicing, destroying views of one shared Matrix/SymmMatrix + private
        arrays, the creator leaving while views are alive, a last-link stress; default build through soft links only;
        n_links()/n_storage_objects() after join; deterministic schedules on real threads vs the Lean machine.
        Soft links of EVERY class that has soft_link() (Array rank 1..3, all seven SpecialMatrix kinds) through const and non-const
        receivers + links/copies/views of them, empty and rejected views of the shared data (see ctx.notes soft_link_workload);
        the configuration census of storagecfg.py runs without and with -fopenmp (_OPENMP).
oracle: a soft link and everything derived from it never changes n_links() and owns no Storage (sampled solo and in threads);
        storage counts after join, bitwise solo/parallel results, ThreadSanitizer, python bookkeeping of the views.
"""
import json
import vbuild, vcheck
import threadcommon as tc

LEVEL = "proof"
NS = "Adept.Threads."
REQUIRED = ["C14_thread_safe_build_shape", "C14_thread_safe_under_every_config", "C14_atomic_freed_once", "C14_freed_once_thread_safe_build", "C14_split_can_double_free",
            "C14_soft_link_no_count", "C14_soft_link_machine", "C14_hypothesis_thread_safe", "C14_race_free_thread_safe",
            "C14_hypothesis_soft_default", "C14_race_free_soft_default"]


def cases(rng, n, lo, hi):
    return [([2, 4, 8][i % 3], rng.randrange(1, 1 << 30), rng.randint(lo, hi)) for i in range(n)]


def run(ctx, replay):
    fails = tc.translate(ctx)
    thms = [NS + t for t in vcheck.prop_theorems("AdeptProofs/Props/C14.lean", "C14_")]
    fails += vcheck.lean_gate(ctx, ["AdeptProofs.Props.C14"], thms, required=[NS + r for r in REQUIRED])
    ctx.pending = []
    exe_ts = tc.build(True)
    exe_df = tc.build(False)
    if replay:
        r = json.load(open(replay))
        if r.get("kind") == "tsan-run":
            tc.replay_workload(ctx, r)
        elif r.get("kind") == "sched":
            tc.replay_sched(ctx, r)
        tc.report(ctx, fails, "C14")
        return
    thorough = ctx.tier == "thorough"
    n_ts, n_soft = (66, 34) if thorough else (14, 7)
    hi = 100000 if thorough else 30000
    tc.run_many(ctx, exe_ts, "thread-safe", "c14ts", cases(ctx.rng, n_ts, 500, hi))
    tc.run_many(ctx, exe_df, "default", "c14soft", cases(ctx.rng, n_soft, 500, hi))
    # a configuration switch that cancels ADEPT_STORAGE_THREAD_SAFE (theorem C14_thread_safe_under_every_config broken): look for
    # the failing run in a build with both macros
    broken = tc.broken_config_combinations()
    ctx.notes["config_combinations_cancelling_thread_safety"] = broken
    for mac in broken[:3]:
        try:
            exe_x = tc.build(True, also=[mac])
        except Exception as e:
            ctx.notes.setdefault("config_combination_build_failed", []).append("%s: %s" % (mac, str(e)[:200]))
            continue
        tc.run_many(ctx, exe_x, "thread-safe+" + mac, "c14ts", cases(ctx.rng, 6, 2000, hi))
    nsched = 300 if thorough else 100
    tc.run_sched_batch(ctx, exe_ts, "thread-safe", "threadsafe", tc.sched_cases(ctx.rng, nsched, shared=True, stacks=False),
                       "reference count / storage count of the shared array on real threads")
    tc.run_sched_batch(ctx, exe_df, "default", "default", tc.sched_cases(ctx.rng, nsched // 2, shared=True, stacks=False),
                       "reference count / storage count of the shared array on real threads")
    problems = tc.nlinks_enumeration(ctx, thorough)
    for p in problems[:2]:
        ctx.violation("the executable n_links_ machine contradicts what is proved about it: " + p[:500],
                      {"kind": "model-selftest", "detail": problems[:10]}, tag="m", no_input=True)
    ctx.cov["rule"] = ("%d ThreadSanitizer runs of the -DADEPT_STORAGE_THREAD_SAFE build (T in {2,4,8} threads, 500..%d seeded operations each on "
                       "ONE shared Matrix + SymmMatrix: copy-construct, link, link of link, slices, diag_vector, vectors of copies, writes to an "
                       "own row through a view, private arrays; creator leaves early for odd seeds; + up to 400 rounds of T simultaneous "
                       "last-link removals) and %d runs of the default build through soft links; results bitwise against the solo run; n_links "
                       "and n_storage_objects after join; + %d deterministic schedules (link/unlink/soft view/private arrays over 1..4 real "
                       "threads) compared line by line with the Lean machine and a python bookkeeping; + the Lean n_links_ machine run over ALL "
                       "interleavings of small programs in the three remove_link shapes; distinct = different (build, threads, seed, rounds) or "
                       "schedule" % (n_ts, hi, n_soft, nsched + nsched // 2))
    ctx.notes["soft_link_workload"] = ("c14soft (default build, plain int counter): the workers' handles are soft links taken by main through "
                                       "const and non-const receivers (Matrix: odd/even k, SymmMatrix: even/odd k); 1 round in 3 a worker takes "
                                       "its OWN soft links from a shared object drawn uniformly from {Vector, Matrix, Array3D, SquareMatrix, "
                                       "DiagMatrix, TridiagMatrix, PentadiagMatrix, SymmMatrix, LowerMatrix, UpperMatrix, rank-specific views}: "
                                       "always BOTH overloads (const and non-const receiver), then link, link to the const temporary, copy "
                                       "(both copy constructors), diag_vector, submatrix_on_diagonal, slices, empty and rejected views of the "
                                       "soft link; invariant sampled after every group, solo and in the threads: n_links() of the shared data "
                                       "unchanged and every derived object has storage()==0.  c14ts/c14soft: 2 rounds in 9 are empty views "
                                       "(zero extent in the first / second position, copies and links of them) and rejected views (negative "
                                       "extent, out-of-range submatrix; exception caught in the thread); link counts of Matrix and SymmMatrix "
                                       "before/after and exactly-once free checked after the join")
    ctx.cov["exhaustive"] = False
    ctx.assumptions += [
        "PARTIAL: freed-exactly-once and race freedom are proved for an abstract machine whose atomic steps are those Storage.h prescribes "
        "(generated flags); that the compiled code performs exactly these steps atomically is OBSERVED by ThreadSanitizer on the sampled "
        "interleavings; std::atomic, the C++ memory model, malloc/free and the compiler are trusted",
        "well-formed threads: a thread only copies/links/slices a view it owns and only destroys views it owns; an Array OBJECT is never "
        "shared between threads, only its Storage; the array DATA is the user's business (threads read shared rows and write disjoint rows)",
        "in the loadStore shape (default build) add_link is modelled as atomic: a weaker adversary than the real plain ++, sufficient for the "
        "refutation; the positive theorem is only claimed for the thread-safe build",
    ]
    tc.report(ctx, fails, "C14")
