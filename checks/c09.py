"""C09 — recording never writes outside its buffers, whatever their initial size.

proof:  lean/AdeptProofs/Props/C09.lean — for EVERY capacity and fill level a stream that keeps the reservation
        discipline runs without an out-of-range write; push_lhs/push_lhs_range never fault; counts are capacity
        independent; preallocate_* only helps; and for ALL sizes the event stream of each modelled recording site,
        with its reservation expression REGENERATED from the source (translate/reserve.py), is disciplined
tie:    hook H1 logs the real event stream of every statement; each logged stream is (a) replayed through the model from
        the logged start state and must end in the logged end state, (b) compared with the site model where one exists,
        (c) judged with `disciplined`; builds with ADEPT_INITIAL_STACK_LENGTH 1,2,3,7,64
oracle: no `F` (reported out-of-range write) event in any build; the tape dump and the gradients of a reverse sweep are identical
        across capacities; the real preallocate_statements/operations (member and free functions, op `prealloc`) record nothing,
        shrink nothing, leave room for n more, and the same history without them gives the same tape and gradients
"""
import os, json, subprocess, sys
from concurrent.futures import ThreadPoolExecutor
import vbuild, vcheck
import tapecommon as tc

LEVEL = "proof"
NS = "Adept.RecBuf."
REQUIRED = ["C09_node_traits_consistent", "C09_every_recording_call_reserved", "C09_site_diag_vector", "C09_site_element_temporary", "C09_site_matmul",
            "C09_check_reserves", "C09_lhs_safe", "C09_disciplined_safe", "C09_no_fault_any_capacity",
            "C09_counts_capacity_independent", "C09_preallocate_harmless", "C09_preallocate_operations_room",
            "C09_preallocate_statements_room", "C09_preallocate_same_counts", "C09_site_scalar", "C09_site_copy",
            "C09_site_dependence", "C09_site_array_assign", "C09_site_array_from_scalar", "C09_site_conditional"]


def n_active(tokens):
    return sum(1 for t in tokens if t.startswith("v"))


def expected_site(op):
    """(site kind, x, y) for scalar ops whose recording site is modelled, else None"""
    w = op.split()
    if w[0] == "asg":
        toks = w[2:]
        if len(toks) == 1 and toks[0].startswith("v"):
            return ("copy1", 0, 0)
        return ("scalarAssign", n_active(toks), 0)
    if w[0] == "newc":
        return ("copy1", 0, 0)
    if w[0] in ("cadd", "csub", "cmul") and w[2].startswith("v"):
        return ("scalarAssign", 2, 0)
    if w[0] == "cmul" and w[2].startswith("c"):
        return ("scalarAssign", 1, 0)
    if w[0] == "rcmul":
        return ("refAssign", 1, 0)      # ActiveReference *= passive is `*this = *this * rhs`
    if w[0] == "adep":
        return ("stackAddDep", 0 if int(w[3]) == 0 else 1, 0)
    if w[0] == "adepv":
        # array form: n reserved, the non-zero multipliers pushed, then the statement
        ms = [int(w[j + 1]) for j in range(5, len(w) - 1, 2)]
        return ({"a": "activeAddDep", "r": "activeRefAddDep", "c": "activeConstRefAddDep"}[w[1]], len(ms), sum(1 for m in ms if m != 0))
    return None


PRE_NS = [0, 1, 2, 3, 4, 5, 7, 8, 13, 40, 200]


def prealloc_op(rng, which=None, n=None, form=None):
    """`prealloc s|o <n> [m|f]`: Stack::preallocate_statements / preallocate_operations, member (m or nothing) or free function (f)"""
    which = which or rng.choice("so")
    n = rng.choice(PRE_NS) if n is None else n
    form = rng.choice(["", " m", " f"]) if form is None else form
    return "prealloc %s %d%s" % (which, n, form)


def finish_program(g):
    """tape dump, then one reverse sweep seeded at the last left-hand side and the gradient of every live variable: what the
    capacity builds and the histories with / without preallocate_* calls must agree on"""
    g.emit("tape")
    live = sorted(g.live)
    y = g.last_lhs if g.last_lhs in g.live else live[-1]
    g.emit("seed %d 1" % y)
    g.emit("rev")
    for k in live:
        g.emit("get %d" % k)


def gen_program(rng, pre_rate=0.18):
    g = tc.Gen(rng, array_forms=True)
    g.emit("cfg 4 0 1")
    for _ in range(rng.randint(2, 4)):
        g.new()
    g.emit("nr")
    g.emit("ev")
    n = rng.randint(4, 40)
    for _ in range(n):
        if rng.random() < pre_rate:
            g.emit(prealloc_op(rng)); g.emit("ev")
        k = len(g.ops)
        g.statement()
        if len(g.ops) > k:
            g.emit("ev")
    if rng.random() < pre_rate:
        g.emit(prealloc_op(rng)); g.emit("ev")
    finish_program(g)
    return g.ops


def directed_prealloc_programs(rng, tier):
    """every (function, form, n) at every fill level 0..pad_max of a fresh recording: `pad` copies (one operation and one statement
    each) then the call, then three more statements.  With capacities 1, 2, 3 the fill levels straddle both growth conditions
    (allocated < n_operations+n+1, n_statements+n+1 >= allocated) and both growth amounts (2*allocated, 2*allocated+n)."""
    out = []
    pads = range(0, 8) if tier == "quick" else range(0, 14)
    ns = [0, 1, 2, 3, 5, 8, 40] if tier == "quick" else PRE_NS
    for which in "so":
        for n in ns:
            for pad in pads:
                forms = [rng.choice(["", " m"]), " f"] if tier != "quick" else [rng.choice(["", " m", " f"])]
                for form in forms:
                    g = tc.Gen(rng)
                    g.emit("cfg 4 0 1")
                    a, b = g.new(), g.new()
                    g.emit("nr"); g.emit("ev")
                    for _ in range(pad):
                        g.live[a] = g.live[b]
                        g.emit("asg %d v%d" % (a, b)); g.emit("ev")
                        g.last_lhs = a
                    g.emit(prealloc_op(rng, which, n, form)); g.emit("ev")
                    if rng.random() < 0.3:      # two calls in a row: the second finds the room the first made
                        g.emit(prealloc_op(rng, rng.choice("so"), rng.choice(ns), None)); g.emit("ev")
                    for _ in range(3):
                        k = len(g.ops)
                        g.statement()
                        if len(g.ops) > k:
                            g.emit("ev")
                    finish_program(g)
                    out.append(g.ops)
    return out


def strip_prealloc(ops):
    """the same history without the preallocate_* calls (and the `ev` that follows each)"""
    out, skip = [], False
    for o in ops:
        if skip and o == "ev":
            skip = False
            continue
        skip = False
        if o.startswith("prealloc "):
            skip = True
            continue
        out.append(o)
    return out


def parse_E(line):
    # "E nOps/alloc nSt/alloc : events"
    if not line.startswith("E "):
        return None
    head, _, evs = line.partition(":")
    w = head.split()
    try:
        a, b = w[1].split("/"); c, d = w[2].split("/")
        return (int(a), int(b), int(c), int(d)), evs.split()
    except Exception:
        return None


def run(ctx, replay):
    # 1. regenerate the reservation table from the working tree
    env = dict(os.environ)
    r = subprocess.run([sys.executable, os.path.join(vbuild.VERIF, "translate", "reserve.py")], stdout=subprocess.PIPE,
                       stderr=subprocess.STDOUT, text=True, env=env)
    fails = []
    if r.returncode != 0:
        fails.append("translator translate/reserve.py failed: " + r.stdout[-1500:])
    ctx.notes["translator"] = r.stdout.strip()[-300:]
    thms = [NS + t for t in vcheck.prop_theorems("AdeptProofs/Props/C09.lean", "C09_")]
    fails += vcheck.lean_gate(ctx, ["AdeptProofs.Props.C09"], thms, required=[NS + x for x in REQUIRED])
    if r.returncode != 0:
        ctx.cov["discharged"] = 0   # the theorems were checked against a stale table
    caps = [1, 3, 64] if ctx.tier == "quick" else [1, 2, 3, 7, 64]
    with ThreadPoolExecutor(max_workers=len(caps)) as ex:
        exes = list(ex.map(lambda c: tc.build(W=4, stack_len=c), caps))
    ctx.pending, nbad = [], 0
    if replay:
        rr = json.load(open(replay))
        for c, exe in zip(caps, exes):
            il = vcheck.run_impl(exe, [], "\n".join(rr["ops"]) + "\n")[0]
            print("== capacity %d" % c)
            print("\n".join("%-40s | %s" % (o, l) for o, l in zip(rr["ops"], il)))
        return
    nprog = 150 if ctx.tier == "quick" else 1200
    progs = [gen_program(ctx.rng) for _ in range(nprog)] + directed_prealloc_programs(ctx.rng, ctx.tier)
    # twin histories: the same program without its preallocate_* calls; tape dump and gradients must be identical
    twin = {}
    for pi in range(len(progs)):
        if any(o.startswith("prealloc ") for o in progs[pi]):
            twin[pi] = len(progs)
            progs.append(strip_prealloc(progs[pi]))
    pre_stats = ctx.notes.setdefault("preallocate_calls", {"operations": 0, "statements": 0, "member": 0, "free_function": 0,
                                                            "grew": 0, "left_alone": 0, "n_values": {}})
    text = "".join("\n".join(p) + "\n" for p in progs)
    outs = [vcheck.run_impl(exe, [], text) for exe in exes]
    # model queries are batched: one `runfrom`, one `judge`, (one `site`) per logged stream
    queries, qmeta = [], []
    tapes = {}
    for ci, (cap, (impl, rc, err)) in enumerate(zip(caps, outs)):
        pos = 0
        for pi, ops in enumerate(progs):
            il = impl[pos:pos + len(ops)]
            pos += len(ops)
            if len(il) < len(ops):
                ctx.violation("implementation stopped while recording with initial capacity %d: rc=%s %s" % (cap, rc, vcheck.san_summary(err)),
                              {"kind": "crash", "capacity": cap, "ops": ops, "stderr": err[-3000:]})
                nbad += 1
                break
            ti = ops.index("tape")
            tapes.setdefault(pi, {})[cap] = " ## ".join(il[ti:])     # tape dump + gradients of the reverse sweep
            prev = None
            last_op = None
            for o, l in zip(ops, il):
                if o != "ev":
                    last_op = o
                    continue
                pe = parse_E(l)
                if pe is None:
                    ctx.violation("hook H1 produced no event line (is the hook still compiled in?): %r" % l[:100],
                                  {"kind": "hook", "correspondence": "hook H1 event log", "capacity": cap, "ops": ops}, tag="h", no_input=True)
                    nbad += 1
                    break
                state, evs = pe
                faults = [e for e in evs if e.startswith("F")]
                if faults and nbad < 3:
                    nbad += 1
                    ctx.violation("statement %r wrote outside the operation buffer with initial capacity %d (event %s: index/allocated)"
                                  % (last_op, cap, faults[0]),
                                  {"kind": "oracle", "capacity": cap, "ops": ops[:ops.index(o, 0) + 1] if False else ops,
                                   "statement": last_op, "events": evs, "state_after": state})
                if prev is not None and last_op and last_op.startswith("prealloc ") and not faults:
                    # oracle for the calls themselves, from the documentation ("memory ... can be preallocated"): nothing is
                    # recorded, nothing shrinks, the other buffer is untouched, and there is room for n more afterwards
                    pw = last_op.split()
                    pn = int(pw[2])
                    bad = None
                    if evs != [pw[1] + pw[2]]:
                        bad = "the call made the recording buffers do something: events %s" % evs[:10]
                    elif (state[0], state[2]) != (prev[0], prev[2]):
                        bad = "the call changed the number of recorded operations/statements"
                    elif state[1] < prev[1] or state[3] < prev[3]:
                        bad = "a buffer shrank"
                    elif pw[1] == "o" and (state[3] != prev[3] or state[1] - state[0] < pn):
                        bad = "no room for %d operations afterwards (or the statement buffer changed)" % pn
                    elif pw[1] == "s" and (state[1] != prev[1] or state[3] - state[2] < pn):
                        bad = "no room for %d statements afterwards (or the operation buffer changed)" % pn
                    if bad and nbad < 3:
                        nbad += 1
                        ctx.violation("%r with initial capacity %d: %s (operations n/allocated, statements n/allocated: before %s after %s)"
                                      % (last_op, cap, bad, prev, state),
                                      {"kind": "oracle", "capacity": cap, "ops": ops, "statement": last_op, "events": evs,
                                       "state_before": prev, "state_after": state})
                    if True:
                        pre_stats["operations" if pw[1] == "o" else "statements"] += 1
                        pre_stats["free_function" if pw[-1] == "f" else "member"] += 1
                        pre_stats["grew" if (state[1], state[3]) != (prev[1], prev[3]) else "left_alone"] += 1
                        pre_stats["n_values"][pn] = pre_stats["n_values"].get(pn, 0) + 1
                if prev is not None and evs and not faults:
                    queries.append("runfrom %d %d %d %d %s" % (prev + (" ".join(evs),)))
                    qmeta.append(("run", cap, pi, last_op, state, evs))
                    queries.append("judge " + " ".join(evs))
                    qmeta.append(("judge", cap, pi, last_op, state, evs))
                    es = expected_site(last_op) if last_op else None
                    if es:
                        queries.append("site %s %d %d" % es)
                        qmeta.append(("site", cap, pi, last_op, state, evs))
                        ctx.notes.setdefault("site_kinds_hit", {})
                        ctx.notes["site_kinds_hit"][es[0]] = ctx.notes["site_kinds_hit"].get(es[0], 0) + 1
                    ctx.count_case((cap, last_op, tuple(evs), prev), nontrivial=len(evs) > 1,
                                   sample={"capacity": cap, "statement": last_op, "start": prev, "events": evs, "end": state})
                prev = state
    # ---- array statements (every array/reduction/indexed/where/FixedArray recording site) through the C03 driver
    acaps = [2, 3, 64] if ctx.tier == "quick" else [2, 3, 7, 64]
    try:
        import c03, arrayadcommon as ac
        with ThreadPoolExecutor(max_workers=len(acaps)) as ex:
            aexes = list(ex.map(lambda c: ac.build(stack_len=c), acaps))
        ncase = 60 if ctx.tier == "quick" else 500
        acases = []
        for _ in range(ncase):
            ops0, _g = c03.gen_case(ctx.rng, ctx.rng.choice(["default", "default", "fixed-indexed"]))
            ops1 = []
            for o in ops0:
                if o.startswith("jac") or o.startswith("geom"):
                    continue
                ops1.append(o)
                if ac.is_stmt(o) or o == "nr":
                    ops1.append("ev")
            # recording sites the C03 generator does not emit (drv_arrayad_s5.cpp): diag_vector of an active expression
            # (F-69), the Active temporaries of Array/FixedArray::get_rvalue (F-70), each at a random fill level
            rg = ctx.rng
            d0, d1 = rg.randint(2, 5), rg.randint(2, 5)
            vals = lambda n: " ".join(str(rg.randint(-3, 3)) for _ in range(n))
            ops1 += ["av 9001 %d %d : %s" % (d0, d1, vals(d0 * d1)),
                     "%s 9002 %d %d : %s" % (rg.choice(["av", "pv"]), d0, d1, vals(d0 * d1)),
                     "as 9003 2", "f4 9004 : 1 2 3 4", "ev"]
            extra = ["dvx 9010 9001 9002 %d" % rg.randint(-(d0 - 1), d1 - 1),
                     "dvx 9011 9001 9002 %d" % rg.randint(-(d0 - 1), d1 - 1),
                     "elg 9003 9001 9001 : %d %d : %d %d" % (rg.randrange(d0), rg.randrange(d1), rg.randrange(d0), rg.randrange(d1)),
                     "fxg 9003 9004 %d %d" % (rg.randrange(4), rg.randrange(4))]
            rg.shuffle(extra)
            for e in extra:
                ops1 += ["pad %d" % rg.randint(1, 6), "ev", e, "ev"]
            acases.append(ops1)
        # the directed sweep of C03 (one statement per case: every statement family x its discrete parameters, ~720 cases), each
        # statement at a random fill level: every recording site of the array driver is reached in every run
        for ops0, _g in c03.sweep_cases(ctx.rng, ctx.tier):
            ops1 = []
            for o in ops0:
                if o.startswith("jac") or o.startswith("geom"):
                    continue
                if ac.is_stmt(o):
                    ops1 += ["pad %d" % ctx.rng.randint(0, 6), "ev"] if ctx.rng.random() < 0.7 else []
                ops1.append(o)
                if ac.is_stmt(o) or o == "nr":
                    ops1.append("ev")
            acases.append(ops1)
        atext = "".join("\n".join(c) + "\n" for c in acases)
        aouts = [vcheck.run_impl(exe, [], atext) for exe in aexes]
        stmt_lines = {}
        for cap, (impl, rc, err) in zip(acaps, aouts):
            pos = 0
            for pi, ops in enumerate(acases):
                il = impl[pos:pos + len(ops)]
                pos += len(ops)
                if len(il) < len(ops):
                    if nbad < 3:
                        nbad += 1
                        ctx.violation("the array driver stopped while recording with initial capacity %d: rc=%s %s"
                                      % (cap, rc, vcheck.san_summary(err)),
                                      {"kind": "crash", "family": "arrayad", "capacity": cap, "ops": ops, "stderr": err[-3000:]})
                    break
                prev, last_op = None, None
                for oi, (o, l) in enumerate(zip(ops, il)):
                    if o != "ev":
                        last_op = o
                        if ac.is_stmt(o) or o.split()[0] in ac.EXTRA_KINDS:
                            # what was recorded (tape part of the statement line) must not depend on the capacity
                            tpart = l.split(" | T ", 1)[1].split(" | A ", 1)[0] if " | T " in l else l[:200]
                            stmt_lines.setdefault((pi, oi), {})[cap] = tpart
                        continue
                    pe = parse_E(l)
                    if pe is None:
                        continue
                    state, evs = pe
                    faults = [e for e in evs if e.startswith("F")]
                    if faults and nbad < 3:
                        nbad += 1
                        ctx.violation("array statement %r wrote outside the operation buffer with initial capacity %d (event %s: "
                                      "index/allocated)" % (last_op, cap, faults[0]),
                                      {"kind": "oracle", "family": "arrayad", "capacity": cap, "ops": ops[:oi + 1],
                                       "statement": last_op, "events": evs[:80], "state_after": state})
                    if prev is not None and evs and not faults and last_op:
                        queries.append("runfrom %d %d %d %d %s" % (prev + (" ".join(evs),)))
                        qmeta.append(("run", cap, ("A", pi), last_op, state, evs))
                        queries.append("judge " + " ".join(evs))
                        qmeta.append(("judge", cap, ("A", pi), last_op, state, evs))
                        kind = last_op.split()[0]
                        ctx.notes.setdefault("array_statement_kinds_hit", {})
                        ctx.notes["array_statement_kinds_hit"][kind] = ctx.notes["array_statement_kinds_hit"].get(kind, 0) + 1
                        ctx.count_case((cap, last_op, tuple(evs), prev), nontrivial=len(evs) > 1,
                                       sample={"capacity": cap, "statement": last_op, "start": prev, "events": evs[:30], "end": state})
                    prev = state
        for (pi, oi), dct in stmt_lines.items():
            if len(set(dct.values())) > 1 and nbad < 3:
                nbad += 1
                ctx.violation("what an array statement records depends on the initial capacity: %s" % {c: t[:80] for c, t in dct.items()},
                              {"kind": "oracle", "family": "arrayad", "ops": acases[pi][:oi + 1], "tapes": dct})
        progs_all = {"A": acases}
    except ImportError as e:
        ctx.notes["array_sites"] = "C03 driver not available: %s" % e
        progs_all = {}
    ml = vcheck.run_model("recbuf", "\n".join(queries) + "\n") if queries else []
    def prog_of(pi):
        if isinstance(pi, tuple):
            return progs_all.get(pi[0], [[]])[pi[1]]
        return progs[pi]
    for q, meta, m in zip(queries, qmeta, ml):
        kind, cap, pi, op, state, evs = meta
        if kind == "run":
            exp = "%d/%d %d/%d fault=false" % state
            if m != exp:
                ctx.cov["disagreements_checked"] += 1
                if len(ctx.pending) < 2:
                    ctx.pending.append({"kind": "correspondence", "correspondence": "AdeptModel/RecBuf.lean <-> StackStorageOrig (growth/bookkeeping)",
                                        "capacity": cap, "statement": op, "query": q[:2000], "impl_end_state": exp, "model": m, "ops": prog_of(pi)})
        elif kind == "site":
            if m.split() != evs:
                ctx.cov["disagreements_checked"] += 1
                if len(ctx.pending) < 2:
                    ctx.pending.append({"kind": "correspondence", "correspondence": "AdeptModel/RecBufSites.lean <-> recording site of %r" % op,
                                        "capacity": cap, "statement": op, "impl_events": evs, "model_events": m.split(), "ops": prog_of(pi)})
        elif kind == "judge":
            if not m.startswith("disciplined=true"):
                # a logged stream breaks the discipline: the model names an adversarial start if one exists
                adv = m.split("adversary=")[-1]
                ctx.violation("the event stream of %r does not keep the reservation discipline (%s)" % (op, m),
                              {"kind": "discipline", "theorem": "C09_disciplined_safe no longer applies to this site",
                               "statement": op, "events": evs[:200], "model_verdict": m, "ops": prog_of(pi),
                               "adversary": adv}, tag="d", no_input=(adv == "none"))
                nbad += 1
    # derivatives identical whatever the capacity: tape dumps and reverse-sweep gradients agree across builds
    for pi, d in tapes.items():
        vals = set(d.values())
        if len(vals) > 1 and nbad < 3:
            nbad += 1
            ctx.violation("the recorded tape / its gradients depend on the initial capacity: %s" % {c: t[:80] for c, t in d.items()},
                          {"kind": "oracle", "ops": progs[pi], "tapes": d})
    # preallocate_* affects speed only: the history with the calls records the same tape and yields the same gradients as the
    # history without them, in every capacity build
    ntw = 0
    for pi, pj in twin.items():
        for cap in caps:
            a, b = tapes.get(pi, {}).get(cap), tapes.get(pj, {}).get(cap)
            if a is None or b is None:
                continue
            ntw += 1
            if (a != b or "EXC" in a or not a.startswith("T ")) and nbad < 3:
                nbad += 1
                ctx.violation("preallocate_* changed what is recorded or the derivatives (initial capacity %d): with the calls %s / without %s"
                              % (cap, a[:120], b[:120]),
                              {"kind": "oracle", "capacity": cap, "ops": progs[pi], "ops_without_preallocate": progs[pj],
                               "with": a, "without": b})
    ctx.notes["preallocate_twin_histories_compared"] = ntw
    ctx.notes["preallocate_distribution"] = ("random: before each statement with probability 0.18, function s|o, n from %s, form member/"
        "member/free function uniformly; directed: every function x n x fill level 0..%d (copies recorded before the call), a second "
        "call right after in 30%% of them; every history also runs without its calls" % (PRE_NS, 7 if ctx.tier == "quick" else 13))
    ctx.cov["traces_validated_against_impl"] += len(queries)
    ctx.cov["rule"] = ("random scalar programs (all statement forms of the tape driver) and random array programs (the 62 statement kinds of the C03 "
                       "driver: element-wise, broadcast, compound, where/either_or, indexed, reductions whole and per dimension, spread, "
                       "outer_product, element access, FixedArray) run in builds with ADEPT_INITIAL_STACK_LENGTH in %s; "
                       "every statement's logged event stream is replayed through the buffer model from the logged start state, compared "
                       "with the site model and judged with `disciplined`; non-trivial = stream with more than one event; distinct = "
                       "different (capacity, statement, stream, start state)" % caps)
    ctx.notes["capacities"] = caps
    ctx.notes["array_capacities"] = acaps
    ctx.assumptions += ["ADEPT_STACK_STORAGE_STL and ADEPT_MANUAL_MEMORY_ALLOCATION configurations are not covered; capacity 0 is outside the property",
                        "the discipline is sufficient, not necessary: the real buffers have one entry of slack per check"]
    if not ctx.violations:
        for p in ctx.pending[:1]:
            ctx.violation("model and implementation disagree on the recording buffers (%s) but no out-of-range write was observed"
                          % p["correspondence"], p, tag="c", no_input=True)
    if fails and not ctx.violations:
        # search the regenerated site models for sizes and an adversarial start from which a site overflows
        found = ""
        try:
            found = vcheck.run_model("recbuf", "search\n")[0][len("search"):].strip()
        except Exception as e:
            found = ""
        if found:
            ctx.violation("proof obligation of C09 no longer checks and the regenerated site model overflows: %s (site:x=n_active or count,"
                          "y=size; initial capacity len, pad operations already recorded)" % found,
                          {"kind": "proof+model-witness", "theorem": "AdeptProofs/Props/C09.lean", "model_adversary": found,
                           "how_to_replay": "build with -DADEPT_INITIAL_STACK_LENGTH=<len>, record <pad> scalar copies, then the statement "
                                            "of that site kind with those sizes; hook H1 reports the F event", "failures": fails}, tag="p")
        else:
            ctx.violation("proof obligation of C09 no longer checks: " + fails[0][:600],
                          {"kind": "proof", "theorem": "AdeptProofs/Props/C09.lean", "failures": fails}, tag="p", no_input=True)
