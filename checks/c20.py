"""C20 — interpolation reproduces the piecewise-linear / nearest interpolant.

proof:  lean/AdeptProofs/Props/C20.lean (bracketing invariants of the bisection and of the linear scans, the
        interpolation formula, knots, the three extrapolation policies, nearest neighbour, tensor-product
        form of interp2d/interp3d, option decoding, size checks, weights = derivatives), for ALL strictly
        monotone knot vectors of length >= 2 over any linear ordered field.
tie:    hand-written model AdeptModel/Interp.lean  <->  include/adept/interp.h (interp, interp2d, interp3d,
        interp_get_indices_weights, extract_interp_extrap), run on the same cases:
        * exact regime: dyadic knots/data/queries chosen so that every intermediate double is exact; the
          `Rat` model and the C++ must agree exactly (values, shapes, exception classes, Jacobian entries);
        * float regime: random binary64 inputs, the `Float` instance of the same model repeats the C++
          operation order and must agree bit for bit.
oracle: the textbook definition (bracketing segment found by definition, tensor product of 1-D weights,
        nearest knot by minimum distance, the three extrapolation policies) evaluated here with
        fractions.Fraction on the implementation's own output; it never calls the model.
"""
import json, os, struct
from fractions import Fraction as Fr
from itertools import product
import vbuild, vcheck

LEVEL = "proof"
NS = "Adept.Interp."
REQUIRED = ["C20_options", "C20_bracket_inc", "C20_bracket_dec", "C20_scan_inc", "C20_scan_dec", "C20_weights",
            "C20_interp1_spec", "C20_interp1_knots", "C20_extrap_linear", "C20_extrap_clamp", "C20_extrap_constant",
            "C20_nearest_spec", "C20_interp2_spec", "C20_interp3_spec", "C20_sizes", "C20_active_weights"]
VALID_OPTS = [0, 1, 2, 3, 16, 18, 19]
NONFIN = ("nan", "inf", "-inf")


# ------------------------------------------------------------------ numbers on the wire
def tok_exact(v):
    if isinstance(v, str):
        return v
    v = Fr(v)
    return str(v.numerator) if v.denominator == 1 else "%d/%d" % (v.numerator, v.denominator)


def tok_hex(v):
    if isinstance(v, str):
        return v
    return struct.pack(">d", float(v)).hex()


def parse_tok(t, hexmode):
    """wire token -> Fraction or one of 'nan','inf','-inf'; None if malformed"""
    if t in NONFIN:
        return t
    try:
        if hexmode:
            if len(t) != 16:
                return None
            return Fr(struct.unpack(">d", bytes.fromhex(t))[0])
        if t.startswith("0x") or t.startswith("-0x"):      # hex float printed by the driver outside the exact regime
            return Fr(float.fromhex(t))
        return Fr(t)
    except Exception:
        return None


# ------------------------------------------------------------------ case <-> line
def make_line(c):
    tk = tok_hex if c["regime"] == "float" else tok_exact
    # header field NARGS = number of optional arguments (0..2) + 3 * call form (0: array arguments, 1: Expression arguments)
    secs = [["interpf" if c["regime"] == "float" else "interp", str(c["D"]), str(c["T"]), str(c["A"]),
             str(c["nargs"] + 3 * c.get("form", 0)), str(c["opt"]), tk(c["ev"])]]
    for k in c["knots"]:
        secs.append([tk(v) for v in k])
    secs.append([str(d) for d in c["dims"]])
    secs.append([tk(v) for v in c["data"]])
    for q in c["q"]:
        secs.append([tk(v) for v in q])
    return " | ".join(" ".join(s) for s in secs)


def parse_line(line):
    secs = [s.split() for s in line.split("|")]
    h = secs[0]
    hexmode = h[0] == "interpf"
    D, T, A, nargs, opt = (int(x) for x in h[1:6])
    c = {"regime": "float" if hexmode else "exact", "D": D, "T": T, "A": A, "nargs": nargs % 3, "form": nargs // 3, "opt": opt,
         "ev": parse_tok(h[6], hexmode)}
    c["knots"] = [[parse_tok(t, hexmode) for t in secs[1 + d]] for d in range(D)]
    c["dims"] = [int(t) for t in secs[1 + D]]
    c["data"] = [parse_tok(t, hexmode) for t in secs[2 + D]]
    c["q"] = [[parse_tok(t, hexmode) for t in secs[3 + D + d]] for d in range(D)]
    return c


def parse_out(line, hexmode):
    """driver/model result line -> dict"""
    w = line.split()
    if not w:
        return {"kind": "garbage", "text": line}
    if w[0] == "exc":
        return {"kind": "exc", "cls": " ".join(w[1:])}
    if w[0] != "ok":
        return {"kind": "garbage", "text": line}
    d = {"kind": "ok", "jac": None}
    for t in w[1:]:
        k, _, v = t.partition("=")
        if k == "dims":
            d["dims"] = [int(x) for x in v.split(",")] if v else []
        elif k == "vals":
            d["vals"] = [parse_tok(x, hexmode) for x in v.split(",")] if v else []
        elif k == "jac":
            rows = []
            for r in v.split(";"):
                row = {}
                for e in (r.split(",") if r else []):
                    col, _, val = e.partition(":")
                    row[int(col)] = parse_tok(val, hexmode)
                rows.append(row)
            d["jac"] = rows
    if "dims" not in d or "vals" not in d or any(x is None for x in d["vals"]):
        return {"kind": "garbage", "text": line}
    if d["jac"] is not None and not d["vals"]:
        d["jac"] = []
    return d


# ------------------------------------------------------------------ the textbook definition (oracle)
def decode_options(opt):
    """-> (scheme 'linear'|'nearest', policy 'linear'|'clamp'|'constant') or None if unsupported"""
    scheme, pol = opt >> 4, opt & 15
    if scheme not in (0, 1) or pol > 3 or (scheme == 1 and pol == 1):
        return None
    s = "linear" if scheme == 0 else "nearest"
    p = {0: ("linear" if scheme == 0 else "clamp"), 1: "linear", 2: "clamp", 3: "constant"}[pol]
    return s, p


def dim_operator(xs, q, scheme, policy, fuzzy=False):
    """1-D interpolation operator at query q as a list of alternatives {knot index: weight}
       (several only for nearest-neighbour ties), or 'nan' / 'const' / 'inf-linear'."""
    if q == "nan":
        return "nan"
    n = len(xs)
    lo, hi = min(xs), max(xs)
    ilo, ihi = xs.index(lo), xs.index(hi)
    if q in ("inf", "-inf") or q < lo or q > hi:
        below = (q == "-inf") or (q not in NONFIN and q < lo)
        e = ilo if below else ihi                      # the end knot on that side
        e2 = e + 1 if e == 0 else e - 1                # its neighbour (the end segment)
        if policy == "constant":
            return "const"
        if policy == "clamp":
            return [{e: Fr(1)}]
        if q in ("inf", "-inf"):
            return "inf-linear"
        w2 = (q - xs[e]) / (xs[e2] - xs[e])            # the end segment's straight line, continued
        return [{e: 1 - w2, e2: w2}]
    # inside the range (end knots included)
    if scheme == "nearest":
        dist = [abs(q - x) for x in xs]
        m = min(dist)
        if fuzzy:      # binary64 inputs: a knot that is nearest to within rounding is acceptable
            return [{k: Fr(1)} for k in range(n) if dist[k] <= m + Fr(1, 10 ** 12) * (hi - lo)]
        return [{k: Fr(1)} for k in range(n) if dist[k] == m]
    ops = []
    for j in range(n - 1):
        a, b = xs[j], xs[j + 1]
        if min(a, b) <= q <= max(a, b):
            w = (q - a) / (b - a)
            ops.append({k: v for k, v in ((j, 1 - w), (j + 1, w)) if v != 0})
    assert ops and all(o == ops[0] for o in ops), "the piecewise-linear interpolant is single valued"
    return ops[:1]


def expected_outputs(c):
    """-> ('exc', acceptable classes, also_ok?) or ('ok', [per output element: spec])
       spec: ('any',) | ('nan',) | ('nonfinite', finite_alternative or None) | ('alts', [(value, {flat index: weight})...])"""
    D, T = c["D"], c["T"]
    dims, data = c["dims"], c["data"]
    opt = 0 if c["nargs"] == 0 else c["opt"]
    ev = "nan" if c["nargs"] < 2 else c["ev"]
    dec = decode_options(opt)
    ns = [len(k) for k in c["knots"]]
    nq = [len(q) for q in c["q"]]
    size_bad = any(ns[d] != dims[d] for d in range(D)) or any(n == 0 for n in ns) or len(set(nq)) != 1
    if D >= 2 and any(n < 2 for n in ns):
        size_bad = True
    if 0 in dims:
        size_bad = True
    if size_bad:
        return ("exc", {"size_mismatch"} | ({"array_exception"} if dec is None else set()), False)
    trailing = dims[D:]
    t = 1
    for v in trailing:
        t *= v
    if D == 1 and ns[0] == 1:
        # a single knot (outside the property's quantifier): the constant function is the only sensible interpolant
        outs = [("alts", [(data[k], {k: Fr(1)})]) for _ in range(nq[0]) for k in range(t)]
        return ("ok", outs, {"array_exception"} if dec is None else set())
    if dec is None:
        return ("exc", {"array_exception"}, False)
    scheme, policy = dec
    strides = []
    for d in range(D):
        s = t
        for v in dims[d + 1:D]:
            s *= v
        strides.append(s)
    outs = []
    for i in range(nq[0]):
        ops = [dim_operator(c["knots"][d], c["q"][d][i], scheme, policy, c["regime"] == "float") for d in range(D)]
        for k in range(t):
            if any(o == "nan" for o in ops):
                outs.append(("nan",) if (scheme == "linear" and policy == "linear") else ("any",))
            elif any(o == "const" for o in ops):
                outs.append(("alts", [(ev, {})]))
            elif any(o == "inf-linear" for o in ops):
                fin = None
                if D == 1:
                    # limit of the end line is finite only if that line is constant
                    xs = c["knots"][0]
                    below = (c["q"][0][i] == "-inf")
                    e = xs.index(min(xs)) if below else xs.index(max(xs))
                    e2 = e + 1 if e == 0 else e - 1
                    if data[e * t + k] == data[e2 * t + k]:
                        fin = data[e * t + k]
                outs.append(("nonfinite", fin))
            else:
                alts = []
                for combo in product(*ops):
                    wts = {}
                    for idx in product(*[list(o.items()) for o in combo]):
                        flat, w = k, Fr(1)
                        for d, (j, wj) in enumerate(idx):
                            flat += j * strides[d]
                            w *= wj
                        if w != 0:
                            wts[flat] = wts.get(flat, 0) + w
                    alts.append((sum(w * data[f] for f, w in wts.items()), wts))
                outs.append(("alts", alts))
    return ("ok", outs, set())


def close(a, b, tol):
    if a in NONFIN or b in NONFIN:
        return a == b
    return a == b or (tol is not None and abs(a - b) <= tol)


def oracle(c, out):
    """judge one implementation result against the textbook definition; None or (message, signature)"""
    exp = expected_outputs(c)
    if out["kind"] == "garbage":
        return ("unparsable result %r" % out["text"][:200], None)
    if exp[0] == "exc":
        if out["kind"] != "exc":
            return ("expected %s, got a result" % "/".join(sorted(exp[1])), "missing-exception")
        if out["cls"] not in exp[1]:
            return ("expected %s, got %s" % ("/".join(sorted(exp[1])), out["cls"]), "wrong-exception")
        return None
    _, outs, also = exp
    if out["kind"] == "exc":
        if out["cls"] in also:
            return None
        return ("unexpected exception %s" % out["cls"], "unexpected-exception")
    D, T = c["D"], c["T"]
    nq = len(c["q"][0])
    trailing = c["dims"][D:]
    want_dims = [nq] + trailing
    if out["dims"] != want_dims and not (nq == 0 and out["dims"] == [0] * (1 + T)):
        return ("result has dimensions %s, expected %s" % (out["dims"], want_dims), "shape")
    if len(out["vals"]) != len(outs):
        return ("result has %d elements, expected %d" % (len(out["vals"]), len(outs)), "shape")
    t = len(outs) // nq if nq else 1
    inexact = c["regime"] == "float" or inexact_class(c)
    amax = max([abs(v) for v in c["data"]] + [1])
    for e, (spec, v) in enumerate(zip(outs, out["vals"])):
        qi = e // t
        qs = [c["q"][d][qi] for d in range(D)]
        where = "output %d (query %s)" % (e, ",".join(tok_exact(x) for x in qs))
        if spec[0] == "any":
            continue
        if spec[0] == "nan":
            if v != "nan":
                return ("%s: a NaN query under linear interpolation/extrapolation must give NaN, got %s" % (where, tok_exact(v)), "nan-query")
            continue
        if spec[0] == "nonfinite":
            if v in NONFIN or (spec[1] is not None and v == spec[1]):
                continue
            return ("%s: linear extrapolation to an infinite query gave the finite value %s" % (where, tok_exact(v)), "inf-query")
        alts = spec[1]
        ok = False
        for val, wts in alts:
            tol = None
            if inexact and val not in NONFIN:
                tol = Fr(1, 10 ** 11) * (sum(abs(w) * abs(c["data"][f]) for f, w in wts.items()) + abs(val)) + Fr(1, 10 ** 13) * amax
            if not close(v, val, tol):
                continue
            if c["A"] == 1 and out["jac"] is not None and all(x not in NONFIN for x in qs):
                if e >= len(out["jac"]):
                    return ("%s: Jacobian row missing" % where, "jacobian-shape")
                row = out["jac"][e]
                keys = set(row) | set(wts)
                jt = Fr(1, 10 ** 11) if inexact else None
                if all(close(row.get(kk, Fr(0)), wts.get(kk, Fr(0)), None if jt is None else jt * (abs(wts.get(kk, Fr(0))) + 1)) for kk in keys):
                    ok = True
                    break
                continue
            ok = True
            break
        if not ok:
            sig = None
            val0, w0 = alts[0]
            if close(v, val0, None if not inexact else Fr(1, 10 ** 9) * (abs(val0) + amax) if val0 not in NONFIN else None):
                msg = "%s: value %s is right but d(out)/d(data) = %s, interpolation weights are %s" % (
                    where, tok_exact(v), fmt_row(out["jac"][e] if out["jac"] and e < len(out["jac"]) else {}), fmt_row(w0))
                sig = "jacobian"
            else:
                msg = "%s: got %s, the interpolant is %s" % (where, tok_exact(v), " or ".join(tok_exact(a[0]) for a in alts))
                if D == 1 and decode_options(0 if c["nargs"] == 0 else c["opt"]) and \
                        decode_options(0 if c["nargs"] == 0 else c["opt"])[1] == "constant" and \
                        qs[0] in (c["knots"][0][0], c["knots"][0][-1]) and close(v, "nan" if c["nargs"] < 2 else c["ev"], None):
                    sig = "F-15:constant-policy-at-end-knot"
                    msg += " (query exactly on an end knot, constant extrapolation policy: the extrapolation value was returned)"
            return (msg, sig or "value")
    return None


def fmt_row(r):
    return "{" + ", ".join("%d:%s" % (k, tok_exact(v)) for k, v in sorted(r.items())) + "}"


def is_dyadic(v, maxbits=45):
    if v in NONFIN:
        return True
    v = Fr(v)
    return (v.denominator & (v.denominator - 1)) == 0 and v.denominator.bit_length() <= maxbits and abs(v.numerator).bit_length() <= maxbits


def exact_regime_ok(c):
    """is every double the C++ computes for this case exact?  (knots, data, queries dyadic by construction;
       needed: every 1-D weight (x[j+1]-q)/(x[j+1]-x[j]) dyadic, or for 1-D calls every result dyadic)"""
    if c["regime"] != "exact":
        return True
    D = c["D"]
    try:
        for d in range(D):
            xs = c["knots"][d]
            if len(xs) < 2 or len(set(xs)) != len(xs):
                continue
            for q in c["q"][d]:
                if q in NONFIN:
                    continue
                op = dim_operator(xs, q, "linear", "linear")
                if D >= 2 and not all(is_dyadic(w, 12) for w in op[0].values()):
                    return False
                if D == 1 and len(c["data"]) and len(xs) == c["dims"][0]:
                    t = len(c["data"]) // len(xs)
                    for k in range(t):
                        if not is_dyadic(sum(w * c["data"][j * t + k] for j, w in op[0].items())):
                            return False
    except Exception:
        return False
    return True


def is_pow2(fr):
    fr = abs(Fr(fr))
    return fr != 0 and (fr.numerator & (fr.numerator - 1)) == 0 and (fr.denominator & (fr.denominator - 1)) == 0


def inexact_class(c):
    """1-D calls whose slices y[j] are Adept expressions (trailing dimensions, or active data): `expr / scalar` is
       compiled to `expr * (1.0/scalar)` (BinaryOperation.h), so with a knot gap that is not a power of two the
       values and multipliers are correct to within rounding instead of exact"""
    if c["regime"] != "exact" or c["D"] != 1 or (c["A"] != 1 and c["T"] == 0):
        return False
    xs = c["knots"][0]
    return any(not is_pow2(xs[i + 1] - xs[i]) for i in range(len(xs) - 1) if xs[i + 1] != xs[i])


# ------------------------------------------------------------------ correspondence: canonical comparison
def agree(c, il, ml):
    """model line == impl line, up to (1) Jacobian rows of non-finite queries (0*inf garbage in the AD sweep),
       (2) the inexact class above (compared to 1e-12)"""
    if il == ml:
        return True
    hexmode = c["regime"] == "float"
    a, b = parse_out(il, hexmode), parse_out(ml, hexmode)
    if a["kind"] != "ok" or b["kind"] != "ok" or (c["A"] != 1 and not inexact_class(c)):
        return False
    tol = Fr(1, 10 ** 12) if inexact_class(c) else None
    if a["dims"] != b["dims"] or len(a["vals"]) != len(b["vals"]):
        return False
    for u, v in zip(a["vals"], b["vals"]):
        if not close(u, v, None if tol is None or u in NONFIN or v in NONFIN else tol * (abs(v) + 1)):
            return False
    ja, jb = a["jac"] or [], b["jac"] or []
    if len(ja) != len(jb):
        return False
    nq = len(c["q"][0])
    t = len(ja) // nq if nq else 1
    for e, (ra, rb) in enumerate(zip(ja, jb)):
        if any(c["q"][d][e // t] in NONFIN for d in range(c["D"])):
            continue
        for k in set(ra) | set(rb):
            u, v = ra.get(k, Fr(0)), rb.get(k, Fr(0))
            if not close(u, v, None if tol is None or u in NONFIN or v in NONFIN else tol * (abs(v) + 1)):
                return False
    return True


# ------------------------------------------------------------------ generators
class Gen:
    def __init__(self, rng):
        self.rng = rng
        self.optcycle = 0
        self.stats = {}

    def bump(self, k):
        self.stats[k] = self.stats.get(k, 0) + 1

    def knots_exact(self, n, pow2):
        r = self.rng
        s = Fr(1, 2 ** r.choice([0, 0, 1, 2, 3]))
        gaps = [r.choice([1, 2, 4, 8] if pow2 else [1, 2, 3, 4, 5, 6, 7, 10, 12]) * s for _ in range(n - 1)]
        xs = [r.randint(-24, 24) * s]
        for g in gaps:
            xs.append(xs[-1] + g)
        if r.random() < 0.5:
            xs.reverse()
        return xs

    def query_exact(self, xs, free_ok):
        r = self.rng
        n = len(xs)
        u = r.random()
        if n < 2:
            return r.choice([xs[0], xs[0] + 1, "nan"]) if xs else Fr(0)
        if u < 0.27:
            kind, q = "knot", xs[r.randrange(n)]
        elif u < 0.35:
            kind, q = "end", xs[r.choice([0, -1])]
        elif u < 0.65:
            j = r.randrange(n - 1)
            f = Fr(1, 2) if r.random() < 0.25 else Fr(r.randint(1, 7), 8)
            kind, q = ("tie" if f == Fr(1, 2) else "inside"), xs[j] + (xs[j + 1] - xs[j]) * f
        elif u < 0.87:
            f = Fr(r.randint(1, 24), 8)
            kind = "outside"
            q = xs[0] - (xs[1] - xs[0]) * f if r.random() < 0.5 else xs[-1] + (xs[-1] - xs[-2]) * f
        elif u < 0.93 and free_ok:
            lo, hi = min(xs), max(xs)
            kind, q = "free", lo - 3 + Fr(r.randint(0, int((hi - lo + 6) * 16)), 16)
        else:
            kind = q = r.choice(NONFIN)
        self.bump("q:" + kind)
        return q

    def exact_case(self):
        r = self.rng
        D = r.choice([1, 1, 1, 2, 2, 3])
        T = r.choice([0, 0, 1, 1, 2])
        A = 1 if r.random() < 0.35 else 0
        pow2 = r.random() < (0.8 if (D == 1 and (A or T)) else 0.5)
        if D == 1:
            ns = [r.randint(2, 9)]
        elif D == 2:
            ns = [r.randint(2, 9), r.randint(2, 6)]
            r.shuffle(ns)
        else:
            ns = [r.randint(2, 9), r.randint(2, 4), r.randint(2, 3)]
            r.shuffle(ns)
        trailing = [r.randint(1, 3) for _ in range(T)]
        knots = [self.knots_exact(n, pow2) for n in ns]
        dims = ns + trailing
        total = 1
        for d in dims:
            total *= d
        # data: multiples of G make every 1-D result dyadic even for free queries on odd gaps
        lcm_mode = (D == 1 and not pow2 and r.random() < 0.5)
        G = 105 * 4 if lcm_mode else 1      # gaps have odd parts 1,3,5,7 (and 2^k multiples)
        sc = Fr(1, r.choice([1, 1, 2, 4]))
        data = [r.randint(-64, 64) * sc * G for _ in range(total)]
        free_ok = pow2 or lcm_mode
        if D == 1:
            qs = [self.query_exact(knots[0], free_ok) for _ in range(r.randint(1, 8))]
            if r.random() < 0.5:
                qs += list(knots[0])         # exactly on every knot
                self.bump("q:every-knot-sweep")
            r.shuffle(qs)
            q = [qs]
        else:
            nq = r.randint(1, 8)
            q = [[self.query_exact(knots[d], free_ok) for _ in range(nq)] for d in range(D)]
        u = r.random()
        if u < 0.25:
            opt = self.optcycle % 64
            self.optcycle += 1
        elif u < 0.27:
            opt = r.choice([64, 80, 255, 256 + 3, 2 ** 31, 2 ** 32 - 1, 2 ** 32 - 16, 35, 32])
        else:
            opt = r.choice(VALID_OPTS)
        nargs = r.choice([2] * 8 + [1, 1, 0])
        ev = r.choice([Fr(-1), Fr(-1), Fr(0), Fr(7, 2), Fr(1000), "nan", "inf"])
        c = {"regime": "exact", "D": D, "T": T, "A": A, "nargs": nargs, "form": 1 if r.random() < 0.3 else 0, "opt": opt, "ev": ev,
             "knots": knots, "dims": dims, "data": data, "q": q}
        assert exact_regime_ok(c), make_line(c)
        if r.random() < 0.06:
            self.break_sizes(c)
        return c

    def break_sizes(self, c):
        r = self.rng
        D = c["D"]
        k = r.choice(["drop-knot", "extra-knot", "qlen", "single", "empty"])
        d = r.randrange(D)
        if k == "drop-knot":
            c["knots"][d] = c["knots"][d][:-1]
        elif k == "extra-knot":
            xs = c["knots"][d]
            c["knots"][d] = xs + [xs[-1] + (xs[-1] - xs[-2])]
        elif k == "qlen" and D >= 2:
            c["q"][d] = c["q"][d] + [c["q"][d][0]]
        elif k == "single":
            # one knot in dimension d, data cut to its first slice
            inner = 1
            for v in c["dims"][d + 1:]:
                inner *= v
            outer = 1
            for v in c["dims"][:d]:
                outer *= v
            nd = c["dims"][d]
            c["data"] = [c["data"][(o * nd) * inner + i] for o in range(outer) for i in range(inner)]
            c["dims"][d] = 1
            c["knots"][d] = c["knots"][d][:1]
        elif k == "empty":
            c["knots"] = [[] for _ in range(D)]
            c["dims"] = [0] * len(c["dims"])
            c["data"] = []
        self.bump("sizes:" + k)

    def float_case(self):
        r = self.rng
        D = r.choice([1, 1, 2, 3])
        T = r.choice([0, 0, 1, 2])
        ns = [r.randint(2, 9)] if D == 1 else ([r.randint(2, 7), r.randint(2, 5)] if D == 2 else [r.randint(2, 5), r.randint(2, 4), r.randint(2, 3)])
        r.shuffle(ns)
        knots = []
        for n in ns:
            xs = [r.uniform(-10, 10)]
            for _ in range(n - 1):
                xs.append(xs[-1] + r.choice([r.uniform(0.01, 3.0), float(r.randint(1, 7)), r.randint(1, 9) / 10.0]))
            if r.random() < 0.5:
                xs.reverse()
            knots.append(xs)
        trailing = [r.randint(1, 3) for _ in range(T)]
        dims = ns + trailing
        total = 1
        for d in dims:
            total *= d
        data = [r.choice([r.uniform(-100, 100), r.randint(-50, 50) / 10.0]) for _ in range(total)]

        def fq(xs):
            u = r.random()
            n = len(xs)
            if u < 0.3:
                self.bump("qf:knot"); return xs[r.randrange(n)]
            if u < 0.6:
                j = r.randrange(n - 1)
                self.bump("qf:inside"); return xs[j] + (xs[j + 1] - xs[j]) * r.random()
            if u < 0.7:
                j = r.randrange(n - 1)
                self.bump("qf:mid"); return (xs[j] + xs[j + 1]) / 2
            if u < 0.93:
                self.bump("qf:outside")
                return min(xs) - r.uniform(0.001, 5) if r.random() < 0.5 else max(xs) + r.uniform(0.001, 5)
            self.bump("qf:nonfinite"); return r.choice(NONFIN)
        if D == 1:
            qs = [fq(knots[0]) for _ in range(r.randint(1, 8))]
            if r.random() < 0.6:
                qs += list(knots[0])
            r.shuffle(qs)
            q = [qs]
        else:
            nq = r.randint(1, 8)
            q = [[fq(knots[d]) for _ in range(nq)] for d in range(D)]
        opt = r.choice(VALID_OPTS) if r.random() < 0.95 else r.randrange(64)
        ev = r.choice([-1.0, 0.0, 2.5, "nan"])
        return {"regime": "float", "D": D, "T": T, "A": 0, "nargs": r.choice([2, 2, 2, 1, 0]), "form": 1 if r.random() < 0.25 else 0,
                "opt": opt, "ev": ev, "knots": knots, "dims": dims, "data": data, "q": q}


def roundtrip(c):
    """the case as the drivers see it (tokens are the single source of truth)"""
    line = make_line(c)
    return line, parse_line(line)


# ------------------------------------------------------------------ running
def run_lines(exe, lines):
    text = "\n".join(lines) + "\n"
    impl, rc, err = vcheck.run_impl(exe, [], text)
    # the call form (array / Expression arguments) is not part of the model: both must give the model's answer
    def strip_form(l):
        w = l.split(" ")
        if len(w) > 4 and w[4].isdigit():
            w[4] = str(int(w[4]) % 3)
        return " ".join(w)
    model = vcheck.run_model("interp", "\n".join(strip_form(l) for l in lines) + "\n")
    return impl, model, rc, err


def judge(c, il, ml):
    """-> (oracle failure or None, correspondence ok?)"""
    out = parse_out(il, c["regime"] == "float")
    return oracle(c, out), agree(c, il, ml)


def shrink(exe, c, pred, budget=120):
    """greedy reduction keeping `pred(case)` true"""
    tests = [0]

    def ok(cc):
        if tests[0] >= budget:
            return False
        if not exact_regime_ok(cc):
            return False
        tests[0] += 1
        try:
            return pred(cc)
        except Exception:
            return False

    def clone(cc):
        return parse_line(make_line(cc))
    c = clone(c)
    # 1. one query
    nq = len(c["q"][0])
    if len(set(len(q) for q in c["q"])) == 1 and nq > 1:
        for i in range(nq):
            cc = clone(c)
            cc["q"] = [[q[i]] for q in c["q"]]
            if ok(cc):
                c = cc
                break
    # 2. no trailing dimensions
    D = c["D"]
    if c["T"] > 0 and len(c["data"]) and 0 not in c["dims"]:
        t = 1
        for v in c["dims"][D:]:
            t *= v
        for k in range(min(t, 4)):
            cc = clone(c)
            cc["T"] = 0
            cc["dims"] = c["dims"][:D]
            cc["data"] = c["data"][k::t]
            if ok(cc):
                c = cc
                break
    # 3. fewer knots
    changed = True
    while changed and tests[0] < budget:
        changed = False
        for d in range(D):
            n = len(c["knots"][d])
            if n <= 2 or c["dims"][d] != n:
                continue
            inner = 1
            for v in c["dims"][d + 1:]:
                inner *= v
            outer = 1
            for v in c["dims"][:d]:
                outer *= v
            for j in range(n):
                cc = clone(c)
                cc["knots"][d] = c["knots"][d][:j] + c["knots"][d][j + 1:]
                cc["dims"][d] = n - 1
                cc["data"] = [c["data"][(o * n + jj) * inner + i] for o in range(outer) for jj in range(n) if jj != j for i in range(inner)]
                if ok(cc):
                    c = cc
                    changed = True
                    break
            if changed:
                break
    # 4. passive, explicit arguments
    for key, val in (("A", 0), ("nargs", 2)):
        if c[key] != val and not (key == "nargs" and c["nargs"] < 2):
            cc = clone(c)
            cc[key] = val
            if ok(cc):
                c = cc
    return c


def process(ctx, exe, cases, label, gen=None):
    """run a batch; report oracle failures (shrunk) and park correspondence mismatches in ctx.pending"""
    pairs = [roundtrip(c) for c in cases]
    lines = [p[0] for p in pairs]
    impl, model, rc, err = run_lines(exe, lines)
    nbad = 0
    for idx, (line, c) in enumerate(pairs):
        if idx >= len(impl):
            # the implementation died on this case
            ctx.violation("the implementation stopped on an interpolation call (%s): rc=%s %s" % (label, rc, err[-1200:]),
                          {"kind": "oracle", "line": line, "message": "implementation stopped", "stderr": err[-3000:],
                           "signature": "crash"})
            return nbad + 1
        il, ml = impl[idx], model[idx] if idx < len(model) else "(no model output)"
        nq = len(c["q"][0]) if c["q"] else 0
        key = line
        for qi in range(max(nq, 1)):
            ctx.count_case((hash(key), qi), nontrivial=True,
                           sample={"case": line[:300], "impl": il[:200]} if (idx % 997 == 0) else None)
        ctx.cov["queries"] = ctx.cov.get("queries", 0) + nq
        tally(ctx, c, il)
        bad, same = judge(c, il, ml)
        if bad is not None:
            nbad += 1
            if nbad <= 2:
                msg, sig = bad
                small = shrink(exe, c, lambda cc: oracle_fails(exe, cc))
                sline = make_line(small)
                si = vcheck.run_impl(exe, [], sline + "\n")[0]
                sm = oracle(small, parse_out(si[0], small["regime"] == "float")) if si else None
                if sm is not None:
                    msg, sig = sm
                else:
                    sline = line
                ctx.violation("%s [%s]" % (msg, label),
                              {"kind": "oracle", "line": sline, "message": msg, "impl": si[0] if si else None,
                               "signature": sig, "original_line": line, "build": label})
        elif not same:
            ctx.cov["disagreements_checked"] += 1
            if len(ctx.pending) < 2:
                small = shrink(exe, c, lambda cc: corr_fails(exe, cc))
                sline = make_line(small)
                i2, m2, _, _ = run_lines(exe, [sline])
                ctx.pending.append({"kind": "correspondence",
                                    "correspondence": "AdeptModel/Interp.lean <-> include/adept/interp.h",
                                    "line": sline, "impl": i2[0] if i2 else None, "model": m2[0] if m2 else None,
                                    "original_line": line, "build": label})
    ctx.cov["traces_validated_against_impl"] += len(pairs)
    return nbad


def oracle_fails(exe, c):
    il = vcheck.run_impl(exe, [], make_line(c) + "\n")[0]
    if not il:
        return True
    return oracle(c, parse_out(il[0], c["regime"] == "float")) is not None


def corr_fails(exe, c):
    i2, m2, _, _ = run_lines(exe, [make_line(c)])
    if not i2 or not m2:
        return False
    if oracle(c, parse_out(i2[0], c["regime"] == "float")) is not None:
        return False
    return not agree(c, i2[0], m2[0])


def tally(ctx, c, il):
    d = ctx.notes.setdefault("distribution", {})

    def b(k):
        d[k] = d.get(k, 0) + 1
    b("regime:" + c["regime"])
    b("D%d" % c["D"]); b("T%d" % c["T"]); b("active" if c["A"] else "passive")
    b("nknots:%s" % "x".join(str(len(k)) for k in c["knots"])) if c["D"] == 1 else None
    dec = decode_options(0 if c["nargs"] == 0 else c["opt"])
    b("opts:" + ("invalid" if dec is None else "%s/%s" % dec))
    b("nargs%d" % c["nargs"])
    b("call form: " + ("Expression arguments" if c.get("form") else "array arguments"))
    for k in c["knots"]:
        if len(k) >= 2:
            b("direction:" + ("inc" if k[0] < k[1] else "dec"))
    b("result:" + (il.split()[1] if il.startswith("exc") else il.split()[0] if il else "none"))
    ow = ctx.notes.setdefault("option_words_seen", [])
    o = c["opt"] if c["nargs"] else 0
    if o not in ow:
        ow.append(o); ow.sort()


def load_corpus():
    d = os.path.join(vbuild.VERIF, "corpus", "C20")
    out = []
    if os.path.isdir(d):
        for fn in sorted(os.listdir(d)):
            if fn.endswith(".case"):
                for l in open(os.path.join(d, fn)):
                    l = l.strip()
                    if l and not l.startswith("#"):
                        out.append(parse_line(l))
    return out


def run(ctx, replay):
    thms = [NS + t for t in vcheck.prop_theorems("AdeptProofs/Props/C20.lean", "C20_")]
    fails = vcheck.lean_gate(ctx, ["AdeptProofs.Props.C20"], thms, required=[NS + r for r in REQUIRED])
    exe = vbuild.build("interp", os.path.join(vbuild.VERIF, "harness", "drv_interp.cpp"))
    ctx.pending = []
    if replay:
        r = json.load(open(replay))
        if "line" in r:
            process(ctx, exe, [parse_line(r["line"])], "replay")
        report_pending(ctx, fails)
        return
    target = 5000 if ctx.tier == "quick" else 200000
    gen = Gen(ctx.rng)
    corpus = load_corpus()
    if corpus:
        process(ctx, exe, corpus, "corpus")
    ctx.notes["corpus_cases"] = len(corpus)
    # systematic part: every option word 0..63 on one fixed layout per direction (passive and active), 1-D/2-D/3-D
    process(ctx, exe, systematic(), "systematic")
    made = 0
    batch_no = 0
    while made < target:
        cases = []
        while made < target and len(cases) < 4000:
            c = gen.float_case() if gen.rng.random() < 0.25 else gen.exact_case()
            cases.append(c)
            made += max(1, len(c["q"][0]))
        process(ctx, exe, cases, "default")
        batch_no += 1
        if len(ctx.violations) >= 3:
            break
    ctx.notes["generator"] = gen.stats
    ctx.cov["rule"] = ("one evaluation = one query point of one interp/interp2d/interp3d call; cases: knot counts 2..9 per dimension, both "
                       "directions, 1-3 interpolated x 0-2 trailing dimensions, passive and active data (Jacobian), option words 0..63 "
                       "and some larger ones, calls with 0/1/2 optional arguments, queries inside / on knots / on the end knots / at "
                       "segment mid-points (nearest-neighbour ties) / outside / +-inf / NaN, inconsistent sizes; 75% exact regime "
                       "(dyadic, exact comparison with the Rat model), 25% float regime (random binary64, bitwise comparison with the "
                       "Float model, passive); every implementation result judged by the Fraction oracle; distinct = different "
                       "(case line, query index)")
    ctx.cov["exhaustive"] = False
    ctx.assumptions += [
        "knot vectors are strictly monotone and finite, data finite (the property's quantifier); NaN queries are only "
        "judged under linear interpolation with linear extrapolation (NaN expected); an infinite query under linear "
        "extrapolation is only required to give a non-finite result; single-knot 1-D input is required to copy the value",
        "the sign of zero is not modelled (-0 and +0 are identified); Jacobian rows of outputs whose query is not finite "
        "are not compared (the AD sweep multiplies infinite weights by zero seeds)",
        "exact regime, 1-D calls with trailing dimensions or active data and a knot gap that is not a power of two: Adept "
        "compiles expr/scalar to expr*(1.0/scalar), so values and multipliers are compared to 1e-12 instead of exactly "
        "(the float regime reproduces this bit for bit)",
    ]
    if ctx.pending and not ctx.violations:
        # correspondence broke and the sampled cases show no property failure: search harder with the oracle alone
        extra = [gen.exact_case() for _ in range(3000)] + [gen.float_case() for _ in range(1500)]
        process(ctx, exe, extra, "default/search")
    report_pending(ctx, fails)


def systematic():
    out = []
    F = Fr
    x = [F(1), F(2), F(4), F(8)]
    y = [F(10), F(20), F(40), F(-8)]
    q = [F(1), F(2), F(4), F(8), F(3), F(3, 2), F(1, 2), F(10), F(0), F(5), "inf", "-inf", "nan"]
    for opt in range(64):
        for rev in (False, True):
            xs, ys = (x[::-1], y[::-1]) if rev else (x, y)
            for A in (0, 1):
                out.append({"regime": "exact", "D": 1, "T": 0, "A": A, "nargs": 2, "opt": opt, "ev": F(-1),
                            "knots": [xs], "dims": [4], "data": ys, "q": [q]})
            x2 = [F(0), F(1), F(3, 2)]
            m = [F(i * 7 % 11 - 3) for i in range(12)]
            out.append({"regime": "exact", "D": 2, "T": 0, "A": 1, "nargs": 2, "opt": opt, "ev": F(-1),
                        "knots": [xs, x2[::-1] if rev else x2], "dims": [4, 3], "data": m,
                        "q": [[F(1), F(8), F(3), F(0), F(9), F(2), "nan"], [F(0), F(3, 2), F(1, 2), F(1), F(2), F(-1), F(1)]]})
            m3 = [F(i * 5 % 13 - 6) for i in range(24)]
            out.append({"regime": "exact", "D": 3, "T": 0, "A": 0, "nargs": 2, "opt": opt, "ev": F(-1),
                        "knots": [xs, x2, [F(2), F(0)]], "dims": [4, 3, 2], "data": m3,
                        "q": [[F(1), F(8), F(3), F(0), F(9)], [F(0), F(3, 2), F(1, 2), F(1), F(2)], [F(2), F(0), F(1), F(3), F(-1)]]})
    # inconsistent extents, one at a time: each query vector longer / shorter than the others, each coordinate vector longer /
    # shorter than its data extent (size_mismatch must be raised whichever SINGLE argument is the odd one), plain and
    # Expression-argument call forms, with and without trailing dimensions
    base = {1: ([[F(1), F(2), F(4)]], [3]), 2: ([[F(1), F(2), F(4)], [F(0), F(3)]], [3, 2]),
            3: ([[F(1), F(2), F(4)], [F(0), F(3)], [F(5), F(4), F(2), F(1)]], [3, 2, 4])}
    for D in (1, 2, 3):
        knots, dims = base[D]
        for T in (0, 1):
            dd = dims + ([2] if T else [])
            n = 1
            for v in dd:
                n *= v
            data = [F(i * 3 % 7 - 2) for i in range(n)]
            qs = [[F(1), F(3), F(2)] for _ in range(D)]
            for form in (0, 1):
                for d in range(D):
                    for delta in (+1, -1):
                        if D >= 2:
                            q2 = [list(q) for q in qs]
                            q2[d] = q2[d] + [F(2)] if delta > 0 else q2[d][:-1]
                            out.append({"regime": "exact", "D": D, "T": T, "A": 0, "nargs": 2, "form": form, "opt": 0, "ev": F(-1),
                                        "knots": [list(k) for k in knots], "dims": list(dd), "data": list(data), "q": q2})
                        k2 = [list(k) for k in knots]
                        k2[d] = k2[d] + [k2[d][-1] + (k2[d][-1] - k2[d][-2])] if delta > 0 else k2[d][:-1]
                        out.append({"regime": "exact", "D": D, "T": T, "A": 0, "nargs": 2, "form": form, "opt": 0, "ev": F(-1),
                                    "knots": k2, "dims": list(dd), "data": list(data), "q": [list(q) for q in qs]})
    return out


def report_pending(ctx, fails):
    if ctx.violations:
        return
    for p in ctx.pending[:1]:
        ctx.violation("model and implementation disagree on an interpolation call (%s build); the textbook oracle found no "
                      "input on which the property itself fails" % p["build"], p, tag="c", no_input=True)
    if fails and not ctx.violations:
        ctx.violation("proof obligation of C20 no longer checks: " + fails[0][:400],
                      {"kind": "proof", "theorem": "AdeptProofs/Props/C20.lean", "failures": fails}, tag="p", no_input=True)
