"""C13 — parallel Jacobian computation equals the serial one.

proof:  lean/AdeptProofs/Props/C13.lean (for every schedule that runs each block once, every (m,n,W), every tape:
        OpenMP forward/reverse = serial forward/reverse; blocks tile [0,n); dispatch condition)
tie:    model AdeptModel/Tape.lean (jacFwdOmp/jacRevOmp/useOmp) <-> jacobian_forward_openmp / jacobian_reverse_openmp,
        exact comparison on integer tapes for thread counts 1..16 and several block widths; hook H3 counts the blocks
        each OpenMP thread processed, so the evidence shows more than one thread really took part
oracle: the implementation's own serial result (set_max_jacobian_threads(1)) and the product of statement matrices
"""
import os, json
from concurrent.futures import ThreadPoolExecutor
import vbuild, vcheck
import tapecommon as tc
import c02

LEVEL = "proof"
NS = "Adept.Tape."
REQUIRED = ["C13_omp_blocks_cover", "C13_omp_fwd_spec", "C13_omp_rev_spec", "C13_omp_eq_serial_fwd", "C13_omp_eq_serial_rev", "C13_dispatch"]


def gen_case(rng, W, threads):
    g = tc.Gen(rng)
    g.emit("cfg %d 0 1" % W)
    for _ in range(rng.randint(2, 5)):
        g.new()
    g.emit("nr")
    g.program(rng.randint(3, 24))
    nonfinite = rng.random() < 0.3
    if nonfinite:
        # non-finite and non-integer multipliers (Inf*0 = NaN must appear in the parallel result exactly where it appears in
        # the serial one): judged by the serial-vs-parallel oracle only, the integer model does not apply
        live = list(g.live)
        for _ in range(rng.randint(2, 6)):
            g.emit("adep %d %d %s" % (rng.choice(live), rng.choice(live), rng.choice(["inf", "-inf", "nan", "0.5", "1e300", "0"])))
            if rng.random() < 0.5:
                toks, val = g.expr(1)
                k = rng.choice(live); g.live[k] = val
                g.emit("asg %d %s" % (k, " ".join(toks)))
    g.emit("tape")
    choices = sorted(set([1, W, W + 1, 2 * W - 1, 2 * W, 2 * W + 1, 3 * W + 1, 4 * W + 3, 5 * W]) - {0, -1})
    n = rng.choice(choices); m = rng.choice(choices)
    indep, dep = tc.pick_lists(rng, g, n, m)
    for k in indep:
        g.emit("indep %d" % k)
    for k in dep:
        g.emit("dep %d" % k)
    q = []
    layouts = [("ptr 1 0 %d" % (m * n), (1, m, m * n)), ("ptr 0 1 %d" % (m * n), (n, 1, m * n))]
    k = n + rng.randint(1, 3)
    layouts.append(("ptr %d 1 %d" % (k, m * k), (k, 1, m * k)))
    # both strides different from 1 (an interleaved target / a doubly strided view): dependents 2 apart, independents 2m+1 apart
    io = 2 * m + 1
    sz = (m - 1) * 2 + (n - 1) * io + 1
    layouts.append(("ptr 2 %d %d" % (io, sz), (2, io, sz)))
    # serial reference first
    g.emit("threads 1")
    ser = {}
    for mode in ("fwd", "rev"):
        for lay, info in layouts:
            ser[(mode, lay)] = len(g.ops); q.append(("ptr", len(g.ops), info)); g.emit("jac %s %s" % (mode, lay))
    g.emit("ompstat")
    pairs = []
    for th in threads:
        g.emit("threads %d" % th)
        for mode in ("fwd", "rev"):
            for lay, info in layouts:
                pairs.append((ser[(mode, lay)], len(g.ops), th)); q.append(("ptr", len(g.ops), info)); g.emit("jac %s %s" % (mode, lay))
        q.append(("mat", len(g.ops), "auto")); g.emit("jac auto mat")
        g.emit("ompstat")
    g.emit("tape")
    g.emit("threads 1")
    return g.ops, {"queries": q, "indep": indep, "dep": dep, "n": n, "m": m, "pairs": pairs, "threads": threads, "W": W,
                   "nonfinite": nonfinite}


def run_cases(ctx, exe, label, cases):
    text = "".join("\n".join(ops) + "\n" for ops, _ in cases)
    impl, model, rc, err = tc.run_pair(exe, text, env={"OMP_NUM_THREADS": "1", "OMP_DYNAMIC": "false"})
    pos = 0
    for ops, meta in cases:
        il, ml = impl[pos:pos + len(ops)], model[pos:pos + len(ops)]
        pos += len(ops)
        if len(il) < len(ops):
            ctx.violation("implementation stopped on a parallel-Jacobian case (%s): rc=%s %s" % (label, rc, vcheck.san_summary(err)),
                          {"kind": "crash", "build": label, "ops": ops, "stderr": err[-3000:], "impl": il})
            break
        verdict = None if meta.get("nonfinite") else c02.oracle_case(ops, meta, il)
        if meta.get("nonfinite"):
            ctx.notes["nonfinite_cases"] = ctx.notes.get("nonfinite_cases", 0) + 1
        if verdict == "skip":
            ctx.notes["skipped_inexact"] = ctx.notes.get("skipped_inexact", 0) + 1
            continue
        if verdict is None:
            for a, b, th in meta["pairs"]:
                if il[a] != il[b]:
                    verdict = "Jacobian with %d threads (%s -> %s) differs from the serial one (%s)" % (th, ops[b], il[b][:160], il[a][:160])
                    break
        if verdict is None:
            tl = [i for i, o in enumerate(ops) if o == "tape"]
            if il[tl[0]] != il[tl[-1]]:
                verdict = "the recording changed during the Jacobian computations"
        # thread participation (hook H3)
        multi = False
        for o, l in zip(ops, il):
            if o == "ompstat" and l.startswith("O"):
                ids = [x for x in l[1:].split()]
                if len(ids) > 1:
                    multi = True
                ctx.notes["max_threads_seen"] = max(ctx.notes.get("max_threads_seen", 0), len(ids))
        ctx.notes["cases_with_multiple_threads"] = ctx.notes.get("cases_with_multiple_threads", 0) + (1 if multi else 0)
        ctx.count_case((label, tuple(ops)), nontrivial=multi,
                       sample={"build": label, "n": meta["n"], "m": meta["m"], "W": meta["W"], "threads": meta["threads"],
                               "ompstat": [l for o, l in zip(ops, il) if o == "ompstat"][:4]})
        if verdict is not None:
            ctx.nbad += 1
            if ctx.nbad <= 2:
                ctx.violation("%s [build %s]" % (verdict, label), {"kind": "oracle", "build": label, "ops": ops, "impl": il, "message": verdict})
        elif not meta.get("nonfinite"):
            il2 = ["O" if l.startswith("O") else l for l in il]
            d = vcheck.first_diff(il2, ml)
            if d is not None:
                ctx.cov["disagreements_checked"] += 1
                if len(ctx.pending) < 2:
                    ctx.pending.append({"kind": "correspondence", "correspondence": "AdeptModel/Tape.lean (jac*Omp, useOmp) <-> jacobian.cpp",
                                        "build": label, "ops": ops, "first_difference": {"op": ops[d], "impl": il[d], "model": ml[d]}})
    ctx.cov["traces_validated_against_impl"] += len(cases)


def run(ctx, replay):
    thms = [NS + t for t in vcheck.prop_theorems("AdeptProofs/Props/C13.lean", "C13_")]
    fails = vcheck.lean_gate(ctx, ["AdeptProofs.Props.C13"], thms, required=[NS + r for r in REQUIRED])
    vs = [("W4", dict(W=4)), ("W3", dict(W=3)), ("sse2", dict(packets="sse2"))]
    if ctx.tier == "thorough":
        vs += [("W1", dict(W=1)), ("W2", dict(W=2)), ("W5", dict(W=5)), ("W8", dict(W=8))]
        if "avx" in c02.cpu_flags():
            vs.append(("avx", dict(packets="avx")))
    with ThreadPoolExecutor(max_workers=len(vs)) as ex:
        exes = list(ex.map(lambda v: tc.build(**v[1]), vs))
    ctx.pending, ctx.nbad = [], 0
    ncpu = os.cpu_count() or 2
    maxth = max(2, min(16, ncpu))
    ncase = 60 if ctx.tier == "quick" else 160
    for (label, kw), exe in zip(vs, exes):
        W = c02.width(kw)
        ctx.curW = W
        if replay:
            r = json.load(open(replay))
            il = vcheck.run_impl(exe, [], "\n".join(r["ops"]) + "\n")[0]
            print("\n".join("%-40s | %s" % (o, l) for o, l in zip(r["ops"], il)))
            continue
        cases = []
        for i in range(ncase):
            if ctx.tier == "quick":
                ths = sorted(set([2, ctx.rng.randint(3, maxth), maxth]))
            else:
                ths = sorted(set(ctx.rng.sample(range(2, maxth + 1), min(5, maxth - 1)) + [2, maxth]))
            cases.append(gen_case(ctx.rng, W, ths))
        run_cases(ctx, exe, label, cases)
    ctx.cov["rule"] = ("random integer tapes; m,n from {1,W,W+1,2W-1,2W,2W+1,3W+1,4W+3,5W}; each case computes forward and reverse "
                       "Jacobians into three raw-pointer layouts serially (threads=1) and with 2..%d OpenMP threads and compares the "
                       "buffers cell for cell with the serial ones, with the product of statement matrices and with the model; the tape "
                       "dump before and after must be identical; non-trivial = hook H3 saw more than one OpenMP thread id processing "
                       "blocks in that case" % maxth)
    ctx.notes["builds"] = [l for l, _ in vs]
    ctx.assumptions += ["a data race inside the parallel region (e.g. a shared working buffer) is outside the model; it would show only "
                        "unreliably as a differing result", "OpenMP runtime, static schedule and omp_set_num_threads are trusted"]
    if not replay and ctx.notes.get("cases_with_multiple_threads", 0) == 0 and (os.cpu_count() or 1) > 1:
        ctx.violation("no compared Jacobian ran on more than one OpenMP thread: the OpenMP path is not being exercised "
                      "(dispatch condition or hook changed?)", {"kind": "coverage", "correspondence": "H3 thread participation"}, tag="h", no_input=True)
    if not ctx.violations:
        for p in ctx.pending[:1]:
            ctx.violation("model and implementation disagree on a parallel-Jacobian case (build %s) although parallel = serial = "
                          "product of statement matrices on every case tried" % p["build"], p, tag="c", no_input=True)
    if fails and not ctx.violations:
        ctx.violation("proof obligation of C13 no longer checks: " + fails[0][:400],
                      {"kind": "proof", "theorem": "AdeptProofs/Props/C13.lean", "failures": fails}, tag="p", no_input=True)
