"""C13 — parallel Jacobian computation equals the serial one.

proof:  lean/AdeptProofs/Props/C13.lean (for every schedule that runs each block once, every (m,n,W), every tape:
        OpenMP forward/reverse = serial forward/reverse; blocks tile [0,n); dispatch condition)
tie:    model AdeptModel/Tape.lean (jacFwdOmp/jacRevOmp/useOmp) <-> jacobian_forward_openmp / jacobian_reverse_openmp,
        exact comparison on integer tapes for thread counts 1..16 and several block widths; hook H3 counts the blocks
        each OpenMP thread processed, so the evidence shows more than one thread really took part
oracle: the implementation's own serial result (set_max_jacobian_threads(1)) and the product of statement matrices
binary64: the ORDER of the floating-point operations is inside the model and the theorems (C13_*_lawfree: no ring law, any
        carrier with + * 0 1 and any zero test).  Tapes with non-integer multipliers (tapecommon.FGen) are run serially and with
        2..16 threads; every Jacobian cell is compared as a bit pattern: OpenMP vs serial (the property), serial vs a Python
        transcription of jacobian.cpp (independent oracle), serial and OpenMP vs the Lean model run on Float (blocks executed in a
        random permutation on the model side).  An AVX build (32-byte aligned packet loads/stores) is part of the quick tier.
"""
import os, json, time
from concurrent.futures import ThreadPoolExecutor
import vbuild, vcheck
import tapecommon as tc
import c02

LEVEL = "proof"
NS = "Adept.Tape."
REQUIRED = ["C13_omp_blocks_cover", "C13_omp_fwd_spec", "C13_omp_rev_spec", "C13_omp_eq_serial_fwd", "C13_omp_eq_serial_rev", "C13_dispatch",
            "C13_omp_eq_serial_fwd_lawfree", "C13_omp_eq_serial_rev_lawfree", "C13_any_two_schedules_fwd_lawfree",
            "C13_any_two_schedules_rev_lawfree", "C13_rev_blockwise_eq_lanewise", "C13_omp_fwd_cells_lawfree"]


# passive waiting: idle OpenMP threads sleep instead of spinning (the machine is shared; semantics unchanged)
OMP_ENV = {"OMP_NUM_THREADS": "1", "OMP_DYNAMIC": "false", "OMP_WAIT_POLICY": "passive", "GOMP_SPINCOUNT": "0"}


def rc_text(rc):
    """exit status of the driver in words (a negative status is the number of the signal that killed it)"""
    if isinstance(rc, int) and rc < 0:
        try:
            import signal
            return "killed by %s" % signal.Signals(-rc).name
        except Exception:
            return "killed by signal %d" % -rc
    return "rc=%s" % rc


def gen_case(rng, W, threads):
    g = tc.Gen(rng)
    g.emit("cfg %d 0 1" % W)
    for _ in range(rng.randint(2, 5)):
        g.new()
    g.emit("nr")
    g.program(rng.randint(3, 24))
    nonfinite = rng.random() < 0.3
    if nonfinite:
        # non-finite and non-integer multipliers (Inf*0 = NaN must appear in the parallel result exactly where it appears in
        # the serial one): judged by the serial-vs-parallel oracle only, the integer model does not apply
        live = list(g.live)
        for _ in range(rng.randint(2, 6)):
            g.emit("adep %d %d %s" % (rng.choice(live), rng.choice(live), rng.choice(["inf", "-inf", "nan", "0.5", "1e300", "0"])))
            if rng.random() < 0.5:
                toks, val = g.expr(1)
                k = rng.choice(live); g.live[k] = val
                g.emit("asg %d %s" % (k, " ".join(toks)))
    g.emit("tape")
    choices = sorted(set([1, W, W + 1, 2 * W - 1, 2 * W, 2 * W + 1, 3 * W + 1, 4 * W + 3, 5 * W]) - {0, -1})
    n = rng.choice(choices); m = rng.choice(choices)
    indep, dep = tc.pick_lists(rng, g, n, m)
    for k in indep:
        g.emit("indep %d" % k)
    for k in dep:
        g.emit("dep %d" % k)
    q = []
    layouts = [("ptr 1 0 %d" % (m * n), (1, m, m * n)), ("ptr 0 1 %d" % (m * n), (n, 1, m * n))]
    k = n + rng.randint(1, 3)
    layouts.append(("ptr %d 1 %d" % (k, m * k), (k, 1, m * k)))
    # both strides different from 1 (an interleaved target / a doubly strided view): dependents 2 apart, independents 2m+1 apart
    io = 2 * m + 1
    sz = (m - 1) * 2 + (n - 1) * io + 1
    layouts.append(("ptr 2 %d %d" % (io, sz), (2, io, sz)))
    # serial reference first
    g.emit("threads 1")
    ser = {}
    for mode in ("fwd", "rev"):
        for lay, info in layouts:
            ser[(mode, lay)] = len(g.ops); q.append(("ptr", len(g.ops), info)); g.emit("jac %s %s" % (mode, lay))
    g.emit("ompstat")
    pairs = []
    for th in threads:
        g.emit("threads %d" % th)
        for mode in ("fwd", "rev"):
            for lay, info in layouts:
                pairs.append((ser[(mode, lay)], len(g.ops), th)); q.append(("ptr", len(g.ops), info)); g.emit("jac %s %s" % (mode, lay))
        q.append(("mat", len(g.ops), "auto")); g.emit("jac auto mat")
        g.emit("ompstat")
    g.emit("tape")
    g.emit("threads 1")
    return g.ops, {"queries": q, "indep": indep, "dep": dep, "n": n, "m": m, "pairs": pairs, "threads": threads, "W": W,
                   "nonfinite": nonfinite}


def run_cases(ctx, exe, label, cases):
    text = "".join("\n".join(ops) + "\n" for ops, _ in cases)
    impl, model, rc, err = tc.run_pair(exe, text, env=OMP_ENV)
    pos = 0
    for ops, meta in cases:
        il, ml = impl[pos:pos + len(ops)], model[pos:pos + len(ops)]
        pos += len(ops)
        if len(il) < len(ops):
            ctx.violation("implementation stopped on a parallel-Jacobian case (%s): %s %s" % (label, rc_text(rc), vcheck.san_summary(err)),
                          {"kind": "crash", "build": label, "ops": ops, "stderr": err[-3000:], "impl": il})
            break
        verdict = None if meta.get("nonfinite") else c02.oracle_case(ops, meta, il)
        if meta.get("nonfinite"):
            ctx.notes["nonfinite_cases"] = ctx.notes.get("nonfinite_cases", 0) + 1
        if verdict == "skip":
            ctx.notes["skipped_inexact"] = ctx.notes.get("skipped_inexact", 0) + 1
            continue
        if verdict is None:
            for a, b, th in meta["pairs"]:
                if il[a] != il[b]:
                    verdict = "Jacobian with %d threads (%s -> %s) differs from the serial one (%s)" % (th, ops[b], il[b][:160], il[a][:160])
                    break
        if verdict is None:
            tl = [i for i, o in enumerate(ops) if o == "tape"]
            if il[tl[0]] != il[tl[-1]]:
                verdict = "the recording changed during the Jacobian computations"
        # thread participation (hook H3)
        multi = False
        for o, l in zip(ops, il):
            if o == "ompstat" and l.startswith("O"):
                ids = [x for x in l[1:].split()]
                if len(ids) > 1:
                    multi = True
                ctx.notes["max_threads_seen"] = max(ctx.notes.get("max_threads_seen", 0), len(ids))
        ctx.notes["cases_with_multiple_threads"] = ctx.notes.get("cases_with_multiple_threads", 0) + (1 if multi else 0)
        ctx.count_case((label, tuple(ops)), nontrivial=multi,
                       sample={"build": label, "n": meta["n"], "m": meta["m"], "W": meta["W"], "threads": meta["threads"],
                               "ompstat": [l for o, l in zip(ops, il) if o == "ompstat"][:4]})
        if verdict is not None:
            ctx.nbad += 1
            if ctx.nbad <= 2:
                ctx.violation("%s [build %s]" % (verdict, label), {"kind": "oracle", "build": label, "ops": ops, "impl": il, "message": verdict})
        elif not meta.get("nonfinite"):
            il2 = ["O" if l.startswith("O") else l for l in il]
            d = vcheck.first_diff(il2, ml)
            if d is not None:
                ctx.cov["disagreements_checked"] += 1
                if len(ctx.pending) < 2:
                    ctx.pending.append({"kind": "correspondence", "correspondence": "AdeptModel/Tape.lean (jac*Omp, useOmp) <-> jacobian.cpp",
                                        "build": label, "ops": ops, "first_difference": {"op": ops[d], "impl": il[d], "model": ml[d]}})
    ctx.cov["traces_validated_against_impl"] += len(cases)


# ------------------------------------------------------------------ binary64 cases
def gen_fcase(rng, W, threads, n=None, m=None, nonfinite=None):
    """one binary64 case -> (ops, meta); n, m given: directed sweep"""
    if nonfinite is None:
        nonfinite = rng.random() < 0.15
    g = tc.FGen(rng, nonfinite=nonfinite)
    g.emit("cfg %d 0 1" % W)
    for _ in range(rng.randint(2, 6)):
        g.new()
    g.emit("nr")
    g.program(rng.randint(2, 18), nfan=rng.choice([1, 1, 2]))
    g.emit("hex 1")
    g.emit("tape")
    choices = sorted(set([1, W + 1, 2 * W - 1, 2 * W, 2 * W + 1, 3 * W + 1, 3 * W + 2, 4 * W + 3, 5 * W - 1]) - {0, -1})
    n = rng.choice(choices) if n is None else n
    m = rng.choice(choices) if m is None else m
    indep, dep = g.lists(n, m)
    for k in indep:
        g.emit("indep %d" % k)
    for k in dep:
        g.emit("dep %d" % k)
    k = n + rng.randint(1, 3)
    layouts = [(1, 0, m * n), (k, 1, m * k)]
    if rng.random() < 0.3:
        io = 2 * m + 1
        layouts.append((2, io, (m - 1) * 2 + (n - 1) * io + 1))
    q = []          # (op index, mode, threads, dO, iO, ncells)
    pairs = []
    ser = {}
    g.emit("threads 1")
    for mode in ("fwd", "rev"):
        for lay in layouts:
            ser[(mode, lay)] = len(g.ops); q.append((len(g.ops), mode, 1) + lay); g.emit("jac %s ptr %d %d %d" % ((mode,) + lay))
    g.emit("ompstat")
    for th in threads:
        g.emit("threads %d" % th)
        for mode in ("fwd", "rev"):
            for lay in layouts:
                pairs.append((ser[(mode, lay)], len(g.ops), th)); q.append((len(g.ops), mode, th) + lay)
                g.emit("jac %s ptr %d %d %d" % ((mode,) + lay))
        g.emit("ompstat")
    g.emit("tape")
    g.emit("threads 1")
    g.emit("hex 0")
    return g.ops, {"fqueries": q, "indep": indep, "dep": dep, "n": n, "m": m, "pairs": pairs, "threads": threads, "W": W,
                   "nonfinite_requested": nonfinite}


def fmodel_text(rng, ops, meta, il):
    """the model's input for one binary64 case, built from the implementation's own tape dump -> (text lines, [(op index, model line index)])"""
    W = meta["W"]
    idx = tc.handle_indices(ops, il)
    ti = ops.index("tape")
    tape = tc.parse_ftape(il[ti])
    xi = [idx[k] for k in meta["indep"]]; yi = [idx[k] for k in meta["dep"]]
    N = 1 + max([0] + xi + yi + [l for l, _ in tape] + [i for _, o in tape for _, i in o])
    lines = ["ftape %d %d |%s" % (W, N, il[ti].split("|", 1)[1] if "|" in il[ti] else ""),
             "findep " + " ".join(map(str, xi)), "fdep " + " ".join(map(str, yi))]
    where = []
    for oi, mode, th, dO, iO, nc in meta["fqueries"]:
        count = len(xi) if mode == "fwd" else len(yi)
        nb = (count + W - 1) // W
        sched = list(range(nb))
        if th > 1 and count > W:
            rng.shuffle(sched)          # the theorems hold for every order of the blocks: the model runs a random one
        else:
            sched = []
        where.append((oi, len(lines)))
        lines.append(("fjac %s %d %d %d %d %s" % (mode, th, dO, iO, nc, " ".join(map(str, sched)))).rstrip())
    return lines, where, tape, xi, yi, N


def run_fcases(ctx, exe, label, cases):
    """binary64 cases: OpenMP = serial bit for bit; serial = Python transcription of jacobian.cpp; both = Lean model on Float"""
    text = "".join("\n".join(ops) + "\n" for ops, _ in cases)
    impl, rc, err = vcheck.run_impl(exe, [], text, env=OMP_ENV)
    pos = 0
    mtext, mwhere = [], []
    done = []
    for ops, meta in cases:
        il = impl[pos:pos + len(ops)]
        pos += len(ops)
        if len(il) < len(ops):
            ctx.violation("implementation stopped on a binary64 parallel-Jacobian case (%s): %s %s" % (label, rc_text(rc), vcheck.san_summary(err)),
                          {"kind": "crash", "build": label, "ops": ops, "stderr": err[-3000:], "impl": il})
            break
        verdict = None
        try:
            lines, where, tape, xi, yi, N = fmodel_text(ctx.rng, ops, meta, il)
        except Exception as e:
            ctx.violation("unparsable output on a binary64 case (%s): %r" % (label, e), {"kind": "oracle", "build": label, "ops": ops, "impl": il})
            continue
        nonfinite = tc.tape_nonfinite(tape)
        W = meta["W"]
        # (1) the property: parallel = serial, every cell, bit for bit
        for a, b, th in meta["pairs"]:
            if il[a] != il[b]:
                pa, pb = il[a].split(), il[b].split()
                d = [i for i in range(min(len(pa), len(pb))) if pa[i] != pb[i]]
                verdict = ("binary64: Jacobian with %d threads (%s) differs in the bits of cell %s from the serial one: %s vs %s"
                           % (th, ops[b], d[0] - 1 if d else "?", pb[d[0]] if d else il[b][:80], pa[d[0]] if d else il[a][:80]))
                break
        # (2) independent oracle: the serial routine = the same operations in the same order, in Python floats
        if verdict is None:
            for oi, mode, th, dO, iO, nc in meta["fqueries"]:
                if th != 1:
                    continue
                exp = tc.fbits_line("P", tc.fjac_oracle(tape, N, W, xi, yi, mode == "fwd", dO, iO, nc))
                if il[oi] != exp:
                    pa, pb = il[oi].split(), exp.split()
                    d = [i for i in range(min(len(pa), len(pb))) if pa[i] != pb[i]]
                    verdict = ("binary64: serial %s differs in the bits of cell %s from the operation-for-operation transcription "
                               "of jacobian.cpp: %s vs %s" % (ops[oi], d[0] - 1 if d else "?", pa[d[0]] if d else il[oi][:80], pb[d[0]] if d else exp[:80]))
                    break
        tl = [i for i, o in enumerate(ops) if o == "tape"]
        if verdict is None and il[tl[0]] != il[tl[-1]]:
            verdict = "the recording changed during the Jacobian computations (binary64 case)"
        multi = False
        for o, l in zip(ops, il):
            if o == "ompstat" and l.startswith("O") and len(l[1:].split()) > 1:
                multi = True
        maxops = max([len(o) for _, o in tape] + [0])
        ctx.notes["f_cases"] = ctx.notes.get("f_cases", 0) + 1
        ctx.notes["f_cases_nonfinite_tape"] = ctx.notes.get("f_cases_nonfinite_tape", 0) + (1 if nonfinite else 0)
        ctx.notes["f_cases_with_multiple_threads"] = ctx.notes.get("f_cases_with_multiple_threads", 0) + (1 if multi else 0)
        ctx.notes["f_short_last_block_fwd"] = ctx.notes.get("f_short_last_block_fwd", 0) + (1 if meta["n"] % W and meta["n"] > W else 0)
        ctx.notes["f_short_last_block_rev"] = ctx.notes.get("f_short_last_block_rev", 0) + (1 if meta["m"] % W and meta["m"] > W else 0)
        tc.mult_stats(tape, ctx.notes)
        hist = ctx.notes.setdefault("f_operands_per_statement", {})
        for _, o in tape:
            kk = str(len(o)) if len(o) < 8 else "8+"
            hist[kk] = hist.get(kk, 0) + 1
        ctx.notes["f_jacobian_cells_compared"] = ctx.notes.get("f_jacobian_cells_compared", 0) + sum(len(il[b].split()) - 1 for _, b, _ in meta["pairs"])
        ctx.count_case((label, "f", tuple(ops)), nontrivial=multi,
                       sample={"build": label, "binary64": True, "n": meta["n"], "m": meta["m"], "W": W, "max_operands": maxops,
                               "tape": il[tl[0]][:200]})
        if verdict is not None:
            ctx.nbad += 1
            if ctx.nbad <= 2:
                ctx.violation("%s [build %s]" % (verdict, label), {"kind": "oracle", "build": label, "ops": ops, "impl": il, "message": verdict})
            continue
        base = len(mtext)
        mtext += lines
        done.append((ops, il, [(oi, base + mi) for oi, mi in where]))
    # (3) the Lean model on Float, one process for the whole batch
    if done:
        ml = vcheck.run_model("tape", "\n".join(mtext) + "\n")
        for ops, il, where in done:
            for oi, mi in where:
                got = ml[mi] if mi < len(ml) else "<missing>"
                if got != il[oi]:
                    ctx.cov["disagreements_checked"] += 1
                    if len(ctx.pending) < 2:
                        ctx.pending.append({"kind": "correspondence", "correspondence": "AdeptModel/Tape.lean on Float (jacFwd*/jacRev*B) <-> jacobian.cpp",
                                            "build": label, "ops": ops, "first_difference": {"op": ops[oi], "impl": il[oi][:400], "model": got[:400],
                                                                                             "model_input": mtext[mi]}})
                    break
    ctx.cov["traces_validated_against_impl"] += len(done)


def run(ctx, replay):
    thms = [NS + t for t in vcheck.prop_theorems("AdeptProofs/Props/C13.lean", "C13_")]
    # Refute/Tape.lean: non-vacuity instances of the law-free theorems over carriers that satisfy no ring law
    fails = vcheck.lean_gate(ctx, ["AdeptProofs.Props.C13", "AdeptProofs.Refute.Tape"], thms, required=[NS + r for r in REQUIRED])
    ctx.notes.setdefault("seconds", {})["lean_gate"] = round(time.time() - ctx.t0, 1)
    vs = [("W4", dict(W=4)), ("W3", dict(W=3)), ("sse2", dict(packets="sse2"))]
    fl = c02.cpu_flags()
    if "avx" in fl:
        # AVX packets (W = 4): 32-byte ALIGNED loads/stores of the per-thread working buffers.  Built WITHOUT a sanitizer: ASan's
        # allocator hands out 32-byte aligned blocks for everything above 48 bytes, the system allocator guarantees 16 only, so
        # this is the build in which a working buffer that is not obtained with alloc_aligned faults (SIGSEGV = violation with
        # the op list of the case as input; the driver flushes its output at every `cfg`, so the case blamed is the right one)
        vs.append(("avx", dict(packets="avx", san="none")))
    if ctx.tier == "thorough":
        vs += [("W1", dict(W=1)), ("W2", dict(W=2)), ("W5", dict(W=5)), ("W8", dict(W=8))]
        if "avx" in fl:
            vs.append(("avx-asan", dict(packets="avx")))
        if "avx512f" in fl:
            vs += [("avx512", dict(packets="avx512", san="none")), ("avx512-asan", dict(packets="avx512"))]
    with ThreadPoolExecutor(max_workers=min(len(vs), 4)) as ex:
        exes = list(ex.map(lambda v: tc.build(**v[1]), vs))
    ctx.notes["seconds"]["builds"] = round(time.time() - ctx.t0 - ctx.notes["seconds"]["lean_gate"], 1)
    ctx.pending, ctx.nbad = [], 0
    ncpu = os.cpu_count() or 2
    maxth = max(2, min(16, ncpu))
    ncase = 100 if ctx.tier == "quick" else 160
    nfcase = 200 if ctx.tier == "quick" else 400
    for (label, kw), exe in zip(vs, exes):
        W = c02.width(kw)
        ctx.curW = W
        if replay:
            r = json.load(open(replay))
            il = vcheck.run_impl(exe, [], "\n".join(r["ops"]) + "\n")[0]
            print("\n".join("%-40s | %s" % (o, l) for o, l in zip(r["ops"], il)))
            continue
        cases = []
        for i in range(ncase):
            if ctx.tier == "quick":
                ths = sorted(set([2, ctx.rng.randint(3, maxth), maxth]))
            else:
                ths = sorted(set(ctx.rng.sample(range(2, maxth + 1), min(5, maxth - 1)) + [2, maxth]))
            cases.append(gen_case(ctx.rng, W, ths))
        t0 = time.time()
        run_cases(ctx, exe, label, cases)
        ctx.notes.setdefault("seconds", {})[label + ":integer"] = round(time.time() - t0, 1)
        t0 = time.time()
        # binary64: a directed sweep over every residue of n and m modulo W (short last block of 1..W-1 lanes, two and three
        # full blocks before it) + random shapes
        fcases = []
        for r in range(1, W):
            for full in (1, 2):
                fcases.append(gen_fcase(ctx.rng, W, sorted(set([2, ctx.rng.randint(2, maxth)])), n=full * W + r, m=(3 - full) * W + r, nonfinite=False))
        for i in range(nfcase):
            ths = sorted(set([2, ctx.rng.randint(3, maxth), maxth])) if i % 3 == 0 else sorted(set([ctx.rng.randint(2, maxth)]))
            fcases.append(gen_fcase(ctx.rng, W, ths))
        run_fcases(ctx, exe, label, fcases)
        ctx.notes["seconds"][label + ":binary64"] = round(time.time() - t0, 1)
    ctx.cov["rule"] = ("random integer tapes; m,n from {1,W,W+1,2W-1,2W,2W+1,3W+1,4W+3,5W}; each case computes forward and reverse "
                       "Jacobians into three raw-pointer layouts serially (threads=1) and with 2..%d OpenMP threads and compares the "
                       "buffers cell for cell with the serial ones, with the product of statement matrices and with the model; the tape "
                       "dump before and after must be identical; non-trivial = hook H3 saw more than one OpenMP thread id processing "
                       "blocks in that case.  binary64 cases (build x [directed sweep: n = W+r, 2W+r and m = 2W+r, W+r for every "
                       "r in 1..W-1] + random shapes from {1,W+1,2W-1,2W,2W+1,3W+1,3W+2,4W+3,5W-1}): random programs over non-integer "
                       "doubles (uniform(-2,2), non-dyadic decimals, 10^+-8, 1e+-160 and DBL_MAX/denormals so that products overflow and "
                       "underflow, signed zeros, +-1; 15%% of the random cases also Inf/NaN), statements with 0..12 operands incl. "
                       "repeated operands, cancelling pairs, lhs among its operands, and fan-in/fan-out statements whose >=3 terms all "
                       "depend on one variable that is planted in the independent/dependent lists (half of the time at the LAST "
                       "position = the short block); 2-3 raw-pointer layouts x forward/reverse x serial + 1..3 thread counts from "
                       "2..%d; every cell compared as a bit pattern (see notes f_*)" % (maxth, maxth))
    ctx.notes["builds"] = [l for l, _ in vs]
    ctx.assumptions += ["a data race inside the parallel region (e.g. a shared working buffer) is outside the model; it would show only "
                        "unreliably as a differing result", "OpenMP runtime, static schedule and omp_set_num_threads are trusted"]
    if not replay and ctx.notes.get("cases_with_multiple_threads", 0) == 0 and (os.cpu_count() or 1) > 1:
        ctx.violation("no compared Jacobian ran on more than one OpenMP thread: the OpenMP path is not being exercised "
                      "(dispatch condition or hook changed?)", {"kind": "coverage", "correspondence": "H3 thread participation"}, tag="h", no_input=True)
    if not ctx.violations:
        for p in ctx.pending[:1]:
            ctx.violation("model and implementation disagree on a parallel-Jacobian case (build %s) although parallel = serial = "
                          "product of statement matrices on every case tried" % p["build"], p, tag="c", no_input=True)
    if fails and not ctx.violations:
        ctx.violation("proof obligation of C13 no longer checks: " + fails[0][:400],
                      {"kind": "proof", "theorem": "AdeptProofs/Props/C13.lean", "failures": fails}, tag="p", no_input=True)
