"""C01 — reverse-mode gradients equal the true derivatives of the recorded program.

proof:  lean/AdeptProofs/Props/C01.lean over the model AdeptModel/Expr.lean and the tables REGENERATED on every run
        from include/adept/UnaryOperation.h / BinaryOperation.h (translate/unary.py, translate/binary.py):
        every unary derivative entry is the derivative of its function on the open domain, the binary multipliers
        are the partial derivatives, with-/without-multiplier overloads agree, scratch discipline, the pushed
        multipliers of every tree are the derivative along any input curve, program tangent, adjoint = gradient.
tie:    translators (formulas) + correspondence of generated scalar programs: C++ translation units generated from
        ctx.rng, compiled against the working tree, the tape of every program dumped through SpyStack and compared
        with `adept_model expr` (statement count, every lhs/rhs index exactly, multipliers and values bit for bit in
        the + - * / sqrt regime and within 4 ulp when libm is involved).
oracle: a hand-written forward-mode `Dual` type (harness/c01_common.h) runs the same programs on plain doubles in the
        same executable: values within max(4, 2*dis) ulp, Jacobian entries within (64 + 64*dis)*eps*sum|terms|, where
        dis (ulps, 0 for programs without division) bounds the a*(1/b)-versus-a/b discrepancy the generator propagated.
"""
import os, sys, json, re, struct, time
from concurrent.futures import ThreadPoolExecutor
import vbuild, vcheck
import c01gen as G

LEVEL = "proof"
NS = "Adept.Expr."
REQUIRED = ["C01_unary_table_sound", "C01_store_stored", "C01_store_frame", "C01_mul_linear", "C01_grad_linear",
            "C01_bin_partials", "C01_grad_hasDerivAt", "C01_program_tangent", "C01_adjoint_is_gradient", "C01_values_plain",
            "C01_branch_is_selected_assignment"]
EPS = 2.0 ** -52
TRANSLATE = os.path.join(vbuild.VERIF, "translate")


# ------------------------------------------------------------------ translators
def regenerate(ctx):
    """-> list of failure strings (translator could not parse its input)"""
    sys.path.insert(0, TRANSLATE)
    import unary, binary, cexpr
    fails = []
    gen = {}
    for mod, fname in ((unary, "UnaryTable.lean"), (binary, "BinaryTable.lean")):
        out = os.path.join(vcheck.LEAN, "AdeptModel", "Generated", fname)
        try:
            p, changed = mod.write(vbuild.REPO, out)
            gen[fname] = "rewritten (differs from the committed text)" if changed else "unchanged"
        except cexpr.TranslateError as e:
            fails.append("translator %s cannot parse %s: %s" % (mod.__name__, mod.HEADER, e))
            gen[fname] = "NOT regenerated: " + str(e)[:300]
    ctx.notes["generated"] = gen
    try:
        ctx.notes["literals_mapped_to_exact_constants"] = [
            l.strip() for l in open(os.path.join(vcheck.LEAN, "AdeptModel", "Generated", "UnaryTable.lean")).read().split("\n")
            if "KConst." in l and "~" in l]
    except OSError:
        pass
    return fails


# ------------------------------------------------------------------ program set
def make_programs(rng, nstmts_total, unsupported):
    progs = []
    total = 0
    pid = 0
    while total < nstmts_total:
        x = rng.random()
        supported_only = x < 0.7
        pg = G.ProgGen(rng, supported_only, unsupported, exact_only=x < 0.2)
        n = rng.choice([6, 10, 14, 18, 24, 30])
        st = pg.program(n)
        nrec = len([s for s in st if s[0] not in ("input", "nr")])
        if nrec < 3:
            continue
        progs.append({"id": pid, "stmts": st, "gen": pg, "nrec": nrec,
                      "unsupported": sorted(G.funcs_used(st) & unsupported),
                      "exact": G.is_exact_program(st)})
        total += nrec
        pid += 1
    return progs


def directed_programs(rng, unsupported, start_id):
    """every operation x operand form x child shape x placement (c01gen.directed_templates), 8 statements per program"""
    ts = G.directed_templates(unsupported)
    out = []
    for k in range(0, len(ts), 8):
        pg = G.ProgGen(rng, True, unsupported)
        st, done = pg.directed_program(ts[k:k + 8])
        if done < 1:
            continue
        out.append({"id": start_id + len(out), "stmts": st, "gen": pg, "nrec": len([s_ for s_ in st if s_[0] not in ("input", "nr")]),
                    "unsupported": sorted(G.funcs_used(st) & unsupported), "exact": G.is_exact_program(st), "directed": True})
    return out


REGRESSION = [
    # F-11: noalias nested under a multiplying parent (multiplier overload of NoAlias::calc_gradient_, value_stored_)
    [("input", 0, [3.0, 1.5, -2.0]), ("input", 1, [4.0, 0.5, 2.5]), ("nr",),
     ("newe", 2, ("b", "Multiply", ("v", 0), ("n", ("v", 1)))),
     ("newe", 3, ("l", "Multiply", ("d", 2.0), ("n", ("u", "Sin", ("v", 1))))),
     ("asg", 2, ("b", "Divide", ("n", ("b", "Multiply", ("v", 0), ("v", 1))), ("n", ("u", "Exp", ("v", 3))))),
     ("cop", 3, "Multiply", ("n", ("v", 0)))],
]


def regression_programs(start_id):
    out = []
    for k, st in enumerate(REGRESSION):
        pg = G.ProgGen(None, True, set())
        pg.maxdis = [1.5] * G.NPTS
        pg.vals = {}
        out.append({"id": start_id + k, "stmts": st, "gen": pg, "nrec": len(st) - 3, "unsupported": [],
                    "exact": G.is_exact_program(st), "regression": True})
    return out


def write_tus(workdir, progs, ntu):
    """-> list of source paths (TUs + main)"""
    tus = [[] for _ in range(ntu)]
    # balance by number of recorded statements
    load = [0] * ntu
    for p in sorted(progs, key=lambda p: -p["nrec"]):
        k = load.index(min(load))
        tus[k].append(p); load[k] += p["nrec"]
    srcs = []
    used = [k for k in range(ntu) if tus[k]]
    for k in used:
        L = ['#include "c01_common.h"', "using adept::adouble;", "namespace {"]
        for p in tus[k]:
            a, live = G.cxx_adept(p["stmts"], p["id"], G.NPTS)
            p["live"] = live
            L.append(a)
            L.append(G.cxx_dual(p["stmts"], p["id"], G.NPTS))
        L.append("}")
        L.append("struct C01Entry { int id; void (*a)(int); void (*d)(int); };")
        L.append("extern const C01Entry c01_tab_%d[] = {%s {-1, 0, 0}};" % (
            k, "".join("{%d, prog_%d, dprog_%d}," % (p["id"], p["id"], p["id"]) for p in tus[k])))
        path = os.path.join(workdir, "c01_tu_%d.cpp" % k)
        open(path, "w").write("\n".join(L) + "\n")
        srcs.append(path)
        for p in tus[k]:
            p["tu"] = k
    M = ['#include "c01_common.h"', "#include <cstdlib>", "#include <set>",
         "struct C01Entry { int id; void (*a)(int); void (*d)(int); };"]
    for k in used:
        M.append("extern const C01Entry c01_tab_%d[];" % k)
    M.append("static const C01Entry* const tabs[] = {%s};" % ", ".join("c01_tab_%d" % k for k in used))
    M.append("static const int tu_no[] = {%s};" % ", ".join(str(k) for k in used))
    M.append(r'''
// usage: exe tu <k>      run every program of translation unit k at every point
//        exe prog <id>   run one program
int main(int argc, char** argv) {
  int want_tu = -1, want_id = -1;
  if (argc == 3 && std::string(argv[1]) == "tu") want_tu = atoi(argv[2]);
  if (argc == 3 && std::string(argv[1]) == "prog") want_id = atoi(argv[2]);
  for (unsigned t = 0; t < sizeof(tabs) / sizeof(tabs[0]); ++t) {
    if (want_tu >= 0 && tu_no[t] != want_tu) continue;
    for (const C01Entry* e = tabs[t]; e->id >= 0; ++e) {
      if (want_id >= 0 && e->id != want_id) continue;
      for (int pt = 0; pt < NPTS_; ++pt) {
        try { e->a(pt); } catch (const std::exception& x) { std::cout << "EXC " << x.what() << "\n"; }
        std::cout.flush();
        e->d(pt);
        std::cout.flush();
      }
    }
  }
  return 0;
}
'''.replace("NPTS_", str(G.NPTS)))
    path = os.path.join(workdir, "c01_main.cpp")
    open(path, "w").write("\n".join(M) + "\n")
    srcs.append(path)
    return srcs, used


# ------------------------------------------------------------------ output parsing / comparison
def ordbits(h):
    b = int(h, 16)
    return b if b < (1 << 63) else (1 << 63) - b


def ulps(h1, h2):
    return abs(ordbits(h1) - ordbits(h2))


def isnan_hex(h):
    b = int(h, 16)
    return (b >> 52) & 0x7FF == 0x7FF and (b & ((1 << 52) - 1)) != 0


def tofloat(h):
    return struct.unpack(">d", struct.pack(">Q", int(h, 16)))[0]


HEXRE = re.compile(r"\b[0-9a-f]{16}\b")
MAXULP = [0]      # largest model-vs-implementation difference seen on a compared number (ulps)


def line_diff(il, ml, tol):
    """compare one impl line with one model line; -> None or description.  tol: ulps allowed on hex fields,
    None: structure only (hex fields ignored)"""
    if il == ml:
        return None
    if tol == "lhs":
        # structure-only regime with max/min present: NaN-tainted guards of the model may take the other arm, so only
        # the statement sequence (count and left-hand sides) is comparable
        if il.startswith("T ") and ml.startswith("T "):
            f = lambda l: [x.split(":")[0].strip() for x in l.split(" | ")[1:]]
            return None if (il.split()[1] == ml.split()[1] and f(il) == f(ml)) else "statement sequence differs"
        tol = None
    ih, mh = HEXRE.findall(il), HEXRE.findall(ml)
    if HEXRE.sub("#", il) != HEXRE.sub("#", ml) or len(ih) != len(mh):
        return "structure differs"
    if tol is None:
        return None
    for a, b in zip(ih, mh):
        if a != b and not (isnan_hex(a) or isnan_hex(b)):
            MAXULP[0] = max(MAXULP[0], ulps(a, b))
        if a != b and (isnan_hex(a) or isnan_hex(b) or ulps(a, b) > tol):
            return "number differs by %s ulp (allowed %d): impl %s model %s" % (
                "NaN" if isnan_hex(a) or isnan_hex(b) else ulps(a, b), tol, tofloat(a), tofloat(b))
    return None


def split_output(lines):
    """-> {(kind, id, pt): [lines]}  kind 'P' (Adept) or 'D' (Dual)"""
    out, cur = {}, None
    for l in lines:
        m = re.match(r"^([PD]) (\d+) (\d+)$", l)
        if m:
            cur = (m.group(1), int(m.group(2)), int(m.group(3)))
            out[cur] = []
        elif cur is not None:
            out[cur].append(l)
    return out


def oracle_point(p, pt, il, dl):
    """independent judgement of one program at one point from the implementation's own output -> message or None"""
    live = p["live"]
    nin = len([s for s in p["stmts"] if s[0] == "input"])
    vals = [l.split()[1] for l in il if l.startswith("v ")]
    jl = [l for l in il if l.startswith("J ")]
    if len(vals) != len(live) or len(jl) != 1:
        return "implementation output incomplete (%d values, %d Jacobian lines; expected %d, 1): %r" % (
            len(vals), len(jl), len(live), il[-3:])
    jt = jl[0].split()
    if jt[1] != str(len(live)) or jt[2] != str(nin) or len(jt) != 4 + len(live) * nin:
        return "malformed Jacobian line %r" % jl[0][:200]
    J = jt[4:]
    dv = [l.split()[1] for l in dl if l.startswith("dv ")]
    dj = [l.split()[1:] for l in dl if l.startswith("dj")]
    if len(dv) != len(live) or len(dj) != len(live):
        return "oracle output incomplete"
    dis = p["gen"].maxdis[pt]
    vtol = max(4, int(2 * dis + 0.5))
    gfac = 64.0 + 64.0 * dis
    for i, h in enumerate(live):
        if isnan_hex(vals[i]) or isnan_hex(dv[i]) or ulps(vals[i], dv[i]) > vtol:
            return ("value of variable %d: recorded program gives %.17g, the same program on plain doubles %.17g "
                    "(%s ulp apart, allowed %d)" % (h, tofloat(vals[i]), tofloat(dv[i]),
                                                    "NaN" if isnan_hex(vals[i]) or isnan_hex(dv[i]) else ulps(vals[i], dv[i]), vtol))
        for j in range(nin):
            d, a = dj[i][j].split("/")
            g, dd, aa = tofloat(J[i * nin + j]), tofloat(d), tofloat(a)
            tol = gfac * EPS * aa + 1e-290
            if not (abs(g - dd) <= tol):
                return ("d(variable %d)/d(input %d): adjoint/Jacobian pass gives %.17g, exact first-order evaluation "
                        "(dual numbers) gives %.17g; |difference| %.3g > %.3g = %g*eps*sum|terms|" % (
                            h, j, g, dd, abs(g - dd), tol, gfac))
    return None


# ------------------------------------------------------------------ main
def run(ctx, replay):
    tfails = regenerate(ctx)
    thms = [NS + t for t in vcheck.prop_theorems("AdeptProofs/Props/C01.lean", "C01_")]
    fails = tfails + vcheck.lean_gate(ctx, ["AdeptProofs.Props.C01"], thms, required=[NS + r for r in REQUIRED])
    caps = vcheck.run_model("expr", "caps\n")
    unsupported = set(caps[0].split()[1:]) if caps and caps[0].startswith("caps") else set()
    ctx.notes["model_unsupported_functions"] = sorted(unsupported)

    if replay:
        r = json.load(open(replay))
        stmts = json.loads(r["program_json"], object_hook=None)
        stmts = [detuple(s) for s in stmts]
        pg = G.ProgGen(None, True, set()); pg.maxdis = r.get("maxdis", [1.5] * G.NPTS)
        progs = [{"id": 0, "stmts": stmts, "gen": pg, "nrec": len(stmts), "unsupported": sorted(G.funcs_used(stmts) & unsupported),
                  "exact": G.is_exact_program(stmts)}]
        rounds = [progs]
    else:
        nst = 400 if ctx.tier == "quick" else 6000
        nrounds = 1 if ctx.tier == "quick" else 3
        rounds = []
        for k in range(nrounds):
            progs = make_programs(ctx.rng, nst, unsupported)
            if k == 0:
                progs += regression_programs(len(progs))
                progs += directed_programs(ctx.rng, unsupported, len(progs))
            rounds.append(progs)

    ctx.pending, ctx.nbad, ctx.ncorr = [], 0, 0
    dist = {"unary": {}, "binary": {}, "kinds": {}, "stmts": {}}
    stats = {"programs": 0, "recorded_statements": 0, "program_points": 0, "exact_regime_points": 0,
             "libm_regime_points": 0, "structure_only_points": 0, "ties_max_min": 0, "max_dis_ulps": 0.0,
             "tape_statements_compared": 0, "tape_operations_compared": 0, "jacobian_entries_checked": 0}
    for rnd, progs in enumerate(rounds):
        wd = os.path.join(ctx.workdir, "r%d" % rnd)
        os.makedirs(wd, exist_ok=True)
        ntu = 16 if len(progs) >= 16 else max(1, len(progs))
        t0 = time.time()
        srcs, used = write_tus(wd, progs, ntu)
        exe = vbuild.build("c01", srcs, extra=["-std=c++17"])
        ctx.notes.setdefault("compile_s", []).append(round(time.time() - t0, 1))
        byid = {p["id"]: p for p in progs}
        # run per TU in parallel
        def run_tu(k):
            return k, vcheck.run_impl(exe, ["tu", str(k)], "", timeout=1200)
        with ThreadPoolExecutor(max_workers=16) as ex:
            results = list(ex.map(run_tu, used))
        out = {}
        for k, (lines, rc, err) in results:
            o = split_output(lines)
            out.update(o)
            if rc != 0:
                # identify the program that stopped the TU, report it, rerun the others one by one
                started = [key for key in o]
                last = started[-1] if started else None
                bad = byid.get(last[1]) if last else None
                ctx.nbad += 1
                if ctx.nbad <= 3:
                    ctx.violation("the implementation stopped (rc=%s) while running a generated program: %s" % (rc, err[-1500:]),
                                  replay_obj(bad, last[2] if last else 0, "crash", {"stderr": err[-4000:]}) if bad else
                                  {"kind": "crash", "stderr": err[-4000:]})
                done = {key[1] for key in o if key[0] == "D" and key[2] == G.NPTS - 1}
                for p in progs:
                    if p["tu"] == k and p["id"] not in done and (bad is None or p["id"] != bad["id"]):
                        l2, rc2, err2 = vcheck.run_impl(exe, ["prog", str(p["id"])], "", timeout=600)
                        out.update(split_output(l2))
        # model: all program-points in one stream
        req, text = [], []
        for p in progs:
            for pt in range(G.NPTS):
                ml, _ = G.model_lines(p["stmts"], pt)
                req.append((p, pt, len(ml)))
                text += ml
        mo = vcheck.run_model("expr", "\n".join(text) + "\n")
        pos = 0
        for p, pt, n in req:
            ml = mo[pos:pos + n]; pos += n
            il = out.get(("P", p["id"], pt)); dl = out.get(("D", p["id"], pt))
            if il is None or dl is None:
                continue          # lost to a crash already reported
            judge(ctx, p, pt, il, ml, dl, stats)
        for p in progs:
            stats["programs"] += 1; stats["recorded_statements"] += p["nrec"]
            stats["ties_max_min"] += getattr(p["gen"], "ties", 0)
            stats["max_dis_ulps"] = max(stats["max_dis_ulps"], max(p["gen"].maxdis))
            for cat in dist:
                for key, v in getattr(p["gen"], "used", {}).get(cat, {}).items():
                    dist[cat][key] = dist[cat].get(key, 0) + v
        if replay:
            p = progs[0]
            for pt in range(G.NPTS):
                ml, _ = G.model_lines(p["stmts"], pt)
                mo2 = vcheck.run_model("expr", "\n".join(ml) + "\n")
                print("--- point %d" % pt)
                for a, b, c in zip(ml, out.get(("P", 0, pt), []), mo2):
                    print("%-70s | %-50s | %s" % (a[:70], b[:200], c[:200]))
                print("\n".join(out.get(("P", 0, pt), [])[-1:]))
                print("\n".join(out.get(("D", 0, pt), [])))

    ctx.cov["traces_validated_against_impl"] = stats["program_points"]
    ctx.notes["distribution"] = dist
    stats["max_ulp_model_vs_impl"] = MAXULP[0]
    ctx.notes["stats"] = stats
    nu = len(G.UNARY)
    ctx.notes["unary_functions_exercised"] = "%d of %d" % (len(dist["unary"]), nu)
    ctx.cov["rule"] = ("random straight-line programs of Active<double> generated as C++ source and as token lines for the model: "
                       "2-4 inputs, <= 30 statements (construct from passive / default / expression / copy, delete in non-LIFO order, "
                       "assign passive / expression, += -= *= /= with active and passive right-hand sides, nested temporaries, "
                       "add/append_derivative_dependence), expression trees of depth <= 5 over the 34 unary functions/operators and 8 "
                       "binary policies in every operand-kind combination (active∘active, double∘active, int∘active, active∘double, "
                       "active∘int, active/scalar, noalias), each evaluated at 3 input points inside the domains (margins and a "
                       "propagated conditioning bound reject near-singular points).  non-trivial: the recording has at least one "
                       "statement with operations; distinct: different (program, point)")
    ctx.assumptions += [
        "IEEE rounding is observed, not proved: theorems are over the reals; the 'few ulp' clause is checked on the generated programs only",
        "erf/erfc: Mathlib has no error function; the theorems carry the hypothesis HasDerivAt erf (2/sqrt(pi) exp(-x^2)) x explicitly",
        "fastexp is modelled as exp in the proof layer (it is an approximation of exp; its derivative entry is 'result')",
        "decimal literals of the derivative table are replaced by the exact constants they approximate (relative error < 1e-14, checked in 50-digit arithmetic by the translator)",
        "functions the Float model cannot reproduce (%s) are compared with the model on structure only and judged numerically by the oracle" % ", ".join(sorted(unsupported)),
        "max/min at an exact tie: oracle and model use Adept's documented convention (max: right operand, min: left operand)",
        "branching programs: a recording is the straight-line trace of the branch taken (not modelled beyond that)",
    ]
    if not ctx.violations:
        for pnd in ctx.pending[:1]:
            ctx.violation("model and implementation disagree on a generated program (%s) but the independent oracle accepts "
                          "the implementation's values and gradients" % pnd["first_difference"]["why"], pnd, tag="c", no_input=True)
    if fails and not ctx.violations:
        ctx.violation("proof obligation of C01 no longer checks: " + first_error(fails[0]),
                      {"kind": "proof", "theorem": "AdeptProofs/Props/C01.lean", "failures": [f[:3000] for f in fails]},
                      tag="p", no_input=True)
    elif fails:
        ctx.notes["proof_failures"] = [f[-3000:] for f in fails]
        print("# proof/translation gate also failed: " + first_error(fails[0]))


def first_error(text):
    """the first `error:` lines of a lake log (or the head of the text)"""
    errs = re.findall(r"error: ([^\n]*(?:\n(?!error:|warning:|info:|trace:)[^\n]*){0,6})", text)
    errs = [e for e in errs if not e.startswith("Lean exited") and not e.startswith("build failed")]
    if errs:
        return " || ".join(" ".join(e.split())[:400] for e in errs[:2])
    return " ".join(text.split())[:600]


def detuple(x):
    if isinstance(x, list):
        return tuple(detuple(y) for y in x) if (x and isinstance(x[0], str)) else [detuple(y) for y in x]
    return x


def replay_obj(p, pt, kind, extra=None):
    st = p["stmts"]
    o = {"kind": kind, "program_json": json.dumps(st), "point": pt,
         "inputs": {("in%d" % s[1]): s[2] for s in st if s[0] == "input"},
         "cpp": G.cxx_adept(st, 0, G.NPTS)[0], "tokens": G.model_lines(st, pt)[0],
         "maxdis": list(p["gen"].maxdis)}
    if G.has_noalias_under_multiplier(st):
        o["signature"] = "noalias-under-multiplier"
    if extra:
        o.update(extra)
    return o


def judge(ctx, p, pt, il, ml, dl, stats):
    stats["program_points"] += 1
    stats["jacobian_entries_checked"] += len(p["live"]) * len([s for s in p["stmts"] if s[0] == "input"])
    tl = [l for l in il if l.startswith("T ")]
    nontriv = bool(tl) and "*" in tl[0]
    ctx.count_case((p["id"], pt, tuple(map(str, p["stmts"]))), nontrivial=nontriv,
                   sample={"program": [str(s) for s in p["stmts"][:8]] + ["..."], "point": pt, "tape": tl[0][:200] if tl else ""})
    if tl:
        t = tl[0].split()
        stats["tape_statements_compared"] += int(t[1]); stats["tape_operations_compared"] += int(t[2])
    verdict = oracle_point(p, pt, il, dl)
    if verdict is not None:
        ctx.nbad += 1
        if ctx.nbad <= 3:
            ctx.violation(verdict, replay_obj(p, pt, "oracle", {"message": verdict, "impl": il, "oracle": dl}))
        return
    # correspondence
    if p["unsupported"]:
        if any(s[0] == "br" for s in p["stmts"]):
            # the Float model returns NaN for the functions it cannot reproduce, so a comparison that depends on such a value may select
            # the other branch in the model: its tape is then the tape of a different program.  Such points are judged by the independent
            # oracle alone (false alarm of the thorough tier, seed 1, session 4)
            stats["oracle_only_points_branch_with_unsupported_function"] = stats.get("oracle_only_points_branch_with_unsupported_function", 0) + 1
            return
        tol = "lhs" if ({"Max", "Min"} & G.funcs_used(p["stmts"])) else None
        stats["structure_only_points"] += 1
    elif p["exact"]:
        tol = 0; stats["exact_regime_points"] += 1
    else:
        tol = 4; stats["libm_regime_points"] += 1
    body = [l for l in il if not l.startswith("J ")]
    why = None
    if len(body) != len(ml):
        why = "line count %d vs %d" % (len(body), len(ml)); k = min(len(body), len(ml)) - 1
    else:
        for k, (a, b) in enumerate(zip(body, ml)):
            why = line_diff(a, b, tol)
            if why:
                break
    if why:
        ctx.cov["disagreements_checked"] += 1
        if len(ctx.pending) < 2:
            toks = G.model_lines(p["stmts"], pt)[0]
            ctx.pending.append(replay_obj(p, pt, "correspondence", {
                "correspondence": "AdeptModel/Expr.lean + generated tables <-> Active.h/UnaryOperation.h/BinaryOperation.h",
                "first_difference": {"why": why, "op": toks[k] if 0 <= k < len(toks) else "?",
                                     "impl": body[k][:600] if 0 <= k < len(body) else "", "model": ml[k][:600] if 0 <= k < len(ml) else ""}}))
