"""Shared generator / oracle / runner for the tape family (driver harness/drv_tape.cpp, model family `tape`).
Used by C02 (Jacobian agreement), C10 (replay/re-seed/pause/restart), C13 (OpenMP = serial)."""
import os, re
import vbuild, vcheck

DRV = os.path.join(vbuild.VERIF, "harness", "drv_tape.cpp")
VAL_BOUND = 40
EXACT_BOUND = 1 << 50


def build(W=4, pausable=False, packets=None, extra_defs=(), stack_len=64, san="asan"):
    """packets=None: scalar packets (ADEPT_*_PACKET_SIZE=1) so that ADEPT_MULTIPASS_SIZE=W decides the block width;
    packets='sse2'|'avx'|'avx512': real packets, W is then the packet size;
    san='none': no sanitizer, i.e. the system allocator with its real (16-byte) alignment guarantee"""
    defs = ["ADEPT_INITIAL_STACK_LENGTH=%d" % stack_len] + list(extra_defs)
    extra = ["-std=c++17"]
    if packets is None:
        defs += ["ADEPT_MULTIPASS_SIZE=%d" % W, "ADEPT_DOUBLE_PACKET_SIZE=1", "ADEPT_FLOAT_PACKET_SIZE=1"]
    else:
        extra += {"sse2": ["-msse2"], "avx": ["-mavx"], "avx512": ["-mavx512f"]}[packets]
    if pausable:
        defs.append("ADEPT_RECORDING_PAUSABLE")
    return vbuild.build("tape", DRV, defines=defs, extra=extra, san=san)


PACKET_W = {"sse2": 2, "avx": 4, "avx512": 8}


# ------------------------------------------------------------------ generator
class Gen:
    def __init__(self, rng, pausable=False, array_forms=False):
        self.rng = rng
        self.array_forms = array_forms   # also emit the free functions on arrays of Active (set_values) and preallocate_* calls
        self.live = {}      # handle -> value
        self.nxt = 0
        self.ops = []
        self.pausable = pausable
        self.paused = False
        self.last_lhs = None   # handle of the last recorded statement's lhs (for append)

    def emit(self, s):
        self.ops.append(s)

    def new(self, v=None):
        k = self.nxt; self.nxt += 1
        v = self.rng.randint(-4, 4) if v is None else v
        self.live[k] = v
        self.emit("new %d %d" % (k, v))
        if not self.paused:
            self.last_lhs = k
        return k

    def expr(self, depth):
        """random tree of height <= depth with at least one active leaf -> (tokens, value)"""
        r = self.rng
        for _ in range(50):
            toks, val, act = self._expr(depth)
            if act and abs(val) <= VAL_BOUND:
                return toks, val
        k = r.choice(list(self.live))
        return ["v%d" % k], self.live[k]

    def _expr(self, depth):
        r = self.rng
        if depth == 0 or r.random() < 0.25:
            if r.random() < 0.75:
                k = r.choice(list(self.live))
                return ["v%d" % k], self.live[k], True
            c = r.randint(-3, 3)
            return ["c%d" % c], c, False
        op = r.choice(["add", "sub", "mul", "mul", "add", "neg"])
        if op == "neg":
            t, v, a = self._expr(depth - 1)
            if not a:
                return t, v, a
            return ["neg"] + t, -v, a
        t1, v1, a1 = self._expr(depth - 1)
        t2, v2, a2 = self._expr(depth - 1)
        if not a1 and not a2:
            return t1, v1, a1
        v = v1 + v2 if op == "add" else v1 - v2 if op == "sub" else v1 * v2
        return [op] + t1 + t2, v, True

    def statement(self):
        r = self.rng
        live = list(self.live)
        x = r.random()
        if self.array_forms and len(live) >= 2 and r.random() < 0.07:
            if r.random() < 0.5:
                # set_values(Active* a, n, data): n values at once, nothing is recorded (n = 0 allowed, repeats allowed: the last wins)
                hs = [r.choice(live) for _ in range(r.choice([0, 1, 2, 2, 3, 4]))]
                vs = [r.randint(-4, 4) for _ in hs]
                for h, v in zip(hs, vs):
                    self.live[h] = v
                self.emit(("setvn " + " ".join("%d %d" % hv for hv in zip(hs, vs))).rstrip())
            else:
                self.emit("prealloc %s %d%s" % (r.choice("so"), r.choice([0, 1, 3, 8, 70, 300]), r.choice(["", " m", " f"])))
            return
        if self.array_forms and len(live) >= 2 and r.random() < 0.10:
            # the target is an ActiveReference (an element of an active array): reference = reference, reference = passive,
            # reference += -= *= passive
            k = r.choice(live)
            f = r.choice(["rasg", "rasg", "rsetp", "rcadd", "rcsub", "rcmul", "rcmul"])
            if f == "rasg":
                i = r.choice(live)
                self.live[k] = self.live[i]
                self.emit("rasg %d %d" % (k, i))
            elif f == "rsetp":
                v = r.randint(-4, 4)
                self.live[k] = v
                self.emit("rsetp %d %d" % (k, v))
            else:
                y = r.randint(-3, 3)
                v = self.live[k]
                nv = v + y if f == "rcadd" else v - y if f == "rcsub" else v * y
                if abs(nv) > VAL_BOUND:
                    return
                self.live[k] = nv
                self.emit("%s %d c%d" % (f, k, y))
            if not self.paused and f in ("rasg", "rsetp", "rcmul"):
                self.last_lhs = k
            return
        if x < 0.08 or len(live) < 2:
            self.new()
        elif x < 0.12 and len(live) > 3:
            k = r.choice(live[1:])        # non-LIFO deletion
            del self.live[k]
            self.emit("del %d" % k)
        elif x < 0.16:
            k = self.nxt; self.nxt += 1
            i = r.choice(live)
            self.live[k] = self.live[i]
            self.emit("newc %d %d" % (k, i))
            if not self.paused:
                self.last_lhs = k
        elif x < 0.20:
            k = r.choice(live); v = r.randint(-4, 4)
            self.live[k] = v
            self.emit("setp %d %d" % (k, v))
            if not self.paused:
                self.last_lhs = k
        elif x < 0.32:
            k = r.choice(live)
            c = r.choice(["cadd", "csub", "cmul"])
            if r.random() < 0.5:
                y = r.randint(-3, 3); o = "c%d" % y
            else:
                i = r.choice(live); y = self.live[i]; o = "v%d" % i
            v = self.live[k]
            nv = v + y if c == "cadd" else v - y if c == "csub" else v * y
            if abs(nv) > VAL_BOUND:
                return
            self.live[k] = nv
            self.emit("%s %d %s" % (c, k, o))
            if not self.paused and not (o[0] == "c" and c != "cmul"):
                self.last_lhs = k
        elif x < 0.40:
            k = r.choice(live)
            if r.random() < 0.4:
                # array form: n right-hand sides (repeats allowed, zero multipliers push nothing), multiplier stride 1..3,
                # through an Active, an ActiveReference or an ActiveConstReference
                n = r.choice([0, 1, 2, 2, 3, 4])
                terms = " ".join("%d %d" % (r.choice(live), r.randint(-3, 3)) for _ in range(n))
                self.emit(("adepv %s %d %d : %s" % (r.choice("arc"), k, r.choice([1, 1, 2, 3]), terms)).rstrip())
            else:
                i = r.choice(live); m = r.randint(-3, 3)
                self.emit("adep %d %d %d" % (k, i, m))
            if not self.paused:
                self.last_lhs = k
        elif x < 0.46 and self.last_lhs in self.live:
            if r.random() < 0.4:
                n = r.choice([0, 1, 2, 2, 3])
                terms = " ".join("%d %d" % (r.choice(live), r.randint(-3, 3)) for _ in range(n))
                self.emit(("apdepv %s %d %d : %s" % (r.choice("arc"), self.last_lhs, r.choice([1, 2, 2, 3]), terms)).rstrip())
            else:
                i = r.choice(live); m = r.randint(-3, 3)
                self.emit("apdep %d %d %d" % (self.last_lhs, i, m))
        elif x < 0.50:
            k = self.nxt; self.nxt += 1
            self.live[k] = 0
            self.emit("newd %d" % k)
        else:
            k = r.choice(live)
            toks, val = self.expr(r.choice([0, 1, 1, 2, 2]))
            self.live[k] = val
            self.emit("asg %d %s" % (k, " ".join(toks)))
            if not self.paused:
                self.last_lhs = k

    def program(self, nstmt):
        for _ in range(nstmt):
            if self.pausable and self.rng.random() < 0.08:
                self.paused = not self.paused
                if self.paused:
                    self.emit("pause"); self.emit("tape")
                else:
                    self.emit("tape"); self.emit("cont")
            self.statement()
        if self.paused:
            self.paused = False
            self.emit("tape"); self.emit("cont")


def pick_lists(rng, gen, n, m, distinct=False):
    live = list(gen.live)
    if distinct:
        n = min(n, len(live)); m = min(m, len(live))
        return rng.sample(live, n), rng.sample(live, m)
    return [rng.choice(live) for _ in range(n)], [rng.choice(live) for _ in range(m)]


def emit_lists(g, rng, indep, dep, rate=0.5):
    """declare the independent and the dependent variables: each list is cut into runs; a run of one goes through the scalar form
    (`indep k`), the others through the pointer-and-count form Stack::independent(const A* x, n) / dependent(const A* x, n)
    (`indepn k1 .. kn`, n >= 1); an empty call (n = 0) is inserted now and then"""
    for name, lst in (("indep", indep), ("dep", dep)):
        i = 0
        while i < len(lst):
            if rng.random() >= rate:
                g.emit("%s %d" % (name, lst[i])); i += 1
            else:
                n = rng.randint(1, len(lst) - i)
                g.emit("%sn %s" % (name, " ".join(map(str, lst[i:i + n])))); i += n
            if rng.random() < 0.06:
                g.emit("%sn" % name)


def emit_seeds(g, rng, seeds, rate=0.4):
    """seeds = [(handle, value)]: one set_gradient call each, or the free function set_gradients(Active* a, n, data) for a run"""
    i = 0
    while i < len(seeds):
        if rng.random() >= rate:
            g.emit("seed %d %d" % seeds[i]); i += 1
        else:
            n = rng.randint(1, len(seeds) - i)
            g.emit("setgn " + " ".join("%d %d" % hv for hv in seeds[i:i + n])); i += n


# ------------------------------------------------------------------ oracle helpers
def parse_tape(line):
    """'T nst nop | lhs:m*i,m*i | ...' -> list of (lhs, [(m, i)])"""
    assert line.startswith("T "), line
    parts = line.split(" | ")
    out = []
    for p in parts[1:]:
        p = p.strip()
        if not p:
            continue
        lhs, _, ops = p.partition(":")
        ol = []
        if ops:
            for o in ops.split(","):
                mm, _, ii = o.rpartition("*")
                ol.append((int(float(mm)), int(ii)))
        out.append((int(lhs), ol))
    return out


def tape_fwd(tape, g):
    g = dict(g)
    for lhs, ops in tape:
        a = 0
        for m, i in ops:
            a += m * g.get(i, 0)
        g[lhs] = a
    return g


def tape_rev(tape, g):
    g = dict(g)
    for lhs, ops in reversed(tape):
        a = g.get(lhs, 0)
        g[lhs] = 0
        for m, i in ops:
            g[i] = g.get(i, 0) + m * a
    return g


def tape_abs_bound(tape, seeds):
    """upper bound on any intermediate of a forward sweep with |.|: exactness guard"""
    g = {i: 1 for i in seeds}
    mx = 1
    for lhs, ops in tape:
        a = 0
        for m, i in ops:
            a += abs(m) * g.get(i, 0)
        g[lhs] = a
        mx = max(mx, a)
    return mx


def jac_from_tape(tape, indep_idx, dep_idx):
    J = [[0] * len(indep_idx) for _ in dep_idx]
    for j, x in enumerate(indep_idx):
        g = tape_fwd(tape, {x: 1})
        for i, y in enumerate(dep_idx):
            J[i][j] = g.get(y, 0)
    return J


def parse_J(line):
    m = re.match(r"(STRAY-WRITE )?J (\d+) (\d+) :(.*)$", line)
    if not m:
        return None
    r, c = int(m.group(2)), int(m.group(3))
    vals = [int(float(x)) for x in m.group(4).split()]
    if len(vals) != r * c:
        return None
    return [[vals[i * c + j] for j in range(c)] for i in range(r)], bool(m.group(1))


def parse_P(line):
    if not line.startswith("P"):
        return None
    return [int(float(x)) for x in line[1:].split()]


def run_pair(exe, text, env=None):
    impl, rc, err = vcheck.run_impl(exe, [], text, env=env)
    model = vcheck.run_model("tape", text)
    return impl, model, rc, err


# ------------------------------------------------------------------ independent derivative oracle (textbook forward mode)
UNDEF = "undefined"   # gradient of a default-constructed, never assigned active scalar (documented as undefined)


R_ALIAS = {"rasg": "asg", "rsetp": "setp", "rcadd": "cadd", "rcsub": "csub", "rcmul": "cmul"}


def _dadd(a, b, sb=1):
    if UNDEF in a or UNDEF in b:
        return {UNDEF: 1}
    g = dict(a)
    for k, v in b.items():
        g[k] = g.get(k, 0) + sb * v
    return g


def _dscale(a, c):
    if UNDEF in a:
        return {UNDEF: 1}
    return {k: c * v for k, v in a.items()}


def _deval(toks, pos, env):
    """evaluate a prefix expression over (value, gradient-dict) pairs; returns ((val, grad), next position)"""
    t = toks[pos]
    if t[0] == "v":
        return env[int(t[1:])], pos + 1
    if t[0] == "c":
        return (int(t[1:]), {}), pos + 1
    if t == "neg":
        (v, g), p = _deval(toks, pos + 1, env)
        return (-v, _dscale(g, -1)), p
    (v1, g1), p = _deval(toks, pos + 1, env)
    (v2, g2), p = _deval(toks, p, env)
    if t == "add":
        return (v1 + v2, _dadd(g1, g2)), p
    if t == "sub":
        return (v1 - v2, _dadd(g1, g2, -1)), p
    if t == "mul":
        return (v1 * v2, _dadd(_dscale(g1, v2), _dscale(g2, v1))), p
    raise ValueError(t)


def dual_eval(ops, impl_lines):
    """Textbook forward-mode evaluation of a driver program over exact integers, independent of Adept and of the
    Lean model.  Variables live at the last `nr` are the inputs.  Returns (env, inputs) with env[h] = (value, {input: d})
    or None if the program pauses recording (derivatives are then stale by design)."""
    env, inputs = {}, []
    before = {}     # gradient a variable had before the statement that last assigned it (an appended dependence on
                    # the variable itself refers to that, exactly as the linear statement d[k] = ... + m*d[k] does)
    for o, l in zip(ops, impl_lines):
        w = o.split()
        c = w[0]
        if c in R_ALIAS:      # ActiveReference targets mean what the same statements on an Active mean
            w = [R_ALIAS[c], w[1], ("v" + w[2]) if c == "rasg" else w[2]]
            c = w[0]
        records = (c in ("new", "newc", "setp", "asg", "cmul", "adep", "adepv")
                   or (c in ("cadd", "csub") and len(w) > 2 and w[2][0] == "v"))
        if records:
            k0 = int(w[2]) if c == "adepv" else int(w[1])
            # a dependence of a freshly constructed variable on itself refers to whatever its (possibly recycled)
            # slot held before: undefined, not judged
            before[k0] = env[k0][1] if k0 in env else {UNDEF: 1}
        if c in ("pause", "cont"):
            return None
        if c == "new":
            env[int(w[1])] = (int(w[2]), {})
        elif c == "newd":
            env[int(w[1])] = (0, {UNDEF: 1})
        elif c == "newc":
            env[int(w[1])] = env[int(w[2])]
        elif c == "del":
            env.pop(int(w[1]), None)
        elif c == "setp":
            env[int(w[1])] = (int(w[2]), {})
        elif c == "setvn":
            # set_values: the value changes, nothing is recorded: the derivative information is what it was
            for j in range(1, len(w) - 1, 2):
                env[int(w[j])] = (int(w[j + 1]), env[int(w[j])][1])
        elif c == "nr":
            inputs = sorted(h for h in env if UNDEF not in env[h][1])
            env = {h: (env[h][0], {h: 1} if UNDEF not in env[h][1] else env[h][1]) for h in env}
        elif c == "asg":
            env[int(w[1])] = _deval(w[2:], 0, env)[0]
        elif c in ("cadd", "csub", "cmul"):
            k = int(w[1]); v, g = env[k]
            if w[2][0] == "c":
                y = int(w[2][1:])
                env[k] = (v + y, g) if c == "cadd" else (v - y, g) if c == "csub" else (v * y, _dscale(g, y))
            else:
                v2, g2 = env[int(w[2][1:])]
                env[k] = ((v + v2, _dadd(g, g2)) if c == "cadd" else (v - v2, _dadd(g, g2, -1)) if c == "csub"
                          else (v * v2, _dadd(_dscale(g, v2), _dscale(g2, v))))
        elif c == "adep":
            k, i, m = int(w[1]), int(w[2]), int(w[3])
            env[k] = (env[k][0], _dscale(env[i][1], m))
        elif c in ("adepv", "apdepv"):
            # array forms: d[k] = sum m_j d[i_j]  /  d[k] += sum m_j d[i_j]
            if l == "ok":
                k = int(w[2])
                terms = [(int(w[j]), int(w[j + 1])) for j in range(5, len(w) - 1, 2)]
                acc = {} if c == "adepv" else env[k][1]
                for i, m in terms:
                    gi = before.get(k, {}) if i == k else env[i][1]
                    acc = _dadd(acc, _dscale(gi, m))
                env[k] = (env[k][0], acc)
        elif c == "apdep":
            if l == "ok":       # a failed append (wrong_gradient) changes nothing
                k, i, m = int(w[1]), int(w[2]), int(w[3])
                gi = before.get(k, {}) if i == k else env[i][1]
                env[k] = (env[k][0], _dadd(env[k][1], _dscale(gi, m)))
    return env, inputs


# ------------------------------------------------------------------ binary64 tapes (C02 / C13: order of operations, bit for bit)
# The driver prints every number as the 16 hex digits of its bit pattern after `hex 1` (any NaN as `nan`); the model family
# `tape` has the operations ftape/findep/fdep/fjac/fsweep (lean/Driver/TapeDrv.lean) which run the same generic definitions
# on Float.  The recording is taken from the implementation's own dump.
import struct as _struct

INF = float("inf")
NAN = float("nan")


def f2bits(x):
    return "nan" if x != x else "%016x" % _struct.unpack("<Q", _struct.pack("<d", x))[0]


def bits2f(s):
    return NAN if s == "nan" else _struct.unpack("<d", _struct.pack("<Q", int(s, 16)))[0]


def ftok(x):
    """a double as a token that atof() reads back exactly (C99 hex float)"""
    if x != x:
        return "nan"
    if x in (INF, -INF):
        return "inf" if x > 0 else "-inf"
    return x.hex()


def fval(rng, nonfinite=False):
    """multiplier / value palette: ordinary random doubles, decimals that are not dyadic, huge and tiny magnitudes
    (products overflow and underflow), denormals, signed zeros, +-1, small integers; optionally Inf / NaN"""
    x = rng.random()
    if nonfinite and x < 0.08:
        return rng.choice([INF, -INF, NAN])
    if x < 0.40:
        return rng.uniform(-2, 2)
    if x < 0.48:
        return float(rng.randint(-3, 3))
    if x < 0.58:
        return rng.choice([0.1, 0.2, 0.3, 1.0 / 3, 2.0 / 3, 0.7, 1.1, -0.1, -0.3, 1e-3, 1.7, -2.0 / 3])
    if x < 0.68:
        return rng.choice([-1, 1]) * 10 ** rng.uniform(-8, 8)
    if x < 0.74:
        return rng.choice([1e160, -1e160, 1e-170, -1e-170, 1.7976931348623157e308, 5e-324, -5e-324, 2.2250738585072014e-308])
    if x < 0.82:
        return rng.choice([0.0, -0.0])
    if x < 0.88:
        return rng.choice([1.0, -1.0])
    return rng.uniform(-1, 1) * 2.0 ** rng.randint(-30, 30)


class FGen:
    """random straight-line programs over NON-integer doubles.  No value tracking: the recording is read back from the
    implementation (`tape` after `hex 1`).  Statement forms: construction, copies, plain and compound assignment of
    expression trees (height <= 2, float constants), add/append_derivative_dependence in scalar and array form with
    0..12 operands (repeated operands, cancelling pairs m,-m on one index, the left-hand side among its own operands,
    zero multipliers), non-LIFO deletion; `fanin` adds a statement whose >= 3 operands all depend on the same variable
    (the sums whose rounding depends on the order of the additions)."""

    def __init__(self, rng, nonfinite=False):
        self.rng, self.nonfinite = rng, nonfinite
        self.live, self.nxt, self.ops, self.last_lhs = [], 0, [], None
        self.hot_src, self.hot_dst = [], []

    def emit(self, s):
        self.ops.append(s)

    def val(self, ordinary=False):
        return self.rng.uniform(-2, 2) if ordinary else fval(self.rng, self.nonfinite)

    def new(self, v=None):
        k = self.nxt; self.nxt += 1
        self.live.append(k)
        self.emit("new %d %s" % (k, ftok(self.val() if v is None else v)))
        self.last_lhs = k
        return k

    def _expr(self, depth):
        r = self.rng
        if depth == 0 or r.random() < 0.25:
            if r.random() < 0.75:
                return ["v%d" % r.choice(self.live)], True
            return ["c" + ftok(self.val())], False
        op = r.choice(["add", "sub", "mul", "mul", "add", "neg"])
        if op == "neg":
            t, a = self._expr(depth - 1)
            return (["neg"] + t, a) if a else (t, a)
        t1, a1 = self._expr(depth - 1)
        t2, a2 = self._expr(depth - 1)
        if not a1 and not a2:
            return t1, a1
        return [op] + t1 + t2, True

    def expr(self, depth):
        for _ in range(50):
            t, a = self._expr(depth)
            if a:
                return t
        return ["v%d" % self.rng.choice(self.live)]

    def terms(self, k, n):
        r = self.rng
        ts = [(r.choice(self.live), self.val()) for _ in range(n)]
        if n >= 2 and r.random() < 0.3:        # the same operand twice in one statement
            ts[r.randrange(n)] = (ts[r.randrange(n)][0], self.val())
        if n >= 2 and r.random() < 0.25:       # a cancelling pair on one index
            a, b = r.sample(range(n), 2)
            ts[b] = (ts[a][0], -ts[a][1])
        if n >= 1 and r.random() < 0.2:        # the left-hand side among its own operands
            ts[r.randrange(n)] = (k, self.val())
        return " ".join("%d %s" % (i, ftok(m)) for i, m in ts)

    def statement(self):
        r = self.rng
        live = self.live
        x = r.random()
        if x < 0.05 or len(live) < 2:
            self.new()
        elif x < 0.08 and len(live) > 3:
            k = r.choice(live[1:])
            live.remove(k)
            self.emit("del %d" % k)
        elif x < 0.11:
            k = self.nxt; self.nxt += 1
            self.emit("newc %d %d" % (k, r.choice(live)))
            live.append(k); self.last_lhs = k
        elif x < 0.14:
            k = r.choice(live)
            self.emit("setp %d %s" % (k, ftok(self.val()))); self.last_lhs = k
        elif x < 0.24:
            k = r.choice(live)
            c = r.choice(["cadd", "csub", "cmul"])
            if r.random() < 0.4:
                self.emit("%s %d c%s" % (c, k, ftok(self.val())))
                if c == "cmul":
                    self.last_lhs = k
            else:
                self.emit("%s %d v%d" % (c, k, r.choice(live))); self.last_lhs = k
        elif x < 0.48:
            k = r.choice(live)
            n = r.choice([0, 1, 2, 3, 3, 4, 5, 6, 7, 9, 12])
            self.emit(("adepv %s %d %d : %s" % (r.choice("arc"), k, r.choice([1, 1, 2, 3]), self.terms(k, n))).rstrip())
            self.last_lhs = k
        elif x < 0.55:
            k = r.choice(live)
            self.emit("adep %d %d %s" % (k, r.choice(live), ftok(self.val()))); self.last_lhs = k
        elif x < 0.66 and self.last_lhs in live:
            k = self.last_lhs
            if r.random() < 0.5:
                n = r.choice([0, 1, 2, 3, 5])
                self.emit(("apdepv %s %d %d : %s" % (r.choice("arc"), k, r.choice([1, 2, 2, 3]), self.terms(k, n))).rstrip())
            else:
                self.emit("apdep %d %d %s" % (k, r.choice(live), ftok(self.val())))
        else:
            k = r.choice(live)
            self.emit("asg %d %s" % (k, " ".join(self.expr(r.choice([0, 1, 1, 2, 2])))))
            self.last_lhs = k

    def fanin(self):
        """u_1..u_q (q >= 3) each a multiple of the same source(s), then y = sum c_j u_j; the source is used by q later
        statements (fan-out, the sums of the reverse sweep), y has q operands that are all active with respect to it"""
        r = self.rng
        srcs = [r.choice(self.live) for _ in range(r.choice([1, 1, 2]))]
        q = r.randint(3, 8)
        us = []
        for _ in range(q):
            u = self.new(0.0)
            self.emit("adepv a %d 1 : %s" % (u, " ".join("%d %s" % (s, ftok(self.val(ordinary=True))) for s in srcs)))
            us.append(u)
        y = r.choice(self.live) if r.random() < 0.5 else self.new(0.0)
        r.shuffle(us)
        self.emit("adepv a %d 1 : %s" % (y, " ".join("%d %s" % (u, ftok(self.val(ordinary=True))) for u in us)))
        self.last_lhs = y
        self.hot_src += srcs; self.hot_dst.append(y)

    def program(self, nstmt, nfan=1):
        at = sorted(self.rng.randint(0, nstmt) for _ in range(nfan))
        for i in range(nstmt + 1):
            while at and at[0] == i:
                at.pop(0); self.fanin()
            if i < nstmt:
                self.statement()

    def lists(self, n, m):
        """independent / dependent handle lists (repeats allowed): random live variables, with the sources / targets of the
        fan-in statements planted at random positions and, half of the time, at the LAST position (the short last block)"""
        r = self.rng
        indep = [r.choice(self.live) for _ in range(n)]
        dep = [r.choice(self.live) for _ in range(m)]
        for lst, hot in ((indep, [h for h in self.hot_src if h in self.live]), (dep, [h for h in self.hot_dst if h in self.live])):
            for h in hot:
                if r.random() < 0.8:
                    lst[r.randrange(len(lst))] = h
            if hot and r.random() < 0.5:
                lst[-1] = r.choice(hot)
        return indep, dep


def parse_ftape(line):
    """'T nst nop | lhs:BITS*idx,… | …' (hex mode) -> [(lhs, [(float, idx)])]"""
    assert line.startswith("T "), line
    out = []
    for p in line.split(" | ")[1:]:
        p = p.strip()
        if not p:
            continue
        lhs, _, ops = p.partition(":")
        out.append((int(lhs), [(bits2f(o.rpartition("*")[0]), int(o.rpartition("*")[2])) for o in ops.split(",")] if ops else []))
    return out


def handle_indices(ops, il):
    idx = {}
    for o, l in zip(ops, il):
        w = o.split()
        if w[0] in ("new", "newd", "newc") and l.startswith("ok "):
            idx[int(w[1])] = int(l.split()[1])
    return idx


def ftape_fwd(tape, g):
    """Stack::compute_tangent_linear / one lane of jacobian_forward_kernel(_extra): a = 0; a += m*g[i] in push order"""
    for lhs, ops in tape:
        a = 0.0
        for m, i in ops:
            a = a + m * g[i]
        g[lhs] = a
    return g


def ftape_rev(tape, g):
    """Stack::compute_adjoint: a = g[lhs]; g[lhs] = 0; if (a != 0.0) g[i] += m*a in push order"""
    for lhs, ops in reversed(tape):
        a = g[lhs]; g[lhs] = 0.0
        if a != 0.0:
            for m, i in ops:
                g[i] = g[i] + m * a
    return g


def fjac_oracle(tape, N, W, xi, yi, forward, dO, iO, ncells):
    """the Jacobian routines of jacobian.cpp in Python floats (IEEE binary64, the same operations in the same order),
    written from the C++ and independent of the Lean model: forward lane by lane; reverse block by block with the
    block-wide `n_non_zero` flag (a lane whose own a[i] is zero still executes += m*0 when another lane is non-zero)"""
    n, m = len(xi), len(yi)
    dO = n if dO <= 0 else dO
    iO = m if iO <= 0 else iO
    out = [-777.0] * ncells
    if forward:
        for j, x in enumerate(xi):
            g = [0.0] * N; g[x] = 1.0
            ftape_fwd(tape, g)
            for i, y in enumerate(yi):
                out[i * dO + j * iO] = g[y]
        return out
    for first in range(0, m, W):
        size = min(W, m - first)
        lanes = []
        for l in range(size):
            g = [0.0] * N; g[yi[first + l]] = 1.0
            lanes.append(g)
        for lhs, ops in reversed(tape):
            a = []
            for g in lanes:
                a.append(g[lhs]); g[lhs] = 0.0
            if any(v != 0.0 for v in a):
                for mm, i in ops:
                    for l, g in enumerate(lanes):
                        g[i] = g[i] + mm * a[l]
        for ii, x in enumerate(xi):
            for l in range(size):
                out[ii * iO + (first + l) * dO] = lanes[l][x]
    return out


def fbits_line(prefix, vals):
    return prefix + " " + " ".join(f2bits(v) for v in vals)


def tape_nonfinite(tape):
    return any(m != m or m in (INF, -INF) for _, ops in tape for m, _ in ops)


def mult_stats(tape, notes):
    """census of the multipliers of a dumped binary64 recording (evidence: what the generator really put on the tapes)"""
    d = notes.setdefault("f_multipliers", {})
    for lhs, ops in tape:
        seen = set()
        for m, i in ops:
            if m != m:
                k = "nan"
            elif m in (INF, -INF):
                k = "inf"
            elif m == 0.0:
                k = "-0.0" if f2bits(m)[0] == "8" else "+0.0"
            elif abs(m) < 2.2250738585072014e-308:
                k = "subnormal"
            elif m == int(m) and abs(m) < 1e15:
                k = "integer"
            else:
                k = "non-integer"
            d[k] = d.get(k, 0) + 1
            if i in seen:
                notes["f_statements_with_repeated_operand"] = notes.get("f_statements_with_repeated_operand", 0) + 1
            seen.add(i)
            if i == lhs:
                notes["f_operands_equal_to_lhs"] = notes.get("f_operands_equal_to_lhs", 0) + 1
