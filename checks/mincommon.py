"""Shared generator / runner / oracles for the minimizer family (driver harness/drv_minimizer.cpp, model family
`minimizer`).  Used by C18 (box, honest report) and C19 (convergence on convex quadratics).

Nothing here uses the Lean model: the oracles judge the implementation's own output against the property's
sentences (box inequalities on the doubles received by the callbacks, a fresh evaluation of the user's cost at the
returned state, an exact active-set enumeration in rational arithmetic for the KKT point)."""
import math, os, itertools
from fractions import Fraction
import vbuild, vcheck

DRV = os.path.join(vbuild.VERIF, "harness", "drv_minimizer.cpp")
ALGOS = ["L-BFGS", "Conjugate-Gradient", "Conjugate-Gradient-FR", "Levenberg", "Levenberg-Marquardt"]
FIRST_ORDER = ALGOS[:3]
SECOND_ORDER = ALGOS[3:]
RMAX = 1.7976931348623157e308
ST = {0: "converged", 1: "empty-state", 2: "max-iterations", 3: "failed-to-converge", 4: "direction-uphill",
      5: "bound-reached", 6: "non-finite-cost", 7: "non-finite-gradient", 8: "invalid-bounds", 10: "not-yet-converged"}
DOCUMENTED_FINAL = {0, 2, 3, 4, 6, 7, 8}
# Float-regime reading of "on a face" / "rounding at a face".  A bound step computes
#   x_new = fl(x + fl(fl(a*s)*d)),  a = fl(fl(nd*fl(b-x))/d),  s = fl(1/nd):
# six roundings on the step (relative 2^-53 each) and one on the sum, so |x_new - b| <= 6e|b-x| + e|b| <= 13 e M with
# e = 2^-53 and M the largest magnitude involved; since ulp(M) > e*M the distance is below 13 ulp(M).  Anything
# farther from the face than that is NOT attributed to rounding.
ULPS = 13
OVERFLOW_REGIME = 1e100   # beyond this |x_i| the exact-arithmetic reading of the property is void (IEEE overflow to inf/NaN)


def build(hook=True):
    defs = ["HAVE_BLAS=1", "HAVE_LAPACK=1"]
    if hook and has_h4():
        defs.append("ADEPT_VERIF_HAVE_H4=1")
    return vbuild.build("minimizer", DRV, defines=defs, link=["-llapack", "-lblas"])


def has_h4():
    """the decision-logging hook H4 is present in the working tree (guarded, add-only)"""
    try:
        return "verif_minimizer_hook" in open(os.path.join(vbuild.REPO, "include", "adept", "Minimizer.h")).read()
    except OSError:
        return False


# ------------------------------------------------------------------ case <-> text
def fh(v):
    if v >= RMAX:
        return "max"
    if v <= -RMAX:
        return "-max"
    if v != v:
        return "nan"
    return float(v).hex()


def vec(vs):
    return ",".join(fh(v) for v in vs)


def case_line(c, extra=""):
    t = ["run", "algo=" + c["algo"], "bounded=%d" % (1 if c["bounded"] else 0), "n=%d" % c["n"], "f=" + c["f"]]
    for k in ("h", "c", "H", "a", "g"):
        if k in c:
            t.append("%s=%s" % (k, vec(c[k])))
    t.append("x0=" + vec(c["x0"]))
    if c["bounded"]:
        t += ["lo=" + vec(c["lo"]), "up=" + vec(c["up"])]
    if c.get("bad", "none") != "none":
        t += ["bad=" + c["bad"], "rlo=" + vec(c["rlo"]), "rup=" + vec(c["rup"])]
    for k in ("mss", "tol"):
        if k in c:
            t.append("%s=%s" % (k, fh(c[k])))
    for k in ("maxit", "eus", "mls", "maxcb", "alarm", "log", "trace"):
        if k in c:
            t.append("%s=%d" % (k, c[k]))
    return " ".join(t) + extra


def pf(t):
    if t in ("nan", "-nan"):
        return float("nan")
    if t in ("inf", "-inf"):
        return float(t)
    return float.fromhex(t)


def parse_result(line):
    if not line.startswith("R "):
        return None
    d = {}
    for t in line.split()[1:]:
        k, _, v = t.partition("=")
        d[k] = v
    r = {"raw": d, "status": d.get("status")}
    try:
        for k in ("cost", "gnorm", "start", "fresh", "viol", "violx", "violscale", "pviol"):
            if k in d:
                r[k] = pf(d[k])
        for k in ("nit", "nsamp", "ncb", "violcb", "violi", "nfc", "nfg", "lastx_is_ret", "mstatus"):
            if k in d:
                r[k] = int(d[k])
        for k in ("x", "g", "first", "absmax"):
            if k in d:
                r[k] = [] if d[k] == "-" else [pf(t) for t in d[k].split(",")]
        r["violkind"] = d.get("violkind", "-")
        r["lastcb"] = d.get("lastcb", "-")
        r["log"] = d["log"].split(";") if "log" in d else []
        r["trace"] = d["trace"].split(";") if d.get("trace", "-") != "-" else []
        if r["status"] not in ("NO-TERMINATION", "EXC"):
            r["status"] = int(r["status"])
    except (ValueError, KeyError):
        return None
    return r


def run_cases(exe, cases, per_case_alarm=20, chunk=150):
    """-> list of (result dict | None, error text).  A wall-clock watchdog hit ends the driver process; the
    remaining cases of the chunk are re-run in a fresh process."""
    out = [None] * len(cases)
    todo = list(range(len(cases)))
    while todo:
        part, todo = todo[:chunk], todo[chunk:]
        text = "".join(case_line(dict(cases[i], alarm=per_case_alarm)) + "\n" for i in part)
        lines, rc, err = vcheck.run_impl(exe, [], text, timeout=per_case_alarm * len(part) + 60,
                                         env={"ASAN_OPTIONS": "detect_leaks=1:abort_on_error=0:halt_on_error=1:allocator_may_return_null=1"})
        lines = [l for l in lines if l.startswith("R ") or l == "bad-op"]
        for j, i in enumerate(part):
            if j < len(lines):
                out[i] = (parse_result(lines[j]) if lines[j] != "bad-op" else None, lines[j] if lines[j] == "bad-op" else "")
            else:
                break
        if len(lines) < len(part):
            # process ended early: alarm (its line was printed) or crash (sanitizer report in err)
            k = len(lines)
            if lines and lines[-1].startswith("R status=NO-TERMINATION alarm=1"):
                todo = part[k:] + todo
            else:
                out[part[k]] = (None, "driver stopped: rc=%s %s" % (rc, err[-1500:]))
                todo = part[k + 1:] + todo
    return out


# ------------------------------------------------------------------ float helpers
def ulp(x):
    return math.ulp(abs(x)) if x == x and abs(x) < RMAX else 0.0


def finite_bound(v):
    return abs(v) < RMAX


def same(a, b):
    return a == b or (a != a and b != b)


# ------------------------------------------------------------------ C18 oracle
def bounds_valid(c):
    if not c["bounded"]:
        return True
    if len(c["lo"]) != c["n"] or len(c["up"]) != c["n"]:
        return False
    return all(l < u for l, u in zip(c["lo"], c["up"]))


def py_value(c, x):
    """the user's cost in Python doubles, same operation order as the driver (only used for the start point class)"""
    n = c["n"]
    if c.get("bad", "none") in ("inf", "nan"):
        for i in range(n):
            if not (x[i] >= c["rlo"][i]) or not (x[i] <= c["rup"][i]):
                return float("inf") if c["bad"] == "inf" else float("nan")
    return 0.0


def in_region(c, x):
    if c.get("bad", "none") == "none":
        return True
    return all((x[i] >= c["rlo"][i]) and (x[i] <= c["rup"][i]) for i in range(c["n"]))


def project(c, x):
    if not c["bounded"]:
        return list(x)
    return [max(l, min(v, u)) for v, l, u in zip(x, c["lo"], c["up"])]


def free_gradient_norm(c, x, g, absmax=None):
    """norm of the gradient over the components NOT pinned to a bound by the gradient's sign.  A component counts as
    lying on a face when it is within ULPS ulp (of the largest of |bound|, |x_i| and the largest |x_i| any callback saw,
    which bounds the length of the step that brought it there) of it: the float-regime reading of 'on the face'
    (the minimizer flags a variable that a step has brought to fl(x + (a*s)*d))."""
    s = 0.0
    pinned = []
    for i in range(c["n"]):
        gi = g[i]
        pin = False
        if c["bounded"]:
            lo, up = c["lo"][i], c["up"][i]
            am = absmax[i] if absmax and i < len(absmax) else 0.0
            tol_lo = ULPS * ulp(max(abs(lo), abs(x[i]), am)) if finite_bound(lo) else 0.0
            tol_up = ULPS * ulp(max(abs(up), abs(x[i]), am)) if finite_bound(up) else 0.0
            if finite_bound(lo) and x[i] <= lo + tol_lo and gi >= 0:
                pin = True
            if finite_bound(up) and x[i] >= up - tol_up and gi <= 0:
                pin = True
        if pin:
            pinned.append(i)
        else:
            s += gi * gi
    return math.sqrt(s), pinned


def on_face(c, r, i):
    """-1 / +1 if component i of the returned state lies (float regime) on its lower / upper face, else 0"""
    if not c["bounded"]:
        return 0
    x = r["x"][i]
    am = r["absmax"][i] if r.get("absmax") and i < len(r["absmax"]) else 0.0
    lo, up = c["lo"][i], c["up"][i]
    if finite_bound(lo) and x <= lo + ULPS * ulp(max(abs(lo), abs(x), am)):
        return -1
    if finite_bound(up) and x >= up - ULPS * ulp(max(abs(up), abs(x), am)):
        return 1
    return 0


def held_inward(c, r, tol):
    """finding F-65's predicate: some component lies on a face although its gradient points into the box, and the
    gradient over the components that are NOT on a face is within the threshold (i.e. the whole excess is due to
    variables the Levenberg minimizer kept pinned)"""
    n = c["n"]
    faces = [on_face(c, r, i) for i in range(n)]
    inward = [i for i in range(n) if (faces[i] == -1 and r["g"][i] < 0) or (faces[i] == 1 and r["g"][i] > 0)]
    rest = math.sqrt(sum(r["g"][i] ** 2 for i in range(n) if faces[i] == 0))
    return bool(inward) and rest <= tol * (1 + 1e-12) + 1e-300


def oracle_c18(c, r, err=""):
    """-> list of (signature, message); empty = the property holds on this case"""
    bad = []
    if r is None:
        return [("harness", "no result line: " + err[-600:])]
    st = r["status"]
    n = c["n"]
    if st == "NO-TERMINATION":
        return [("no-termination", "the call did not return within %s callbacks / the wall-clock limit" % c.get("maxcb", 200000))]
    valid = bounds_valid(c)
    if r.get("absmax") and max([0.0] + [v for v in r["absmax"] if v == v]) > OVERFLOW_REGIME:
        return [("skip-overflow-regime", "an iterate exceeded %g in magnitude (problem unbounded below along an unbounded direction)" % OVERFLOW_REGIME)]
    if st == "EXC":
        # a thrown exception is not one of the documented statuses; only a singular/indefinite Hessian handed to
        # solve() by the user's own problem is accepted (counted, not judged)
        what = r["raw"].get("what", "")
        if c["algo"] in SECOND_ORDER and any(k in what.lower() for k in ("ill", "singular", "factoriz", "failed_to_solve")):
            return [("skip-exception", what)]
        return [("exception", "the call threw: " + what)]
    if st not in DOCUMENTED_FINAL:
        bad.append(("undocumented-status", "returned status %s (%s) is not a documented final status" % (st, ST.get(st, "?"))))
    # --- invalid bounds <-> documented status
    if c["bounded"] and not valid:
        if st != 8:
            bad.append(("invalid-bounds-not-reported", "bounds are invalid (lower >= upper somewhere, or wrong length) but status is %s" % ST.get(st, st)))
        if r["ncb"] != 0:
            bad.append(("invalid-bounds-callbacks", "callbacks were made although the bounds are invalid"))
        if any(not same(a, b) for a, b in zip(r["x"], c["x0"])):
            bad.append(("invalid-bounds-state-changed", "state vector modified although the bounds are invalid"))
        return bad
    if st == 8:
        bad.append(("valid-bounds-rejected", "valid bounds reported as invalid"))
        return bad
    # --- box at every callback (exact comparison of the doubles, done in the driver) and on return
    viol = r["viol"]
    where = "callback #%d (%s), component %d = %r" % (r["violcb"], r["violkind"], r["violi"], r.get("violx"))
    retv, reti = 0.0, -1
    if c["bounded"]:
        for i in range(n):
            xi = r["x"][i]
            v = float("inf") if xi != xi else max(c["lo"][i] - xi, xi - c["up"][i], 0.0)
            if v > retv:
                retv, reti = v, i
    elif any(v != v for v in r["x"]):
        retv, reti = float("inf"), 0
    if viol > 0 or retv > 0:
        scale = 0.0
        if viol >= retv:
            i = r["violi"]
            scale = max(r.get("violscale", 0.0), abs(c["lo"][i]) if c["bounded"] and finite_bound(c["lo"][i]) else 0.0,
                        abs(c["up"][i]) if c["bounded"] and finite_bound(c["up"][i]) else 0.0)
        else:
            i = reti
            where = "returned state, component %d = %r" % (i, r["x"][i])
            scale = max(abs(r["x"][i]), abs(c["lo"][i]) if finite_bound(c["lo"][i]) else 0.0, abs(c["up"][i]) if finite_bound(c["up"][i]) else 0.0)
        v = max(viol, retv)
        if c["bounded"] and v <= ULPS * ulp(scale) and c["algo"] in FIRST_ORDER and r.get("violcb", 0) != 0:
            bad.append(("rounding-overshoot-at-face<=13ulp", "box left by %.3g (<= %d ulp of %.3g) at %s: rounding of x + (a*s)*d at a face reached by a line-search step"
                        % (v, ULPS, scale, where)))
        elif c["algo"] == "L-BFGS" and ((viol >= retv and r.get("violx") != r.get("violx")) or
                                        (viol < retv and r["x"][reti] != r["x"][reti])):
            # F-64: zero curvature along the last step (cost linear along it): y = 0, rho = 1/max(s.y, 10*DBL_MIN) = 4.5e306
            # blows the two-loop direction up, norm2(direction) = inf, trial state x + (inf*0)*d = NaN.  (A non-finite
            # value returned by the user ends an L-BFGS run at once, so a NaN STATE can only come from the recursion.)
            bad.append(("lbfgs-zero-curvature-nan-state", "a NaN state was handed to the user at %s (L-BFGS, zero curvature along "
                        "the last step: rho = 1/(10*DBL_MIN))" % where))
        else:
            bad.append(("box-violation", "state outside the box by %.6g at %s" % (v, where)))
    # --- start handling: the first state handed to the user is the projected start
    if r["ncb"] > 0 and r["first"] and any(not same(a, b) for a, b in zip(r["first"], project(c, c["x0"]))):
        bad.append(("start-not-projected", "first callback state %r is not the start projected onto the box %r" % (r["first"], project(c, c["x0"]))))
    # --- non-finite cost / gradient <-> documented status
    start_in = in_region(c, project(c, c["x0"]))
    kind = c.get("bad", "none")
    if not start_in and kind in ("inf", "nan") and st != 6:
        bad.append(("nonfinite-start-cost-not-reported", "cost is non-finite at the (projected) start but status is %s" % ST.get(st, st)))
    if not start_in and kind in ("ginf", "gnan") and st != 7:
        bad.append(("nonfinite-start-gradient-not-reported", "gradient is non-finite at the (projected) start but status is %s" % ST.get(st, st)))
    if st == 6 and r["nfc"] == 0:
        bad.append(("nonfinite-cost-status-unfounded", "status 'non-finite cost' but every callback returned a finite cost"))
    if st == 7 and r["nfg"] == 0:
        bad.append(("nonfinite-gradient-status-unfounded", "status 'non-finite gradient' but every callback returned a finite gradient"))
    if st not in (6, 7) and not math.isfinite(r["cost"]):
        bad.append(("nonfinite-cost-reported-silently", "cost_function() = %r with status %s" % (r["cost"], ST.get(st, st))))
    # --- reported cost is the user's cost at the returned state
    if not same(r["cost"], r["fresh"]):
        bad.append(("reported-cost-stale", "cost_function() = %r but the user's cost at the returned state is %r (status %s)" % (r["cost"], r["fresh"], ST.get(st, st))))
    # --- never worse than the start
    if math.isfinite(r["start"]) and math.isfinite(r["fresh"]) and r["fresh"] > r["start"]:
        bad.append(("cost-increased", "cost at the returned state %r exceeds the starting cost %r" % (r["fresh"], r["start"])))
    if math.isfinite(r["start"]) and r["cost"] == r["cost"] and r["cost"] > r["start"]:
        bad.append(("cost-increased", "reported cost %r exceeds the starting cost %r" % (r["cost"], r["start"])))
    # --- meaning of 'converged'
    if st == 0:
        gn, pinned = free_gradient_norm(c, r["x"], r["g"], r.get("absmax"))
        tol = c.get("tol", 0.1)
        if not (gn <= tol * (1 + 1e-12) + 1e-300):
            sig = "converged-but-free-gradient-large"
            if c["algo"] in SECOND_ORDER and held_inward(c, r, tol):
                sig = "lm-converged-with-inward-gradient-at-bound"     # F-65
            bad.append((sig, "status converged, but the gradient norm over the components not pinned by the "
                        "gradient's sign is %r > threshold %r (pinned: %s)" % (gn, tol, pinned)))
    # --- iteration budget
    if "maxit" in c and r["nit"] > c["maxit"]:
        bad.append(("iterations-exceed-maximum", "n_iterations() = %d > max_iterations = %d" % (r["nit"], c["maxit"])))
    return bad


# ------------------------------------------------------------------ generators (C18)
def dy(rng, lo, hi, q=8):
    """dyadic rational k/q in [lo,hi]"""
    return rng.randint(int(lo * q), int(hi * q)) / q


def gen_box(rng, n, exact):
    lo, up = [], []
    for i in range(n):
        r = rng.random()
        l = dy(rng, -4, 3) if exact else rng.uniform(-4, 3)
        w = dy(rng, 0.125, 4) if exact else rng.uniform(0.05, 4)
        if w <= 0:
            w = 0.5
        u = l + w
        if r < 0.12:
            l = -RMAX
        elif r < 0.24:
            u = RMAX
        elif r < 0.28:
            l, u = -RMAX, RMAX
        lo.append(l); up.append(u)
    return lo, up


def gen_start(rng, n, lo, up, exact):
    x0 = []
    mode = rng.choice(["inside", "inside", "outside", "faces", "corner", "mixed"])
    for i in range(n):
        l = lo[i] if finite_bound(lo[i]) else -4.0
        u = up[i] if finite_bound(up[i]) else 4.0
        m = mode if mode != "mixed" else rng.choice(["inside", "outside", "faces"])
        if m == "inside":
            t = dy(rng, 0.125, 0.875) if exact else rng.uniform(0.02, 0.98)
            v = l + t * (u - l)
        elif m == "outside":
            v = (l - (dy(rng, 0.125, 3) if exact else rng.uniform(0.01, 3))) if rng.random() < 0.5 else (u + (dy(rng, 0.125, 3) if exact else rng.uniform(0.01, 3)))
        elif m == "faces":
            v = rng.choice([l, u, l + 0.5 * (u - l)])
        else:
            v = rng.choice([l, u])
        x0.append(v)
    return x0


def gen_function(rng, n, exact, algo):
    """-> dict of function fields"""
    fams = ["quadd", "quadd", "quadm", "rosen", "quartic", "lin"]
    if algo in SECOND_ORDER:
        fams = ["quadd", "quadd", "quadm", "rosen", "quartic"]
    f = rng.choice(fams)
    num = (lambda a, b: dy(rng, a, b)) if exact else (lambda a, b: rng.uniform(a, b))
    d = {"f": f}
    if f == "quadd":
        nonconvex = rng.random() < 0.25
        d["h"] = [(num(0.25, 6) or 1.0) * (-1 if nonconvex and rng.random() < 0.5 else 1) for _ in range(n)]
        d["c"] = [num(-5, 5) for _ in range(n)]
    elif f == "quadm":
        # symmetric: B^T B + shift (SPD) or B + B^T (indefinite)
        B = [[num(-1, 1) for _ in range(n)] for _ in range(n)]
        if rng.random() < 0.7:
            H = [[sum(B[k][i] * B[k][j] for k in range(n)) + (0.5 if i == j else 0.0) for j in range(n)] for i in range(n)]
        else:
            H = [[B[i][j] + B[j][i] + (0.25 if i == j else 0.0) for j in range(n)] for i in range(n)]
        d["H"] = [H[i][j] for i in range(n) for j in range(n)]
        d["c"] = [num(-5, 5) for _ in range(n)]
    elif f == "quartic":
        d["a"] = [num(0.125, 2) or 0.5 for _ in range(n)]
        d["h"] = [num(-4, 4) for _ in range(n)]
        d["c"] = [num(-3, 3) for _ in range(n)]
    elif f == "lin":
        d["g"] = [rng.choice([-1.0, -1.0, 1.0, num(-2, 2) or 1.0]) for _ in range(n)]
    return d


def gen_tie(rng, algo):
    """exact ties: identical components, so several faces are reached by the same step with identical operands
    (the tie-breaking of the nearest-bound loop / of minloc is then deterministic in binary64 as well)"""
    n = rng.choice([2, 2, 3, 4])
    l = dy(rng, -2, 1); w = dy(rng, 0.5, 3) or 1.0
    t = rng.choice([0.25, 0.5, 0.75])
    c = {"algo": algo, "n": n, "bounded": True, "exact": True, "cls": "tie",
         "lo": [l] * n, "up": [l + w] * n, "x0": [l + t * w] * n}
    side = rng.choice([-1.0, 1.0])
    if algo in FIRST_ORDER and rng.random() < 0.5:
        c["f"] = "lin"; c["g"] = [-side] * n
    else:
        c["f"] = "quadd"; c["h"] = [rng.choice([0.5, 1.0, 2.0])] * n
        c["c"] = [l + (w + dy(rng, 0.5, 4) if side > 0 else -dy(rng, 0.5, 4))] * n
    c["maxit"] = 50; c["tol"] = 1e-6; c["eus"] = rng.choice([-1, 0, 1, 2]); c["maxcb"] = 60000
    return c


def gen_c18(rng, algo=None, force=None):
    algo = algo or rng.choice(ALGOS)
    if rng.random() < 0.06:
        return gen_tie(rng, algo)
    exact = rng.random() < 0.35
    n = rng.choice([1, 1, 2, 2, 3, 3, 4, 5, 6, 8, 12])
    bounded = rng.random() < 0.75
    c = {"algo": algo, "n": n, "bounded": bounded, "exact": exact}
    c.update(gen_function(rng, n, exact, algo))
    if c["f"] == "rosen" and n == 1:
        pass
    lo, up = gen_box(rng, n, exact)
    if bounded:
        c["lo"], c["up"] = lo, up
        c["x0"] = gen_start(rng, n, lo, up, exact)
        r = rng.random()
        if r < 0.06:      # invalid bounds: equal, reversed, wrong length
            i = rng.randrange(n)
            k = rng.random()
            if k < 0.4:
                c["up"][i] = c["lo"][i] = 0.5
            elif k < 0.8:
                c["lo"][i], c["up"][i] = 1.0, -1.0
            elif n > 1:
                c["up"] = c["up"][:-1]
            else:
                c["lo"][i], c["up"][i] = 2.0, 2.0
    else:
        c["x0"] = gen_start(rng, n, [-3.0] * n, [3.0] * n, exact)
    # non-finite regions
    r = rng.random()
    if r < 0.3 and bounds_valid(c):
        c["bad"] = rng.choice(["inf", "inf", "nan", "ginf", "gnan"])
        k = rng.random()
        if bounded and k < 0.5:
            # exactly the box: any excursion is punished
            c["rlo"], c["rup"] = list(c["lo"]), list(c["up"])
        elif bounded and k < 0.7:
            c["rlo"] = [l - 0.5 if finite_bound(l) else l for l in c["lo"]]
            c["rup"] = [u + 0.5 if finite_bound(u) else u for u in c["up"]]
        else:
            # a half-space / slab cutting through the domain
            c["rlo"] = [-RMAX] * n
            c["rup"] = [RMAX] * n
            i = rng.randrange(n)
            base = c["x0"][i]
            if rng.random() < 0.5:
                c["rup"][i] = base + rng.choice([-0.25, 0.25, 0.5, 1.0, 2.0])
            else:
                c["rlo"][i] = base - rng.choice([-0.25, 0.25, 0.5, 1.0, 2.0])
    # settings
    if rng.random() < 0.45:
        c["mss"] = rng.choice([0.125, 0.5, 1.0, 4.0])
    c["maxit"] = rng.choice([1, 2, 3, 5, 10, 30, 100, 100, 300])
    c["tol"] = rng.choice([0.1, 1e-2, 1e-4, 1e-6, 1e-9])
    c["eus"] = rng.choice([-1, -1, 0, 1, 2])
    if rng.random() < 0.3:
        c["mls"] = rng.choice([1, 2, 3, 5, 20])
    c["maxcb"] = 60000
    return c


# ------------------------------------------------------------------ C19: SPD quadratics and the exact KKT oracle
def householder_basis(rng, n):
    """random orthogonal matrix as a product of n Householder reflections (pure Python doubles)"""
    Q = [[1.0 if i == j else 0.0 for j in range(n)] for i in range(n)]
    for _ in range(n):
        v = [rng.gauss(0, 1) for _ in range(n)]
        nv = math.sqrt(sum(t * t for t in v)) or 1.0
        v = [t / nv for t in v]
        # Q <- Q (I - 2 v v^T)
        for i in range(n):
            s = sum(Q[i][k] * v[k] for k in range(n))
            for j in range(n):
                Q[i][j] -= 2.0 * s * v[j]
    return Q


def spd_matrix(rng, n, cond):
    """symmetric matrix with prescribed spectrum in [1/sqrt(cond)*s, sqrt(cond)*s]; returns (H as doubles, exactly symmetric)"""
    lmin = 1.0
    if n == 1:
        lam = [rng.uniform(0.5, 2.0)]
    else:
        lam = [lmin, lmin * cond] + [lmin * cond ** rng.random() for _ in range(n - 2)]
    s = rng.choice([0.25, 1.0, 1.0, 4.0])
    lam = [l * s for l in lam]
    Q = householder_basis(rng, n)
    H = [[sum(Q[i][k] * lam[k] * Q[j][k] for k in range(n)) for j in range(n)] for i in range(n)]
    for i in range(n):
        for j in range(i):
            H[i][j] = H[j][i] = 0.5 * (H[i][j] + H[j][i])
    return H, min(lam), max(lam)


def frac_solve(A, b):
    """Gaussian elimination over Fractions; returns None if singular"""
    n = len(A)
    M = [list(row) + [bv] for row, bv in zip(A, b)]
    for col in range(n):
        piv = None
        for r in range(col, n):
            if M[r][col] != 0:
                piv = r; break
        if piv is None:
            return None
        M[col], M[piv] = M[piv], M[col]
        pv = M[col][col]
        M[col] = [v / pv for v in M[col]]
        for r in range(n):
            if r != col and M[r][col] != 0:
                f = M[r][col]
                M[r] = [a - f * b2 for a, b2 in zip(M[r], M[col])]
    return [M[i][n] for i in range(n)]


def float_solve(A, b):
    """Gaussian elimination with partial pivoting in doubles; None if (numerically) singular"""
    n = len(A)
    M = [list(map(float, row)) + [float(bv)] for row, bv in zip(A, b)]
    for col in range(n):
        piv = max(range(col, n), key=lambda r: abs(M[r][col]))
        if M[piv][col] == 0.0:
            return None
        M[col], M[piv] = M[piv], M[col]
        for r in range(col + 1, n):
            f = M[r][col] / M[col][col]
            if f != 0.0:
                for k in range(col, n + 1):
                    M[r][k] -= f * M[col][k]
    x = [0.0] * n
    for i in range(n - 1, -1, -1):
        x[i] = (M[i][n] - sum(M[i][k] * x[k] for k in range(i + 1, n))) / M[i][i]
    return x


def active_set_guess(H, cvec, lo, up):
    """textbook primal active-set method (Nocedal & Wright alg. 16.3) in doubles -> working set {i: -1|+1};
    only a GUESS: the result is certified exactly by kkt_certify, so nothing rests on this routine"""
    n = len(cvec)
    x = [max(lo[i], min(cvec[i], up[i])) for i in range(n)]
    W = {}
    for i in range(n):
        if finite_bound(lo[i]) and x[i] <= lo[i]:
            W[i] = -1
        elif finite_bound(up[i]) and x[i] >= up[i]:
            W[i] = 1
    for _ in range(20 * n + 50):
        g = [sum(H[i][j] * (x[j] - cvec[j]) for j in range(n)) for i in range(n)]
        F = [i for i in range(n) if i not in W]
        p = [0.0] * n
        if F:
            y = float_solve([[H[i][j] for j in F] for i in F], [-g[i] for i in F])
            if y is None:
                return None
            for k, i in enumerate(F):
                p[i] = y[k]
        scale = max([1.0] + [abs(v) for v in x])
        if all(abs(v) <= 1e-13 * scale for v in p):
            worst, wi = 0.0, None
            for i, t in W.items():
                viol = -g[i] if t == -1 else g[i]     # lower needs g >= 0, upper needs g <= 0
                if viol > worst:
                    worst, wi = viol, i
            if wi is None or worst <= 1e-12 * max(1.0, max(abs(v) for v in g)):
                return W
            del W[wi]
            continue
        alpha, blk, side = 1.0, None, 0
        for i in F:
            if p[i] < 0 and finite_bound(lo[i]):
                a = (lo[i] - x[i]) / p[i]
                if a < alpha:
                    alpha, blk, side = a, i, -1
            elif p[i] > 0 and finite_bound(up[i]):
                a = (up[i] - x[i]) / p[i]
                if a < alpha:
                    alpha, blk, side = a, i, 1
        alpha = max(alpha, 0.0)
        x = [x[i] + alpha * p[i] for i in range(n)]
        if blk is not None:
            x[blk] = lo[blk] if side == -1 else up[blk]
            W[blk] = side
    return W


def kkt_certify(H, cvec, lo, up, W):
    """exact (rational) solve on the free set for the working set W and exact test of the first-order conditions
    on the doubles handed to the implementation -> x* as Fractions, or None if W is not the active set"""
    n = len(cvec)
    Hf = [[Fraction(v) for v in row] for row in H]
    cf = [Fraction(v) for v in cvec]
    x = [None] * n
    for i, t in W.items():
        x[i] = Fraction(lo[i]) if t == -1 else Fraction(up[i])
    F = [i for i in range(n) if i not in W]
    if F:
        A = [[Hf[i][j] for j in F] for i in F]
        rhs = [-sum(Hf[i][j] * (x[j] - cf[j]) for j in W) for i in F]
        y = frac_solve(A, rhs)
        if y is None:
            return None
        for k, i in enumerate(F):
            x[i] = y[k] + cf[i]
    for i in F:
        if (finite_bound(lo[i]) and x[i] < Fraction(lo[i])) or (finite_bound(up[i]) and x[i] > Fraction(up[i])):
            return None
    for i, t in W.items():
        gi = sum(Hf[i][j] * (x[j] - cf[j]) for j in range(n))
        if (t == -1 and gi < 0) or (t == 1 and gi > 0):
            return None
    return x


def kkt_point(H, cvec, lo, up, enumerate_below=7):
    """THE point satisfying the first-order conditions of  min 1/2 (x-c)^T H (x-c)  s.t. lo <= x <= up  (unique for
    SPD H: theorem C19_kkt_unique).  Exact: a working set is guessed by a floating-point active-set method and then
    CERTIFIED in rational arithmetic (exact solve on the free set, exact sign tests); for n < enumerate_below, or if
    the guess does not certify, all 3^n working sets are enumerated (float screening, exact certification).
    -> list of certified KKT points (length 1 unless the matrix is not SPD)"""
    n = len(cvec)
    sols = []

    def add(x):
        if x is not None and not any(all(a == b for a, b in zip(x, s)) for s in sols):
            sols.append(x)

    W = active_set_guess(H, cvec, lo, up)
    if W is not None:
        add(kkt_certify(H, cvec, lo, up, W))
    if n < enumerate_below or not sols:
        choices = []
        for i in range(n):
            ch = [0]
            if finite_bound(lo[i]):
                ch.append(-1)
            if finite_bound(up[i]):
                ch.append(1)
            choices.append(ch)
        for act in itertools.product(*choices):
            Wd = {i: t for i, t in enumerate(act) if t != 0}
            # float screening of the working set, exact certification of the survivors
            F = [i for i in range(n) if i not in Wd]
            xf = [0.0] * n
            for i, t in Wd.items():
                xf[i] = lo[i] if t == -1 else up[i]
            if F:
                y = float_solve([[H[i][j] for j in F] for i in F], [-sum(H[i][j] * (xf[j] - cvec[j]) for j in Wd) for i in F])
                if y is None:
                    continue
                for k, i in enumerate(F):
                    xf[i] = y[k] + cvec[i]
            sc = max([1.0] + [abs(v) for v in xf])
            if any((finite_bound(lo[i]) and xf[i] < lo[i] - 1e-9 * sc) or (finite_bound(up[i]) and xf[i] > up[i] + 1e-9 * sc) for i in F):
                continue
            gf = [sum(H[i][j] * (xf[j] - cvec[j]) for j in range(n)) for i in range(n)]
            gs = max([1.0] + [abs(v) for v in gf])
            if any((t == -1 and gf[i] < -1e-9 * gs) or (t == 1 and gf[i] > 1e-9 * gs) for i, t in Wd.items()):
                continue
            add(kkt_certify(H, cvec, lo, up, Wd))
    return sols


def gen_c19(rng, algo=None, nmax=10):
    algo = algo or rng.choice(ALGOS)
    n = rng.choice([d for d in [1, 2, 2, 3, 3, 4, 5, 6, 7, 8, 9, 10] if d <= nmax])
    cond = 10 ** rng.uniform(0, 4)
    diag = rng.random() < 0.2
    c = {"algo": algo, "n": n, "exact": False}
    if diag:
        lam = [1.0 * cond ** rng.random() for _ in range(n)]
        c["f"] = "quadd"; c["h"] = lam
        H = [[lam[i] if i == j else 0.0 for j in range(n)] for i in range(n)]
        lmin, lmax = min(lam), max(lam)
    else:
        H, lmin, lmax = spd_matrix(rng, n, cond)
        c["f"] = "quadm"; c["H"] = [H[i][j] for i in range(n) for j in range(n)]
    c["Hrows"] = H
    c["lmin"], c["lmax"] = lmin, lmax
    c["c"] = [rng.uniform(-3, 3) for _ in range(n)]
    c["bounded"] = rng.random() < 0.85
    if c["bounded"]:
        lo, up = [], []
        mode = rng.choice(["around", "cut", "cut", "face-solution", "far"])
        for i in range(n):
            r = rng.random()
            ci = c["c"][i]
            if mode == "around":
                l, u = ci - rng.uniform(0.5, 3), ci + rng.uniform(0.5, 3)
            elif mode == "cut":
                l = ci + rng.uniform(-2, 1.5); u = l + rng.uniform(0.2, 3)
            elif mode == "face-solution":
                # the unconstrained minimizer lies exactly on a face in some components
                k = rng.random()
                if k < 0.4:
                    l, u = ci, ci + rng.uniform(0.2, 3)
                elif k < 0.8:
                    l, u = ci - rng.uniform(0.2, 3), ci
                else:
                    l, u = ci - rng.uniform(0.2, 3), ci + rng.uniform(0.2, 3)
            else:
                l = ci + rng.choice([-1, 1]) * rng.uniform(3, 6); u = l + rng.uniform(0.2, 2)
            if r < 0.1:
                l = -RMAX
            elif r < 0.2:
                u = RMAX
            lo.append(l); up.append(u)
        c["lo"], c["up"] = lo, up
        c["x0"] = gen_start(rng, n, lo, up, False)
    else:
        c["x0"] = [rng.uniform(-4, 4) for _ in range(n)]
    # requested tolerance: never below what a cost-decrease test can resolve in binary64 (a step that reduces the
    # gradient norm to tol changes the cost by about tol^2/(2 lambda_max); it must exceed a few ulp of the cost)
    xs = project(c, c["x0"]) if c["bounded"] else c["x0"]
    f0 = 0.5 * sum((xs[i] - c["c"][i]) * sum(H[i][j] * (xs[j] - c["c"][j]) for j in range(n)) for i in range(n))
    floor = math.sqrt(2.0 * lmax * 1024 * ulp(max(f0, 1e-300)))
    c["tol"] = max(rng.choice([1e-3, 1e-5, 1e-7]), floor)
    c["maxit"] = 50 * n
    c["maxcb"] = 200000
    return c


def last_cap_frac(r):
    """fraction of the last step the Levenberg minimizer tried (from the decision log), None if not logged"""
    for e in reversed(r.get("log") or []):
        w = e.split("/")
        if w[0] == "CAP" and len(w) == 8:
            return bits(w[5])
    return None


def last_bound_step(r):
    """bound step length of the last line search (from the decision log), None if not logged"""
    for e in reversed(r.get("log") or []):
        w = e.split("/")
        if w[0] == "LS0" and len(w) == 8:
            return bits(w[3])
    return None


def oracle_c19(c, r, err=""):
    """-> list of (signature, message)"""
    if r is None:
        return [("harness", "no result line: " + err[-600:])]
    st = r["status"]
    n = c["n"]
    if st in ("NO-TERMINATION", "EXC"):
        return [("no-result", "status %s %s" % (st, r["raw"].get("what", "")))]
    lo = c["lo"] if c["bounded"] else [-RMAX] * n
    up = c["up"] if c["bounded"] else [RMAX] * n
    sols = kkt_point(c["Hrows"], c["c"], lo, up)
    if len(sols) != 1:
        return [("oracle-kkt-not-unique", "active-set enumeration found %d KKT points" % len(sols))]
    xs = sols[0]
    bad = []
    if st != 0:
        sig = "not-converged"
        if c["algo"] in FIRST_ORDER and st == 2 and r["nit"] >= 50 * n:
            # F-66 is a finding about BOUNDED runs (every change of the active set restarts the method with a steepest-descent
            # step); without a box nothing ever restarts it, so an exhausted budget there is not that finding (seed C19_9)
            sig = "first-order-budget-exhausted" if c["bounded"] else "first-order-budget-exhausted-without-box"
        elif c["algo"] in FIRST_ORDER and st == 3 and last_bound_step(r) is not None and 0.0 < last_bound_step(r) < 1e-9:
            sig = "line-search-stalled-next-to-face"                 # F-68
        elif c["algo"] in SECOND_ORDER and st == 3 and last_cap_frac(r) == 0.0:
            sig = "lm-stuck-free-variable-on-face"                   # F-67
        bad.append((sig, "status %s after %d iterations (budget 50*n = %d) on a strictly convex quadratic with "
                    "condition number %.3g" % (ST.get(st, st), r["nit"], 50 * n, c["lmax"] / c["lmin"])))
        return bad
    if r["nit"] > 50 * n:
        bad.append(("budget-exceeded", "converged after %d > 50*n iterations" % r["nit"]))
    dist = math.sqrt(sum(float(Fraction(r["x"][i]) - xs[i]) ** 2 for i in range(n)))
    # ||x - x*|| <= tol / lambda_min, plus the float-regime slack of the face positions and of the gradient evaluation
    scale = max([1.0] + [abs(v) for v in r["x"]] + [abs(v) for v in c["c"]])
    limit = c["tol"] / c["lmin"] + 64 * n * ulp(scale) * (c["lmax"] / c["lmin"])
    if dist > limit:
        sig = "converged-at-wrong-point"
        if c["algo"] in SECOND_ORDER and held_inward(c, r, c["tol"]):
            sig = "lm-converged-at-non-kkt-point-held-at-bound"      # F-65
        bad.append((sig, "status converged at distance %.6g from the KKT point (allowed tol/lambda_min = %.6g): x = %r, x* = %r"
                    % (dist, limit, r["x"], [float(v) for v in xs])))
    return bad


# ------------------------------------------------------------------ H4 decision log -> model driver lines, float-regime oracles
MODEL_TAGS = {"PROJ", "RELCG", "RELLM", "CONV", "NB", "LIM", "CAP", "LS0", "WOLFE", "BRK", "EXT", "CUB", "REF"}


def model_lines(log):
    """entries of one run's decision log -> lines for `adept_model minimizer` (DAMP+DAMPR are merged, FLAG is judged
    in Python only)"""
    out = []
    pend = None
    for e in log:
        w = e.split("/")
        if w[0] == "DAMP":
            pend = w[1:]
        elif w[0] == "DAMPR":
            if pend is not None:
                out.append("DAMPX " + " ".join(pend + w[1:]))
            pend = None
        elif w[0] in MODEL_TAGS:
            out.append(" ".join(w))
    return out


def bits(h):
    import struct
    return struct.unpack(">d", bytes.fromhex(h))[0]


def logvec(tok):
    body = tok[2:] if tok.startswith(("v:", "i:")) else ""
    if not body:
        return []
    return [int(t) for t in body.split(",")] if tok.startswith("i") else [bits(t) for t in body.split(",")]


def oracle_log(c, r):
    """independent (model-free) judgement of two logged facts, in the float regime:
    flags_truthful  -- FLAG entries: a variable flagged -1/+1 lies within ULPS ulp (of the largest magnitude that
                       component has had, or of the bound) of that face;
    no_false_capture -- CAP entries: the captured variable is one whose collision fraction is the smallest.
    -> list of (signature, message)"""
    bad = []
    absmax = r.get("absmax") or []
    for e in r["log"]:
        w = e.split("/")
        if w[0] == "FLAG" and len(w) == 5:
            bs, x, lo, up = logvec(w[1]), logvec(w[2]), logvec(w[3]), logvec(w[4])
            for i, b in enumerate(bs):
                if b == 0 or i >= len(x) or x[i] != x[i]:
                    continue
                face = lo[i] if b == -1 else up[i]
                am = absmax[i] if i < len(absmax) else 0.0
                tol = ULPS * ulp(max(abs(face), abs(x[i]), am))
                if abs(x[i] - face) > tol:
                    bad.append(("flag-not-on-face", "variable %d is flagged %+d but x = %r, face = %r (distance %.3g > %d ulp)"
                                % (i, b, x[i], face, abs(x[i] - face), ULPS)))
                    break
        elif w[0] == "CAP" and len(w) == 8:
            x, dx, lo, up = logvec(w[1]), logvec(w[2]), logvec(w[3]), logvec(w[4])
            frac, ib, ty = bits(w[5]), int(w[6]), int(w[7])
            if any(v != v or abs(v) == float("inf") for v in x + dx + [frac]):
                continue
            fr = {}
            for i in range(len(x)):
                if x[i] + dx[i] <= lo[i] and dx[i] != 0:
                    fr[(i, -1)] = Fraction(lo[i]) - Fraction(x[i])
                    fr[(i, -1)] /= Fraction(dx[i])
                if x[i] + dx[i] >= up[i] and dx[i] != 0:
                    fr[(i, 1)] = (Fraction(up[i]) - Fraction(x[i])) / Fraction(dx[i])
            if ty != 0 and fr:
                best = min(fr.values())
                mine = fr.get((ib, ty))
                if mine is None:
                    bad.append(("false-capture", "captured variable %d (type %+d) does not collide with that bound" % (ib, ty)))
                elif mine > best and float(mine - best) > 2.0 ** -40 * max(1e-300, abs(float(best)), abs(float(mine))):
                    bad.append(("false-capture", "captured variable %d has collision fraction %.17g but variable %d reaches its bound "
                                "first (fraction %.17g)" % (ib, float(mine), min(fr, key=fr.get)[0], float(best))))
    return bad
