"""C02 — forward, reverse and Jacobian results of one recording agree.

proof:  lean/AdeptProofs/Props/C02.lean (adjointness of the two sweeps for every tape; Jacobian by forward
        = by reverse = unit-seeded passes; blocked = unblocked for every W, m, n; layout lemmas)
tie:    hand-written model AdeptModel/{Tape,StackProto}.lean <-> Stack::compute_*/jacobian_* ; exact comparison of
        the whole tape and of every pass / Jacobian result on integer tapes, over several block-width builds
oracle: product of statement matrices in Python big integers, computed from the implementation's own tape dump
"""
import os, json
from concurrent.futures import ThreadPoolExecutor
import vbuild, vcheck
import tapecommon as tc

LEVEL = "proof"
NS = "Adept.Tape."
REQUIRED = ["C02_adjoint_tape", "C02_jac_fwd_eq_rev", "C02_blocked_eq_unblocked_fwd", "C02_blocked_eq_unblocked_rev"]


def cpu_flags():
    try:
        for l in open("/proc/cpuinfo"):
            if l.startswith("flags"):
                return set(l.split(":")[1].split())
    except OSError:
        pass
    return set()


def variants(tier):
    v = [("W1", dict(W=1)), ("W3", dict(W=3)), ("W4", dict(W=4)), ("sse2", dict(packets="sse2"))]
    if tier == "thorough":
        v += [("W2", dict(W=2)), ("W5", dict(W=5)), ("W8", dict(W=8))]
        fl = cpu_flags()
        if "avx" in fl:
            v.append(("avx", dict(packets="avx")))
        if "avx512f" in fl:
            v.append(("avx512", dict(packets="avx512")))
    return v


def width(kw):
    return tc.PACKET_W[kw["packets"]] if kw.get("packets") else kw["W"]


def gen_case(rng, W):
    """one self-contained case -> (ops, meta)"""
    g = tc.Gen(rng)
    g.emit("cfg %d 0 1" % W)
    for _ in range(rng.randint(2, 5)):
        g.new()
    g.n_inputs = g.nxt
    if rng.random() < 0.3:
        # the OpenMP routines are C13's subject, but forward = reverse = chooser must also hold when they are the ones used
        g.emit("threads %d" % rng.randint(2, 6))
    g.emit("nr")
    g.program(rng.randint(3, 28))
    g.emit("tape")
    # m, n around multiples of W: every residue, m<n, m=n, m>n
    choices = sorted(set([1, 2, W - 1, W, W + 1, 2 * W - 1, 2 * W, 2 * W + 1, 3 * W + 2]) - {0, -1})
    n = rng.choice(choices); m = rng.choice(choices)
    distinct = rng.random() < 0.3
    indep, dep = tc.pick_lists(rng, g, n, m, distinct=distinct)
    n, m = len(indep), len(dep)
    for k in indep:
        g.emit("indep %d" % k)
    for k in dep:
        g.emit("dep %d" % k)
    q = []   # (kind, opindex, info)
    for mode in ("auto", "fwd", "rev"):
        q.append(("mat", len(g.ops), mode)); g.emit("jac %s mat" % mode)
    for mode in ("fwd", "rev"):
        q.append(("ptr", len(g.ops), (1, m, m * n))); g.emit("jac %s ptr 1 0 %d" % (mode, m * n))
        q.append(("ptr", len(g.ops), (n, 1, m * n))); g.emit("jac %s ptr 0 1 %d" % (mode, m * n))
        k = n + rng.randint(0, 3)
        q.append(("ptr", len(g.ops), (k, 1, m * k))); g.emit("jac %s ptr %d 1 %d" % (mode, k, m * k))
        k = m + rng.randint(0, 3)
        q.append(("ptr", len(g.ops), (1, k, n * k))); g.emit("jac %s ptr 1 %d %d" % (mode, k, n * k))
    for kind in ("row", "col", "transposed", "strided"):
        mode = rng.choice(["auto", "fwd", "rev"])
        q.append(("mat", len(g.ops), mode)); g.emit("jac %s matarg %s %d %d" % (mode, kind, m, n))
    # wrongly sized target
    mode = rng.choice(["auto", "fwd", "rev"])
    q.append(("wrong", len(g.ops), None)); g.emit("jac %s matarg %s %d %d" % (mode, rng.choice(["row", "col", "strided"]), m + 1, n))
    # unit-seeded passes: columns and rows
    for j in rng.sample(range(n), min(n, 3)):
        g.emit("clrg"); g.emit("seed %d 1" % indep[j]); g.emit("fwd")
        for i in rng.sample(range(m), min(m, 3)):
            q.append(("col", len(g.ops), (i, j))); g.emit("get %d" % dep[i])
    for i in rng.sample(range(m), min(m, 3)):
        g.emit("clrg"); g.emit("seed %d 1" % dep[i]); g.emit("rev")
        for j in rng.sample(range(n), min(n, 3)):
            q.append(("row", len(g.ops), (i, j))); g.emit("get %d" % indep[j])
    # duality v.(J u) = (J^T v).u on lists without repeats
    if len(set(indep)) == n and len(set(dep)) == m:
        u = [rng.randint(-2, 2) for _ in range(n)]; v = [rng.randint(-2, 2) for _ in range(m)]
        g.emit("clrg")
        for j in range(n):
            g.emit("seed %d %d" % (indep[j], u[j]))
        g.emit("fwd")
        for i in range(m):
            q.append(("Ju", len(g.ops), (i, u))); g.emit("get %d" % dep[i])
        g.emit("clrg")
        for i in range(m):
            g.emit("seed %d %d" % (dep[i], v[i]))
        g.emit("rev")
        for j in range(n):
            q.append(("JTv", len(g.ops), (j, v))); g.emit("get %d" % indep[j])
    g.emit("clrg")
    # true derivatives of the live variables with respect to the inputs that are still alive (independent oracle:
    # textbook forward mode in Python; covers "derivatives stay correct while slots are recycled")
    g.emit("clri"); g.emit("clrd")
    ins = [k for k in range(g.n_inputs) if k in g.live]
    outs = list(g.live)
    if ins and outs:
        for k in ins:
            g.emit("indep %d" % k)
        for k in outs:
            g.emit("dep %d" % k)
        q.append(("true", len(g.ops), (ins, outs))); g.emit("jac auto mat")
    return g.ops, {"queries": q, "indep": indep, "dep": dep, "n": n, "m": m}


def oracle_case(ops, meta, il):
    """independent judgement of C02 on the implementation's output; returns message or None ('skip' if inexact)"""
    ti = ops.index("tape")
    try:
        tape = tc.parse_tape(il[ti])
    except Exception as e:
        return "unparsable tape line %r" % il[ti][:200]
    # gradient indices of the handles, from the creation lines
    idx = {}
    for o, l in zip(ops, il):
        w = o.split()
        if w[0] in ("new", "newd", "newc") and l.startswith("ok "):
            idx[int(w[1])] = int(l.split()[1])
    xi = [idx[k] for k in meta["indep"]]; yi = [idx[k] for k in meta["dep"]]
    allidx = set(idx.values())
    if tc.tape_abs_bound(tape, allidx) * 8 >= tc.EXACT_BOUND:
        return "skip"
    J = tc.jac_from_tape(tape, xi, yi)
    m, n = meta["m"], meta["n"]
    Ju = JTv = None
    for kind, oi, info in meta["queries"]:
        line = il[oi]
        if kind == "mat":
            p = tc.parse_J(line)
            if p is None:
                return "op %d (%s): expected a %dx%d Jacobian, got %r" % (oi, ops[oi], m, n, line[:200])
            Jm, stray = p
            if stray:
                return "op %d (%s): wrote outside the strided target" % (oi, ops[oi])
            if Jm != J:
                return "op %d (%s): Jacobian %s differs from the product of the statement matrices %s" % (oi, ops[oi], Jm, J)
        elif kind == "ptr":
            dO, iO, nc = info
            cells = tc.parse_P(line)
            if cells is None or len(cells) != nc:
                return "op %d (%s): expected %d cells, got %r" % (oi, ops[oi], nc, line[:200])
            exp = [-777] * nc
            for i in range(m):
                for j in range(n):
                    exp[i * dO + j * iO] = J[i][j]
            if cells != exp:
                return "op %d (%s): raw-pointer Jacobian cells %s, expected %s" % (oi, ops[oi], cells, exp)
        elif kind == "wrong":
            if line != "EXC size_mismatch":
                return "op %d (%s): wrongly sized target not rejected: %r" % (oi, ops[oi], line[:200])
        elif kind in ("col", "row"):
            i, j = info
            if line != "g %d" % J[i][j]:
                return "op %d (%s): unit-seeded %s pass gives %r, Jacobian entry (%d,%d) is %d" % (
                    oi, ops[oi], "forward" if kind == "col" else "reverse", line, i, j, J[i][j])
        elif kind == "true":
            ins, outs = info
            de = tc.dual_eval(ops[:oi], il[:oi])
            if de is not None:
                env, _ = de
                Jt = [[env[y][1].get(x, 0) for x in ins] for y in outs]
                p = tc.parse_J(line)
                if p is not None and len(p[0]) == len(outs):
                    # rows of variables whose derivative is undefined (default-constructed, never assigned) are not judged
                    for r, y in enumerate(outs):
                        if tc.UNDEF in env[y][1]:
                            p[0][r] = Jt[r]
                if p is None or p[0] != Jt:
                    return ("op %d: Jacobian of the live variables w.r.t. the inputs is %r, textbook forward-mode evaluation of the "
                            "program gives %s" % (oi, line[:200], Jt))
        elif kind == "Ju":
            i, u = info
            e = sum(J[i][j] * u[j] for j in range(n))
            if line != "g %d" % e:
                return "op %d: (J u)[%d] = %r, expected %d" % (oi, i, line, e)
        elif kind == "JTv":
            j, v = info
            e = sum(J[i][j] * v[i] for i in range(m))
            if line != "g %d" % e:
                return "op %d: (J^T v)[%d] = %r, expected %d" % (oi, j, line, e)
    return None


def run_cases(ctx, exe, label, cases, env=None):
    text = "".join("\n".join(ops) + "\n" for ops, _ in cases)
    impl, model, rc, err = tc.run_pair(exe, text, env)
    pos = 0
    for ops, meta in cases:
        il, ml = impl[pos:pos + len(ops)], model[pos:pos + len(ops)]
        pos += len(ops)
        if len(il) < len(ops):
            ctx.violation("implementation stopped on a tape case (%s): rc=%s %s" % (label, rc, vcheck.san_summary(err)),
                          {"kind": "crash", "build": label, "ops": ops, "stderr": err[-3000:], "impl": il})
            break
        verdict = oracle_case(ops, meta, il)
        if verdict == "skip":
            ctx.notes["skipped_inexact"] = ctx.notes.get("skipped_inexact", 0) + 1
            continue
        ctx.count_case((label, tuple(ops)), nontrivial=meta["n"] > 1 or meta["m"] > 1,
                       sample={"build": label, "n": meta["n"], "m": meta["m"], "ops": ops[:14] + ["..."], "tape": il[ops.index("tape")][:160]})
        key = "n%%W=%d,m%%W=%d" % (meta["n"] % max(ctx.curW, 1), meta["m"] % max(ctx.curW, 1))
        ctx.notes.setdefault("residues_hit", {}).setdefault(label, {})
        ctx.notes["residues_hit"][label][key] = ctx.notes["residues_hit"][label].get(key, 0) + 1
        if verdict is not None:
            ctx.nbad += 1
            if ctx.nbad <= 2:
                ctx.violation("%s [build %s]" % (verdict, label), {"kind": "oracle", "build": label, "ops": ops, "impl": il, "message": verdict})
        else:
            d = vcheck.first_diff(il, ml)
            if d is not None:
                ctx.cov["disagreements_checked"] += 1
                if len(ctx.pending) < 2:
                    ctx.pending.append({"kind": "correspondence", "correspondence": "AdeptModel/StackProto.lean+Tape.lean <-> adept::Stack",
                                        "build": label, "ops": ops, "first_difference": {"op": ops[d], "impl": il[d], "model": ml[d]}})
    ctx.cov["traces_validated_against_impl"] += len(cases)


def run(ctx, replay):
    thms = [NS + t for t in vcheck.prop_theorems("AdeptProofs/Props/C02.lean", "C02_")]
    fails = vcheck.lean_gate(ctx, ["AdeptProofs.Props.C02"], thms, required=[NS + r for r in REQUIRED])
    vs = variants(ctx.tier)
    with ThreadPoolExecutor(max_workers=len(vs)) as ex:
        exes = list(ex.map(lambda v: tc.build(**v[1]), vs))
    ctx.pending, ctx.nbad = [], 0
    ncase = 400 if ctx.tier == "quick" else 1500
    for (label, kw), exe in zip(vs, exes):
        W = width(kw)
        ctx.curW = W
        if replay:
            r = json.load(open(replay))
            ops = r["ops"]
            il = vcheck.run_impl(exe, [], "\n".join(ops) + "\n")[0]
            print("\n".join("%-40s | %s" % (o, l) for o, l in zip(ops, il)))
            continue
        cases = [gen_case(ctx.rng, W) for _ in range(ncase)]
        run_cases(ctx, exe, label, cases)
    ctx.cov["rule"] = ("random straight-line integer programs (expression trees of height<=2 over + - * neg, copies, compound ops, "
                       "add/append_derivative_dependence, new/delete of actives in non-LIFO order), then independent/dependent lists with "
                       "repeats and intermediates, sizes from {1,2,W-1,W,W+1,2W-1,2W,2W+1,3W+2}; every Jacobian form (3 modes x returned "
                       "Matrix / raw pointer with 4 offset pairs / row-major, column-major, transposed, strided, wrongly sized Matrix "
                       "argument), unit-seeded forward and reverse passes, duality; per build variant. non-trivial: m>1 or n>1; "
                       "distinct: different (build, op list)")
    ctx.notes["builds"] = [l for l, _ in vs]
    ctx.assumptions += ["exact regime only: integer-valued doubles, all intermediates < 2^50 (guarded per case, inexact cases skipped and counted)",
                        "theorems are over commutative rings; rounding differences between forward and reverse on non-integer tapes are not covered"]
    if not ctx.violations:
        for p in ctx.pending[:1]:
            ctx.violation("model and implementation disagree on a tape case (build %s) but every Jacobian/pass result matches the "
                          "product of the statement matrices" % p["build"], p, tag="c", no_input=True)
    if fails and not ctx.violations:
        ctx.violation("proof obligation of C02 no longer checks: " + fails[0][:400],
                      {"kind": "proof", "theorem": "AdeptProofs/Props/C02.lean", "failures": fails}, tag="p", no_input=True)
