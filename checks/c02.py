"""C02 — forward, reverse and Jacobian results of one recording agree.

proof:  lean/AdeptProofs/Props/C02.lean (adjointness of the two sweeps for every tape; Jacobian by forward
        = by reverse = unit-seeded passes; blocked = unblocked for every W, m, n; layout lemmas)
tie:    hand-written model AdeptModel/{Tape,StackProto}.lean <-> Stack::compute_*/jacobian_* ; exact comparison of
        the whole tape and of every pass / Jacobian result on integer tapes, over several block-width builds
oracle: product of statement matrices in Python big integers, computed from the implementation's own tape dump
binary64: which of the equalities hold operation for operation is part of the theorems (C02_*_lawfree, refutations in
        AdeptProofs/Refute/Tape.lean).  Recordings with non-integer multipliers (tapecommon.FGen) are run on every build; every
        Jacobian cell and every pass result is compared as a bit pattern with a Python transcription of the C++ loops (independent
        oracle) and with the Lean model run on Float; forward Jacobian column = tangent-linear pass and forward Jacobian identical
        across all block-width builds (always), reverse Jacobian row = adjoint pass and identical across builds (finite tapes, or
        W = 1), block-flag witness with an infinite multiplier (reverse W >= 2: NaN, adjoint pass: 1) observed as predicted.
"""
import os, json
from concurrent.futures import ThreadPoolExecutor
import vbuild, vcheck
import tapecommon as tc

LEVEL = "proof"
NS = "Adept.Tape."
REQUIRED = ["C02_adjoint_tape", "C02_jac_fwd_eq_rev", "C02_blocked_eq_unblocked_fwd", "C02_blocked_eq_unblocked_rev",
            "C02_jac_col_eq_tangent_pass_lawfree", "C02_blocked_eq_unblocked_fwd_lawfree", "C02_jac_row_eq_adjoint_pass_W1_lawfree",
            "C02_jac_row_eq_adjoint_pass_of_skip", "C02_jac_row_eq_adjoint_pass_of_good", "C02_blocked_eq_unblocked_rev_of_skip", "C02_rev_blockwise_eq_lanewise",
            "C02_refute_fwd_eq_rev_lawfree", "C02_refute_rev_row_lawfree", "C02_refute_rev_blocked_lawfree"]
# idle OpenMP threads sleep instead of spinning (shared machine; semantics unchanged)
OMP_ENV = {"OMP_WAIT_POLICY": "passive", "GOMP_SPINCOUNT": "0", "OMP_DYNAMIC": "false"}


def cpu_flags():
    try:
        for l in open("/proc/cpuinfo"):
            if l.startswith("flags"):
                return set(l.split(":")[1].split())
    except OSError:
        pass
    return set()


def variants(tier):
    v = [("W1", dict(W=1)), ("W3", dict(W=3)), ("W4", dict(W=4)), ("sse2", dict(packets="sse2"))]
    if tier == "thorough":
        v += [("W2", dict(W=2)), ("W5", dict(W=5)), ("W8", dict(W=8))]
        fl = cpu_flags()
        if "avx" in fl:
            v.append(("avx", dict(packets="avx")))
        if "avx512f" in fl:
            v.append(("avx512", dict(packets="avx512")))
    return v


def width(kw):
    return tc.PACKET_W[kw["packets"]] if kw.get("packets") else kw["W"]


def gen_case(rng, W):
    """one self-contained case -> (ops, meta)"""
    g = tc.Gen(rng, array_forms=True)
    g.emit("cfg %d 0 1" % W)
    for _ in range(rng.randint(2, 5)):
        g.new()
    g.n_inputs = g.nxt
    if rng.random() < 0.3:
        # the OpenMP routines are C13's subject, but forward = reverse = chooser must also hold when they are the ones used
        g.emit("threads %d" % rng.randint(2, 6))
    g.emit("nr")
    g.program(rng.randint(3, 28))
    g.emit("tape")
    # m, n around multiples of W: every residue, m<n, m=n, m>n
    choices = sorted(set([1, 2, W - 1, W, W + 1, 2 * W - 1, 2 * W, 2 * W + 1, 3 * W + 2]) - {0, -1})
    n = rng.choice(choices); m = rng.choice(choices)
    distinct = rng.random() < 0.3
    indep, dep = tc.pick_lists(rng, g, n, m, distinct=distinct)
    n, m = len(indep), len(dep)
    tc.emit_lists(g, rng, indep, dep)     # scalar forms and the pointer-and-count forms Stack::independent/dependent(const A* x, n)
    q = []   # (kind, opindex, info)
    for mode in ("auto", "fwd", "rev"):
        q.append(("mat", len(g.ops), mode)); g.emit("jac %s mat" % mode)
    for mode in ("fwd", "rev"):
        q.append(("ptr", len(g.ops), (1, m, m * n))); g.emit("jac %s ptr 1 0 %d" % (mode, m * n))
        q.append(("ptr", len(g.ops), (n, 1, m * n))); g.emit("jac %s ptr 0 1 %d" % (mode, m * n))
        k = n + rng.randint(0, 3)
        q.append(("ptr", len(g.ops), (k, 1, m * k))); g.emit("jac %s ptr %d 1 %d" % (mode, k, m * k))
        k = m + rng.randint(0, 3)
        q.append(("ptr", len(g.ops), (1, k, n * k))); g.emit("jac %s ptr 1 %d %d" % (mode, k, n * k))
    for kind in ("row", "col", "transposed", "strided"):
        mode = rng.choice(["auto", "fwd", "rev"])
        q.append(("mat", len(g.ops), mode)); g.emit("jac %s matarg %s %d %d" % (mode, kind, m, n))
    # wrongly sized target
    mode = rng.choice(["auto", "fwd", "rev"])
    q.append(("wrong", len(g.ops), None)); g.emit("jac %s matarg %s %d %d" % (mode, rng.choice(["row", "col", "strided"]), m + 1, n))
    # unit-seeded passes: columns and rows
    for j in rng.sample(range(n), min(n, 3)):
        g.emit("clrg"); g.emit("seed %d 1" % indep[j]); g.emit("fwd")
        for i in rng.sample(range(m), min(m, 3)):
            q.append(("col", len(g.ops), (i, j))); g.emit("get %d" % dep[i])
    for i in rng.sample(range(m), min(m, 3)):
        g.emit("clrg"); g.emit("seed %d 1" % dep[i]); g.emit("rev")
        for j in rng.sample(range(n), min(n, 3)):
            q.append(("row", len(g.ops), (i, j))); g.emit("get %d" % indep[j])
    # duality v.(J u) = (J^T v).u on lists without repeats
    if len(set(indep)) == n and len(set(dep)) == m:
        u = [rng.randint(-2, 2) for _ in range(n)]; v = [rng.randint(-2, 2) for _ in range(m)]
        g.emit("clrg")
        for j in range(n):
            g.emit("seed %d %d" % (indep[j], u[j]))
        g.emit("fwd")
        for i in range(m):
            q.append(("Ju", len(g.ops), (i, u))); g.emit("get %d" % dep[i])
        g.emit("clrg")
        for i in range(m):
            g.emit("seed %d %d" % (dep[i], v[i]))
        g.emit("rev")
        for j in range(n):
            q.append(("JTv", len(g.ops), (j, v))); g.emit("get %d" % indep[j])
    g.emit("clrg")
    # true derivatives of the live variables with respect to the inputs that are still alive (independent oracle:
    # textbook forward mode in Python; covers "derivatives stay correct while slots are recycled")
    g.emit("clri"); g.emit("clrd")
    ins = [k for k in range(g.n_inputs) if k in g.live]
    outs = list(g.live)
    if ins and outs:
        tc.emit_lists(g, rng, ins, outs)
        q.append(("true", len(g.ops), (ins, outs))); g.emit("jac auto mat")
    return g.ops, {"queries": q, "indep": indep, "dep": dep, "n": n, "m": m}


def oracle_case(ops, meta, il):
    """independent judgement of C02 on the implementation's output; returns message or None ('skip' if inexact)"""
    ti = ops.index("tape")
    try:
        tape = tc.parse_tape(il[ti])
    except Exception as e:
        return "unparsable tape line %r" % il[ti][:200]
    # gradient indices of the handles, from the creation lines
    idx = {}
    for o, l in zip(ops, il):
        w = o.split()
        if w[0] in ("new", "newd", "newc") and l.startswith("ok "):
            idx[int(w[1])] = int(l.split()[1])
    xi = [idx[k] for k in meta["indep"]]; yi = [idx[k] for k in meta["dep"]]
    allidx = set(idx.values())
    if tc.tape_abs_bound(tape, allidx) * 8 >= tc.EXACT_BOUND:
        return "skip"
    J = tc.jac_from_tape(tape, xi, yi)
    m, n = meta["m"], meta["n"]
    Ju = JTv = None
    for kind, oi, info in meta["queries"]:
        line = il[oi]
        if kind == "mat":
            p = tc.parse_J(line)
            if p is None:
                return "op %d (%s): expected a %dx%d Jacobian, got %r" % (oi, ops[oi], m, n, line[:200])
            Jm, stray = p
            if stray:
                return "op %d (%s): wrote outside the strided target" % (oi, ops[oi])
            if Jm != J:
                return "op %d (%s): Jacobian %s differs from the product of the statement matrices %s" % (oi, ops[oi], Jm, J)
        elif kind == "ptr":
            dO, iO, nc = info
            cells = tc.parse_P(line)
            if cells is None or len(cells) != nc:
                return "op %d (%s): expected %d cells, got %r" % (oi, ops[oi], nc, line[:200])
            exp = [-777] * nc
            for i in range(m):
                for j in range(n):
                    exp[i * dO + j * iO] = J[i][j]
            if cells != exp:
                return "op %d (%s): raw-pointer Jacobian cells %s, expected %s" % (oi, ops[oi], cells, exp)
        elif kind == "wrong":
            if line != "EXC size_mismatch":
                return "op %d (%s): wrongly sized target not rejected: %r" % (oi, ops[oi], line[:200])
        elif kind in ("col", "row"):
            i, j = info
            if line != "g %d" % J[i][j]:
                return "op %d (%s): unit-seeded %s pass gives %r, Jacobian entry (%d,%d) is %d" % (
                    oi, ops[oi], "forward" if kind == "col" else "reverse", line, i, j, J[i][j])
        elif kind == "true":
            ins, outs = info
            de = tc.dual_eval(ops[:oi], il[:oi])
            if de is not None:
                env, _ = de
                Jt = [[env[y][1].get(x, 0) for x in ins] for y in outs]
                p = tc.parse_J(line)
                if p is not None and len(p[0]) == len(outs):
                    # rows of variables whose derivative is undefined (default-constructed, never assigned) are not judged
                    for r, y in enumerate(outs):
                        if tc.UNDEF in env[y][1]:
                            p[0][r] = Jt[r]
                if p is None or p[0] != Jt:
                    return ("op %d: Jacobian of the live variables w.r.t. the inputs is %r, textbook forward-mode evaluation of the "
                            "program gives %s" % (oi, line[:200], Jt))
        elif kind == "Ju":
            i, u = info
            e = sum(J[i][j] * u[j] for j in range(n))
            if line != "g %d" % e:
                return "op %d: (J u)[%d] = %r, expected %d" % (oi, i, line, e)
        elif kind == "JTv":
            j, v = info
            e = sum(J[i][j] * v[i] for i in range(m))
            if line != "g %d" % e:
                return "op %d: (J^T v)[%d] = %r, expected %d" % (oi, j, line, e)
    return None


def run_cases(ctx, exe, label, cases, env=None):
    text = "".join("\n".join(ops) + "\n" for ops, _ in cases)
    impl, model, rc, err = tc.run_pair(exe, text, env)
    pos = 0
    for ops, meta in cases:
        il, ml = impl[pos:pos + len(ops)], model[pos:pos + len(ops)]
        pos += len(ops)
        if len(il) < len(ops):
            ctx.violation("implementation stopped on a tape case (%s): rc=%s %s" % (label, rc, vcheck.san_summary(err)),
                          {"kind": "crash", "build": label, "ops": ops, "stderr": err[-3000:], "impl": il})
            break
        verdict = oracle_case(ops, meta, il)
        if verdict == "skip":
            ctx.notes["skipped_inexact"] = ctx.notes.get("skipped_inexact", 0) + 1
            continue
        ctx.count_case((label, tuple(ops)), nontrivial=meta["n"] > 1 or meta["m"] > 1,
                       sample={"build": label, "n": meta["n"], "m": meta["m"], "ops": ops[:14] + ["..."], "tape": il[ops.index("tape")][:160]})
        key = "n%%W=%d,m%%W=%d" % (meta["n"] % max(ctx.curW, 1), meta["m"] % max(ctx.curW, 1))
        ctx.notes.setdefault("residues_hit", {}).setdefault(label, {})
        ctx.notes["residues_hit"][label][key] = ctx.notes["residues_hit"][label].get(key, 0) + 1
        if verdict is not None:
            ctx.nbad += 1
            if ctx.nbad <= 2:
                ctx.violation("%s [build %s]" % (verdict, label), {"kind": "oracle", "build": label, "ops": ops, "impl": il, "message": verdict})
        else:
            d = vcheck.first_diff(il, ml)
            if d is not None:
                ctx.cov["disagreements_checked"] += 1
                if len(ctx.pending) < 2:
                    ctx.pending.append({"kind": "correspondence", "correspondence": "AdeptModel/StackProto.lean+Tape.lean <-> adept::Stack",
                                        "build": label, "ops": ops, "first_difference": {"op": ops[d], "impl": il[d], "model": ml[d]}})
    ctx.cov["traces_validated_against_impl"] += len(cases)


# ------------------------------------------------------------------ binary64 cases (the same text runs on every build)
F_SIZES = [1, 2, 3, 4, 5, 6, 7, 8, 9, 11, 13, 17]


def gen_fcase(rng, witness=False):
    """one binary64 case -> (ops, meta); the first line `cfg @W 0 1` gets the block width of the build it is run on"""
    nonfinite = (not witness) and rng.random() < 0.15
    g = tc.FGen(rng, nonfinite=nonfinite)
    g.emit("cfg @W 0 1")
    if witness:
        # the block-flag witness of AdeptProofs/Refute/Tape.lean (infTape) on doubles: y1 = 1*x, y2 = Inf*x, rows y1, y2
        for op in ("new 0 0x1.0p+0", "new 1 0x0.0p+0", "new 2 0x0.0p+0", "nr", "adep 1 0 0x1.0p+0", "adep 2 0 inf"):
            g.emit(op)
        g.live = [0, 1, 2]; g.nxt = 3
        indep, dep = [0], [1, 2]
    else:
        for _ in range(rng.randint(2, 6)):
            g.new()
        if rng.random() < 0.3:
            g.emit("threads %d" % rng.randint(2, 6))
        g.emit("nr")
        g.program(rng.randint(2, 20), nfan=rng.choice([1, 1, 2]))
        indep, dep = g.lists(rng.choice(F_SIZES), rng.choice(F_SIZES))
    g.emit("hex 1")
    g.emit("tape")
    n, m = len(indep), len(dep)
    tc.emit_lists(g, rng, indep, dep)     # scalar forms and the pointer-and-count forms Stack::independent/dependent(const A* x, n)
    q = []          # (kind, op index, info)
    for mode in ("fwd", "rev", "auto"):
        q.append(("jac", len(g.ops), (mode, 1, 0, m * n))); g.emit("jac %s ptr 1 0 %d" % (mode, m * n))
    k = n + rng.randint(0, 2)
    for mode in ("fwd", "rev"):
        q.append(("jac", len(g.ops), (mode, k, 1, m * k))); g.emit("jac %s ptr %d 1 %d" % (mode, k, m * k))
    for j in rng.sample(range(n), min(n, 3)):
        g.emit("clrg"); g.emit("seed %d 1" % indep[j]); g.emit("fwd")
        for i in rng.sample(range(m), min(m, 4)):
            q.append(("col", len(g.ops), (i, j))); g.emit("get %d" % dep[i])
    for i in (range(m) if witness else rng.sample(range(m), min(m, 3))):
        g.emit("clrg"); g.emit("seed %d 1" % dep[i]); g.emit("rev")
        for j in rng.sample(range(n), min(n, 4)):
            q.append(("row", len(g.ops), (i, j))); g.emit("get %d" % indep[j])
    g.emit("clrg")
    g.emit("tape")
    g.emit("hex 0")
    return g.ops, {"fqueries": q, "indep": indep, "dep": dep, "n": n, "m": m, "witness": witness}


def run_fcases(ctx, exe, label, W, fcases, across):
    """binary64 cases on one build.  `across[case number]` collects the forward / reverse Jacobian lines of every build."""
    cases = [([o.replace("@W", str(W)) for o in ops], meta) for ops, meta in fcases]
    text = "".join("\n".join(ops) + "\n" for ops, _ in cases)
    impl, rc, err = vcheck.run_impl(exe, [], text, env=OMP_ENV)
    pos = 0
    mtext, done = [], []
    N_ = ctx.notes
    for ci, (ops, meta) in enumerate(cases):
        il = impl[pos:pos + len(ops)]
        pos += len(ops)
        if len(il) < len(ops):
            ctx.violation("implementation stopped on a binary64 tape case (%s): rc=%s %s" % (label, rc, vcheck.san_summary(err)),
                          {"kind": "crash", "build": label, "ops": ops, "stderr": err[-3000:], "impl": il})
            break
        try:
            idx = tc.handle_indices(ops, il)
            ti = ops.index("tape")
            tape = tc.parse_ftape(il[ti])
            xi = [idx[k] for k in meta["indep"]]; yi = [idx[k] for k in meta["dep"]]
        except Exception as e:
            ctx.violation("unparsable output on a binary64 case (%s): %r" % (label, e), {"kind": "oracle", "build": label, "ops": ops, "impl": il})
            continue
        n, m = meta["n"], meta["m"]
        N = 1 + max([0] + xi + yi + [l for l, _ in tape] + [i for _, o in tape for _, i in o])
        finite = not tc.tape_nonfinite(tape)
        verdict = None
        Jf = Jr = None
        lines = ["ftape %d %d |%s" % (W, N, il[ti].split("|", 1)[1] if "|" in il[ti] else ""),
                 "findep " + " ".join(map(str, xi)), "fdep " + " ".join(map(str, yi))]
        where = []
        passes = {}
        th = 1
        for o in ops:
            if o.startswith("threads "):
                th = int(o.split()[1])
        for kind, oi, info in meta["fqueries"]:
            line = il[oi]
            if kind == "jac":
                mode, dO, iO, nc = info
                fwd = mode == "fwd" or (mode == "auto" and n <= m)
                exp = tc.fbits_line("P", tc.fjac_oracle(tape, N, W, xi, yi, fwd, dO, iO, nc))
                if line != exp and verdict is None:
                    pa, pb = line.split(), exp.split()
                    d = [i for i in range(min(len(pa), len(pb))) if pa[i] != pb[i]]
                    verdict = ("binary64: %s differs in the bits of cell %s from the operation-for-operation transcription of "
                               "jacobian.cpp: %s vs %s" % (ops[oi], d[0] - 1 if d else "?", pa[d[0]] if d else line[:80], pb[d[0]] if d else exp[:80]))
                if (dO, iO) == (1, 0):
                    cells = line.split()[1:]
                    if mode == "fwd":
                        Jf = cells
                    elif mode == "rev":
                        Jr = cells
                where.append((oi, len(lines)))
                lines.append("fjac %s %d %d %d %d" % (mode, th, dO, iO, nc))
            else:
                i, j = info
                src, dst = (xi[j], yi[i]) if kind == "col" else (yi[i], xi[j])
                key = (kind, src)
                if key not in passes:
                    g = [0.0] * N; g[src] = 1.0
                    passes[key] = tc.ftape_fwd(tape, g) if kind == "col" else tc.ftape_rev(tape, g)
                exp = "g " + tc.f2bits(passes[key][dst])
                if line != exp and verdict is None:
                    verdict = ("binary64: unit-seeded %s pass (%s) gives %s, the operation-for-operation transcription of Stack.cpp gives %s"
                               % ("forward" if kind == "col" else "reverse", ops[oi], line, exp))
                J = Jf if kind == "col" else Jr
                if J is not None and len(J) == m * n and verdict is None:
                    cell = J[i + j * m]
                    same = line == "g " + cell
                    if kind == "col" and not same:
                        verdict = ("binary64: forward Jacobian entry (%d,%d) = %s but the tangent-linear pass seeded with the unit vector "
                                   "gives %s (%s): not the same operations" % (i, j, cell, line, ops[oi]))
                    if kind == "row":
                        N_["f_rows_compared_with_adjoint_pass"] = N_.get("f_rows_compared_with_adjoint_pass", 0) + 1
                        if not same:
                            if finite or W == 1:
                                verdict = ("binary64: reverse Jacobian entry (%d,%d) = %s but the adjoint pass seeded with the unit vector "
                                           "gives %s (%s) on a recording with finite multipliers%s" % (i, j, cell, line, ops[oi], " (W = 1)" if W == 1 else ""))
                            else:
                                N_["f_rows_differing_from_adjoint_pass_nonfinite"] = N_.get("f_rows_differing_from_adjoint_pass_nonfinite", 0) + 1
                                if meta["witness"]:
                                    N_.setdefault("block_flag_witness", {})[label] = "reverse Jacobian dy1/dx = %s, compute_adjoint gives %s" % (cell, line)
                where.append((oi, len(lines)))
                lines.append("fsweep %s %d:3ff0000000000000 | %d" % ("fwd" if kind == "col" else "rev", src, dst))
        tl = [i for i, o in enumerate(ops) if o == "tape"]
        if verdict is None and il[tl[0]] != il[tl[-1]]:
            verdict = "the recording changed during the Jacobian computations / passes (binary64 case)"
        if Jf is not None and Jr is not None and len(Jf) == len(Jr):
            N_["f_cells_fwd_vs_rev"] = N_.get("f_cells_fwd_vs_rev", 0) + len(Jf)
            N_["f_cells_fwd_vs_rev_bits_differ"] = N_.get("f_cells_fwd_vs_rev_bits_differ", 0) + sum(1 for a, b in zip(Jf, Jr) if a != b)
        N_["f_cases"] = N_.get("f_cases", 0) + 1
        N_["f_cases_nonfinite_tape"] = N_.get("f_cases_nonfinite_tape", 0) + (0 if finite else 1)
        tc.mult_stats(tape, ctx.notes)
        hist = N_.setdefault("f_operands_per_statement", {})
        for _, o in tape:
            kk = str(len(o)) if len(o) < 8 else "8+"
            hist[kk] = hist.get(kk, 0) + 1
        ctx.count_case((label, "f", tuple(ops)), nontrivial=n > 1 or m > 1,
                       sample={"build": label, "binary64": True, "n": n, "m": m, "tape": il[ti][:200]})
        if verdict is not None:
            ctx.nbad += 1
            if ctx.nbad <= 2:
                ctx.violation("%s [build %s]" % (verdict, label), {"kind": "oracle", "build": label, "ops": ops, "impl": il, "message": verdict})
            continue
        across.setdefault(ci, []).append((label, W, il[ti], Jf, Jr, finite, ops))
        base = len(mtext)
        mtext += lines
        done.append((ops, il, [(oi, base + mi) for oi, mi in where]))
    if done:
        ml = vcheck.run_model("tape", "\n".join(mtext) + "\n")
        for ops, il, where in done:
            for oi, mi in where:
                got = ml[mi] if mi < len(ml) else "<missing>"
                if got != il[oi]:
                    ctx.cov["disagreements_checked"] += 1
                    if len(ctx.pending) < 2:
                        ctx.pending.append({"kind": "correspondence", "correspondence": "AdeptModel/Tape.lean on Float (fwd, revZ, jacFwdSerial, jacRevSerialB) <-> Stack.cpp / jacobian.cpp",
                                            "build": label, "ops": ops, "first_difference": {"op": ops[oi], "impl": il[oi][:400], "model": got[:400],
                                                                                             "model_input": mtext[mi]}})
                    break
    ctx.cov["traces_validated_against_impl"] += len(done)


def judge_across(ctx, across):
    """blocked = unblocked on doubles: the same recording gives the same forward Jacobian bits on every build (always) and the
    same reverse Jacobian bits (finite multipliers)"""
    for ci, rows in across.items():
        if len(rows) < 2:
            continue
        l0, W0, t0, Jf0, Jr0, fin0, ops0 = rows[0]
        for label, W, t, Jf, Jr, fin, ops in rows[1:]:
            msg = None
            if t != t0:
                msg = "the same program recorded different tapes on builds %s and %s" % (l0, label)
            elif Jf != Jf0:
                d = [i for i in range(min(len(Jf), len(Jf0))) if Jf[i] != Jf0[i]]
                msg = ("binary64: forward Jacobian of the same recording differs between block widths %d (%s) and %d (%s) in cell %s: %s vs %s"
                       % (W0, l0, W, label, d[0] if d else "?", Jf0[d[0]] if d else "", Jf[d[0]] if d else ""))
            elif Jr != Jr0:
                if fin:
                    d = [i for i in range(min(len(Jr), len(Jr0))) if Jr[i] != Jr0[i]]
                    msg = ("binary64: reverse Jacobian of the same recording (finite multipliers) differs between block widths %d (%s) and "
                           "%d (%s) in cell %s: %s vs %s" % (W0, l0, W, label, d[0] if d else "?", Jr0[d[0]] if d else "", Jr[d[0]] if d else ""))
                else:
                    ctx.notes["f_reverse_differs_across_widths_nonfinite"] = ctx.notes.get("f_reverse_differs_across_widths_nonfinite", 0) + 1
            ctx.notes["f_cross_build_comparisons"] = ctx.notes.get("f_cross_build_comparisons", 0) + 1
            if msg:
                ctx.nbad += 1
                if ctx.nbad <= 2:
                    ctx.violation("%s" % msg, {"kind": "oracle", "build": label, "ops": ops, "message": msg})
                break


def run(ctx, replay):
    thms = [NS + t for t in vcheck.prop_theorems("AdeptProofs/Props/C02.lean", "C02_")]
    thms += [NS + t for t in vcheck.prop_theorems("AdeptProofs/Refute/Tape.lean", "C02_refute")]
    fails = vcheck.lean_gate(ctx, ["AdeptProofs.Props.C02", "AdeptProofs.Refute.Tape"], thms, required=[NS + r for r in REQUIRED])
    vs = variants(ctx.tier)
    with ThreadPoolExecutor(max_workers=min(len(vs), 4)) as ex:
        exes = list(ex.map(lambda v: tc.build(**v[1]), vs))
    ctx.pending, ctx.nbad = [], 0
    ncase = 400 if ctx.tier == "quick" else 1500
    nfcase = 150 if ctx.tier == "quick" else 400
    fcases = [] if replay else [gen_fcase(ctx.rng, witness=True)] + [gen_fcase(ctx.rng) for _ in range(nfcase)]
    across = {}
    for (label, kw), exe in zip(vs, exes):
        W = width(kw)
        ctx.curW = W
        if replay:
            r = json.load(open(replay))
            ops = r["ops"]
            il = vcheck.run_impl(exe, [], "\n".join(ops) + "\n")[0]
            print("\n".join("%-40s | %s" % (o, l) for o, l in zip(ops, il)))
            continue
        cases = [gen_case(ctx.rng, W) for _ in range(ncase)]
        run_cases(ctx, exe, label, cases, env=OMP_ENV)
        run_fcases(ctx, exe, label, W, fcases, across)
    judge_across(ctx, across)
    ctx.cov["rule"] = ("random straight-line integer programs (expression trees of height<=2 over + - * neg, copies, compound ops, "
                       "add/append_derivative_dependence, new/delete of actives in non-LIFO order), then independent/dependent lists with "
                       "repeats and intermediates, sizes from {1,2,W-1,W,W+1,2W-1,2W,2W+1,3W+2}; every Jacobian form (3 modes x returned "
                       "Matrix / raw pointer with 4 offset pairs / row-major, column-major, transposed, strided, wrongly sized Matrix "
                       "argument), unit-seeded forward and reverse passes, duality; per build variant. non-trivial: m>1 or n>1; "
                       "distinct: different (build, op list).  binary64 cases: the SAME random programs over non-integer doubles "
                       "(tapecommon.FGen: uniform(-2,2), non-dyadic decimals, 10^+-8, 1e+-160/DBL_MAX/denormals, signed zeros, +-1; 15% "
                       "also Inf/NaN; statements with 0..12 operands, repeated operands, cancelling pairs, lhs among its operands, "
                       "fan-in/fan-out statements) run on every build, m,n from {1..9,11,13,17}; forward/reverse/auto raw-pointer "
                       "Jacobians in two layouts and unit-seeded forward/reverse passes, every number compared as a bit pattern (see "
                       "notes f_*); + the Inf-multiplier witness of the block-wide zero flag")
    ctx.notes["builds"] = [l for l, _ in vs]
    ctx.assumptions += ["integer cases: exact regime only (integer-valued doubles, all intermediates < 2^50; guarded per case, inexact cases skipped and counted)",
                        "forward = reverse is a theorem over commutative rings only (refuted law-free, Refute/Tape.lean); on doubles the check "
                        "counts the cells whose bits differ (notes f_cells_fwd_vs_rev_bits_differ) and judges each routine against its own "
                        "operation-for-operation transcription",
                        "IEEE binary64 + and * of the Lean runtime, of CPython and of the C++ build (-ffp-contract=off, no fast-math) are the same functions"]
    if not ctx.violations:
        for p in ctx.pending[:1]:
            ctx.violation("model and implementation disagree on a tape case (build %s) but every Jacobian/pass result matches the "
                          "product of the statement matrices" % p["build"], p, tag="c", no_input=True)
    if fails and not ctx.violations:
        ctx.violation("proof obligation of C02 no longer checks: " + fails[0][:400],
                      {"kind": "proof", "theorem": "AdeptProofs/Props/C02.lean", "failures": fails}, tag="p", no_input=True)
