"""C10 — a recording can be replayed, re-seeded, paused and restarted without residue.

proof:  lean/AdeptProofs/Props/C10.lean (first seed after clear_gradients forgets everything; passes are functions of
        (tape, seeds) only; Jacobians ignore the working vector; new_recording forgets; paused assignments compute the
        same values and record nothing; add/append_derivative_dependence are the linear statements they describe)
tie:    model AdeptModel/StackProto.lean <-> adept::Stack / Active, exact comparison of every observable on random
        protocol-respecting histories over integer tapes, default and ADEPT_RECORDING_PAUSABLE builds
        histories use the scalar AND the array forms: Stack::independent/dependent(const A* x, n), the free functions
        set_gradients / get_gradients / set_values / get_values on arrays of Active, preallocate_* calls, ActiveReference targets
oracle: Python re-evaluation of every pass from the implementation's own tape dump and the seeds since the last
        clear_gradients (= what a fresh identical recording gives); values against plain integer evaluation
"""
import os, json
from concurrent.futures import ThreadPoolExecutor
import vbuild, vcheck
import tapecommon as tc

LEVEL = "proof"
NS = "Adept.StackProto."
REQUIRED = ["C10_dependence_array_is_statement", "C10_append_array_is_extension", "C10_dependence_array_records",
            "C10_dependence_array_unfolds", "C10_first_seed_forgets", "C10_pass_pure_fwd", "C10_pass_pure_rev", "C10_new_recording_forgets", "C10_pause_noop",
            "C10_dependence_is_statement", "C10_append_dependence", "C10_lists_array_is_repeated", "C10_set_gradients_array_is_seeds",
            "C10_set_gradients_array_stops", "C10_get_gradients_array"]


def gen_case(rng, W, pausable):
    g = tc.Gen(rng, pausable=pausable, array_forms=True)
    g.emit("cfg %d %d 1" % (W, 1 if pausable else 0))
    for _ in range(rng.randint(2, 4)):
        g.new()
    q = []
    nseg = rng.randint(1, 3)
    for seg in range(nseg):
        # pausable build: sometimes new_recording() is called WHILE recording is paused — it must not resume recording
        pre_paused = pausable and rng.random() < 0.35
        if pre_paused:
            g.paused = True; g.emit("pause")
        g.emit("nr")
        q.append(("empty", len(g.ops), None)); g.emit("tape")
        if pre_paused:
            for _ in range(rng.randint(1, 4)):
                g.statement()
            g.emit("tape"); g.emit("cont"); g.paused = False
        q.append(("nolists", len(g.ops), None)); g.emit("jac auto mat")
        g.program(rng.randint(2, 18))
        # values are those of plain evaluation (also across paused stretches)
        for k in list(g.live):
            q.append(("val", len(g.ops), g.live[k])); g.emit("val %d" % k)
        # ... also read n at once with the free function get_values(const Active* a, n, data) (n = 0 now and then)
        hs = [rng.choice(list(g.live)) for _ in range(rng.choice([0, 1, 2, 3, 5]))]
        q.append(("valn", len(g.ops), [g.live[k] for k in hs])); g.emit(("getvn " + " ".join(map(str, hs))).rstrip())
        ti = len(g.ops); g.emit("tape")
        for rnd in range(rng.randint(2, 5)):
            kind = rng.choice(["fwd", "rev", "jac", "fwd", "rev"])
            live = list(g.live)
            if kind in ("fwd", "rev"):
                g.emit("clrg")
                seeds = [(rng.choice(live), rng.randint(-3, 3)) for _ in range(rng.randint(1, 3))]
                tc.emit_seeds(g, rng, seeds)       # set_gradient one by one, or set_gradients(Active* a, n, data)
                g.emit(kind)
                for k in rng.sample(live, min(len(live), 4)):
                    q.append(("pass", len(g.ops), (ti, kind, list(seeds), k))); g.emit("get %d" % k)
                if rng.random() < 0.6:
                    # the free function get_gradients(const Active* a, n, data): n gradients at once (repeats allowed, n = 0 rarely)
                    ks = [rng.choice(live) for _ in range(rng.choice([0, 1, 2, 3, 3, 5]))]
                    q.append(("passn", len(g.ops), (ti, kind, list(seeds), ks))); g.emit(("getgn " + " ".join(map(str, ks))).rstrip())
            else:
                g.emit("clri"); g.emit("clrd")
                n, m = rng.randint(1, 5), rng.randint(1, 5)
                indep, dep = tc.pick_lists(rng, g, n, m)
                tc.emit_lists(g, rng, indep, dep)   # scalar forms and Stack::independent/dependent(const A* x, n)
                q.append(("jac", len(g.ops), (ti, indep, dep))); g.emit("jac %s mat" % rng.choice(["auto", "fwd", "rev"]))
        # the recording is still what it was
        q.append(("sametape", len(g.ops), ti)); g.emit("tape")
        # true derivatives w.r.t. the variables that were alive at this new_recording (independent textbook
        # forward-mode oracle): later derivatives depend only on what executed after new_recording
        if not pausable:
            g.emit("clri"); g.emit("clrd")
            outs = list(g.live)
            tc.emit_lists(g, rng, outs, outs)
            q.append(("true", len(g.ops), outs)); g.emit("jac %s mat" % rng.choice(["auto", "fwd", "rev"]))
    g.emit("clrg")
    return g.ops, {"queries": q, "pausable": pausable}


def oracle_case(ops, meta, il):
    idx = {}
    for o, l in zip(ops, il):
        w = o.split()
        if w[0] in ("new", "newd", "newc") and l.startswith("ok "):
            idx[int(w[1])] = int(l.split()[1])
    # paused stretches record nothing: the tape dumps emitted right after `pause` and right before `cont` agree, and no
    # operation of a paused stretch may raise (values are computed exactly as when recording, nothing else happens)
    paused = False
    for i, o in enumerate(ops):
        if o == "pause":
            paused = True
        elif o == "cont":
            paused = False
        elif paused and il[i].startswith("EXC"):
            return "op %d (%s) raised %s while recording was paused" % (i, o, il[i][4:])
    last_pause_tape = None
    for i, o in enumerate(ops):
        if o == "pause":
            j = i + 1
            while j < len(ops) and ops[j] != "tape":     # (a new_recording may come between `pause` and the tape dump)
                j += 1
            last_pause_tape = il[j] if j < len(il) else None
        elif o == "cont" and last_pause_tape is not None:
            if il[i - 1] != last_pause_tape:
                return "statements were recorded while recording was paused: %r -> %r" % (last_pause_tape[:120], il[i - 1][:120])
            last_pause_tape = None
    tapes = {}
    for kind, oi, info in meta["queries"]:
        line = il[oi]
        if kind == "empty":
            if line.strip() != "T 1 0 |":
                return "op %d: recording not empty after new_recording: %r" % (oi, line[:160])
        elif kind == "nolists":
            if line != "EXC dependents_or_independents_not_identified":
                return "op %d: independent/dependent lists survived new_recording: %r" % (oi, line[:160])
        elif kind == "val":
            if line != "v %d" % info:
                return "op %d (%s): value %r, plain evaluation gives %d" % (oi, ops[oi], line, info)
        elif kind == "valn":
            if line.split() != ["V"] + [str(v) for v in info]:
                return "op %d (%s): get_values gave %r, plain evaluation gives %s" % (oi, ops[oi], line, info)
        elif kind == "sametape":
            if line != il[info]:
                return "op %d: the recording changed during derivative passes" % oi
        elif kind == "true":
            de = tc.dual_eval(ops[:oi], il[:oi])
            if de is not None:
                env, inputs = de
                outs = info
                p = tc.parse_J(line)
                if p is None or len(p[0]) != len(outs):
                    return "op %d (%s): expected a Jacobian, got %r" % (oi, ops[oi], line[:200])
                for r, y in enumerate(outs):
                    if tc.UNDEF in env[y][1]:
                        continue
                    for c, x in enumerate(outs):
                        if x not in inputs:
                            continue   # created after new_recording: not an input of this recording
                        if p[0][r][c] != env[y][1].get(x, 0):
                            return ("op %d (%s): d x%d / d x%d = %d, textbook forward-mode evaluation of what executed after "
                                    "new_recording gives %d" % (oi, ops[oi], y, x, p[0][r][c], env[y][1].get(x, 0)))
        elif kind in ("pass", "passn", "jac"):
            ti = info[0]
            if ti not in tapes:
                try:
                    tapes[ti] = tc.parse_tape(il[ti])
                except Exception:
                    return "unparsable tape line %r" % il[ti][:200]
                if tc.tape_abs_bound(tapes[ti], set(idx.values())) * 64 >= tc.EXACT_BOUND:
                    return "skip"
            tape = tapes[ti]
            if kind == "passn":
                _, pk, seeds, ks = info
                g = {}
                for h, v in seeds:
                    g[idx[h]] = v
                g = tc.tape_fwd(tape, g) if pk == "fwd" else tc.tape_rev(tape, g)
                exp = ["G"] + [str(g.get(idx[k], 0)) for k in ks]
                if line.split() != exp:
                    return ("op %d (%s after %s with seeds %s): get_gradients on the array gave %r, a fresh identical recording gives %s"
                            % (oi, ops[oi], pk, seeds, line, " ".join(exp)))
            elif kind == "pass":
                _, pk, seeds, k = info
                g = {}
                for h, v in seeds:
                    g[idx[h]] = v
                g = tc.tape_fwd(tape, g) if pk == "fwd" else tc.tape_rev(tape, g)
                if line != "g %d" % g.get(idx[k], 0):
                    return ("op %d (%s after %s with seeds %s): %r, a fresh identical recording gives %d" %
                            (oi, ops[oi], pk, seeds, line, g.get(idx[k], 0)))
            else:
                _, indep, dep = info
                J = tc.jac_from_tape(tape, [idx[k] for k in indep], [idx[k] for k in dep])
                p = tc.parse_J(line)
                if p is None or p[0] != J:
                    return "op %d (%s): Jacobian %r, a fresh identical recording gives %s" % (oi, ops[oi], line[:200], J)
    return None


def run_cases(ctx, exe, label, cases):
    text = "".join("\n".join(ops) + "\n" for ops, _ in cases)
    impl, model, rc, err = tc.run_pair(exe, text)
    pos = 0
    for ops, meta in cases:
        il, ml = impl[pos:pos + len(ops)], model[pos:pos + len(ops)]
        pos += len(ops)
        if len(il) < len(ops):
            ctx.violation("implementation stopped on a protocol history (%s): rc=%s %s" % (label, rc, vcheck.san_summary(err)),
                          {"kind": "crash", "build": label, "ops": ops, "stderr": err[-3000:], "impl": il})
            break
        verdict = oracle_case(ops, meta, il)
        if verdict == "skip":
            ctx.notes["skipped_inexact"] = ctx.notes.get("skipped_inexact", 0) + 1
            continue
        npass = sum(1 for k, _, _ in meta["queries"] if k in ("pass", "passn", "jac"))
        ctx.count_case((label, tuple(ops)), nontrivial=npass >= 2,
                       sample={"build": label, "ops": ops[:16] + ["..."], "n_ops": len(ops)})
        for o in ops:
            w = o.split()[0]
            ctx.notes.setdefault("op_mix", {})
            ctx.notes["op_mix"][w] = ctx.notes["op_mix"].get(w, 0) + 1
        if verdict is not None:
            ctx.nbad += 1
            if ctx.nbad <= 2:
                ctx.violation("%s [build %s]" % (verdict, label), {"kind": "oracle", "build": label, "ops": ops, "impl": il, "message": verdict})
        else:
            d = vcheck.first_diff(il, ml)
            if d is not None:
                ctx.cov["disagreements_checked"] += 1
                if len(ctx.pending) < 2:
                    ctx.pending.append({"kind": "correspondence", "correspondence": "AdeptModel/StackProto.lean <-> adept::Stack protocol",
                                        "build": label, "ops": ops, "first_difference": {"op": ops[d], "impl": il[d], "model": ml[d]}})
    ctx.cov["traces_validated_against_impl"] += len(cases)


def run(ctx, replay):
    thms = [NS + t for t in vcheck.prop_theorems("AdeptProofs/Props/C10.lean", "C10_")]
    fails = vcheck.lean_gate(ctx, ["AdeptProofs.Props.C10"], thms, required=[NS + r for r in REQUIRED])
    vs = [("W4", dict(W=4)), ("W4-pausable", dict(W=4, pausable=True))]
    if ctx.tier == "thorough":
        vs += [("W3", dict(W=3)), ("sse2-pausable", dict(packets="sse2", pausable=True))]
    with ThreadPoolExecutor(max_workers=len(vs)) as ex:
        exes = list(ex.map(lambda v: tc.build(**v[1]), vs))
    ctx.pending, ctx.nbad = [], 0
    ncase = 1500 if ctx.tier == "quick" else 6000
    for (label, kw), exe in zip(vs, exes):
        W = tc.PACKET_W[kw["packets"]] if kw.get("packets") else kw["W"]
        if replay:
            r = json.load(open(replay))
            il = vcheck.run_impl(exe, [], "\n".join(r["ops"]) + "\n")[0]
            print("\n".join("%-40s | %s" % (o, l) for o, l in zip(r["ops"], il)))
            continue
        cases = [gen_case(ctx.rng, W, bool(kw.get("pausable"))) for _ in range(ncase)]
        run_cases(ctx, exe, label, cases)
    ctx.cov["rule"] = ("random protocol-respecting histories: 1-3 recordings (new_recording, program with all scalar statement forms, "
                       "add/append_derivative_dependence, new/delete, pause/continue in the pausable build), each followed by 2-5 rounds of "
                       "{clear_gradients; seeds; forward|reverse; reads} or {clear lists; new lists; Jacobian}; non-trivial = at least two "
                       "passes over one recording; distinct = different (build, op list)")
    ctx.notes["builds"] = [l for l, _ in vs]
    ctx.assumptions += ["passes are separated by clear_gradients as the protocol says (accumulating passes are not covered)",
                        "objects that are assigned while paused carry stale derivative information afterwards; that is the documented "
                        "meaning of pausing and is not judged"]
    if not ctx.violations:
        for p in ctx.pending[:1]:
            ctx.violation("model and implementation disagree on a protocol history (build %s) although every pass matches a fresh "
                          "evaluation of the implementation's own tape" % p["build"], p, tag="c", no_input=True)
    if fails and not ctx.violations:
        ctx.violation("proof obligation of C10 no longer checks: " + fails[0][:400],
                      {"kind": "proof", "theorem": "AdeptProofs/Props/C10.lean", "failures": fails}, tag="p", no_input=True)
