"""Generator of scalar Active<double> programs for C01 (used by checks/c01.py).

A program is a list of statements over handles; expressions are small ASTs:
  ("v", h) | ("u", UFunName, e) | ("b", BOpName, e1, e2) | ("l", BOpName, scalar, e) | ("r", BOpName, scalar, e)
  | ("q", scalar, e) | ("n", e)            scalar = ("d", float) | ("i", int)
Every program is generated together with its values at NPTS input points (Python floats); operations are only
applied where all points are inside the open domain with a margin, and a first-order bound `dis` (in ulps) on the
discrepancy between the recorded value (Adept computes a/b as a*(1/b)) and the plain-double value is propagated
so that ill-conditioned programs are rejected rather than judged with a loose tolerance.

Emitters: token lines for the Lean model (family `expr`), C++ for Adept, C++ for the Dual oracle.
"""
import math, struct

NPTS = 3
BIG = 1.0e6
DIS_MAX = 16.0

# name of the generated UFun constructor -> (C++ function name, python function)
def _round_half_away(x):
    return math.floor(x + 0.5) if x >= 0 else math.ceil(x - 0.5)


def _rint(x):
    return float(round(x))          # python round(): ties to even


UNARY = {
    "Log": "log", "Log10": "log10", "Sin": "sin", "Cos": "cos", "Tan": "tan", "Asin": "asin", "Acos": "acos",
    "Atan": "atan", "Sinh": "sinh", "Cosh": "cosh", "Abs": "abs", "Fabs": "fabs", "Sqrt": "sqrt", "Tanh": "tanh",
    "Fastexp": "fastexp", "Exp": "exp", "Ceil": "ceil", "Floor": "floor", "Log2": "log2", "Expm1": "expm1",
    "Exp2": "exp2", "Log1p": "log1p", "Asinh": "asinh", "Acosh": "acosh", "Atanh": "atanh", "Erf": "erf",
    "Erfc": "erfc", "Cbrt": "cbrt", "Round": "round", "Trunc": "trunc", "Rint": "rint", "Nearbyint": "nearbyint",
    "UnaryPlus": "+", "UnaryMinus": "-",
}
PYF = {
    "Log": math.log, "Log10": math.log10, "Sin": math.sin, "Cos": math.cos, "Tan": math.tan, "Asin": math.asin,
    "Acos": math.acos, "Atan": math.atan, "Sinh": math.sinh, "Cosh": math.cosh, "Abs": abs, "Fabs": abs,
    "Sqrt": math.sqrt, "Tanh": math.tanh, "Fastexp": math.exp, "Exp": math.exp, "Ceil": lambda x: float(math.ceil(x)),
    "Floor": lambda x: float(math.floor(x)), "Log2": math.log2, "Expm1": math.expm1, "Exp2": lambda x: 2.0 ** x,
    "Log1p": math.log1p, "Asinh": math.asinh, "Acosh": math.acosh, "Atanh": math.atanh, "Erf": math.erf,
    "Erfc": math.erfc, "Cbrt": lambda x: math.copysign(abs(x) ** (1.0 / 3.0), x),
    "Round": lambda x: float(_round_half_away(x)), "Trunc": lambda x: float(math.trunc(x)), "Rint": _rint,
    "Nearbyint": _rint, "UnaryPlus": lambda x: x, "UnaryMinus": lambda x: -x,
}
# |x f'(x) / f(x)|-style amplification of a relative input discrepancy (None: piecewise constant -> 0)
STAIR = ("Ceil", "Floor", "Round", "Trunc", "Rint", "Nearbyint")
EXACT_UNARY = ("Sqrt", "Abs", "Fabs", "UnaryPlus", "UnaryMinus") + STAIR     # correctly rounded / exact in IEEE
BINARY = ["Add", "Subtract", "Multiply", "Divide", "Pow", "Atan2", "Max", "Min"]
SCALAR_RHS = ["Add", "Subtract", "Multiply", "Pow", "Max", "Min"]          # Expr∘scalar forms that exist (+ `q`)
CPP_BIN = {"Add": "+", "Subtract": "-", "Multiply": "*", "Divide": "/"}
CPP_BINF = {"Pow": ["pow"], "Atan2": ["atan2"], "Max": ["max", "fmax"], "Min": ["min", "fmin"]}


def bits(x):
    return struct.unpack(">Q", struct.pack(">d", float(x)))[0]


def hx(x):
    return "%016x" % bits(x)


def cxx_double(x):
    s = float(x).hex()
    return "(%s)" % s if x < 0 or s.startswith("-") else s


# ----------------------------------------------------------------------------- domain predicates
def dom_unary(f, x):
    """is x inside the open domain of f with a margin that keeps the derivative well conditioned"""
    ax = abs(x)
    if f in ("Log", "Log10", "Log2", "Sqrt"):
        return 1e-2 < x < BIG
    if f in ("Asin", "Acos", "Atanh"):
        return ax < 0.9
    if f == "Acosh":
        return 1.1 < x < BIG
    if f == "Tan":
        return abs(math.cos(x)) > 0.1 and ax < 50
    if f in ("Sin", "Cos"):
        return ax < 50
    if f in ("Abs", "Fabs", "Cbrt"):
        return 1e-2 < ax < BIG
    if f in STAIR:
        fr = x - math.floor(x)
        return ax < 1e4 and min(fr, 1 - fr) > 0.02 and abs(fr - 0.5) > 0.02
    if f == "Log1p":
        return -0.9 < x < BIG
    if f in ("Exp", "Fastexp", "Expm1", "Exp2", "Sinh", "Cosh"):
        return ax < 10
    if f in ("Erf", "Erfc"):
        return ax < 3
    if f in ("Tanh",):
        # Adept's derivative entry is 1 - result*result: for larger |x| the subtraction cancels and the multiplier
        # loses relative accuracy like 2 r^2/(1-r^2) eps (1e4 eps at |x| = 5); kept where the amplification is < 10
        return ax < 1.5
    return ax < BIG          # Atan Asinh UnaryPlus UnaryMinus


def cond_unary(f, x, y):
    """|x f'(x)/f(x)| (amplification of a relative discrepancy of the argument)"""
    if f in STAIR:
        return 0.0
    h = max(abs(x) * 1e-6, 1e-9)
    try:
        d = (PYF[f](x + h) - PYF[f](x - h)) / (2 * h)
    except (ValueError, OverflowError):
        return float("inf")
    if y == 0:
        return float("inf") if d * x != 0 else 0.0
    return abs(x * d / y)


class Reject(Exception):
    pass


CMP_PY = {"<": lambda a, b: a < b, ">": lambda a, b: a > b, "<=": lambda a, b: a <= b, ">=": lambda a, b: a >= b,
          "==": lambda a, b: a == b, "!=": lambda a, b: a != b}


TRK = [0.0] * NPTS      # largest discrepancy bound met at each point while building the current program


class Val:
    """value of a node at the NPTS points + discrepancy bound (ulps) per point"""
    __slots__ = ("v", "dis")

    def __init__(self, v, dis=None):
        self.v = list(v)
        self.dis = list(dis) if dis is not None else [0.0] * len(self.v)


def ok_mag(x):
    return x == 0.0 or (1e-6 < abs(x) < BIG)


def ev_unary(f, a):
    v, dis = [], []
    for x, dx in zip(a.v, a.dis):
        if not dom_unary(f, x):
            raise Reject()
        y = PYF[f](x)
        if not ok_mag(y) or (y == 0.0 and f not in STAIR):
            raise Reject()
        d = cond_unary(f, x, y) * dx + (1.0 if dx > 0 else 0.0)
        if d > DIS_MAX:
            raise Reject()
        v.append(y); dis.append(d)
    for i, d in enumerate(dis):
        TRK[i] = max(TRK[i], d)
    return Val(v, dis)


def ev_binary(op, a, b, tie_ok=False, a_active=True, b_active=True):
    v, dis = [], []
    for x, dx, y, dy in zip(a.v, a.dis, b.v, b.dis):
        extra = 1.0 if (dx > 0 or dy > 0) else 0.0
        if op == "Add" or op == "Subtract":
            z = x + y if op == "Add" else x - y
            if z == 0.0:
                d = 0.0 if (dx == 0 and dy == 0) else float("inf")
            else:
                d = (abs(x) * dx + abs(y) * dy) / abs(z) + extra
        elif op == "Multiply":
            z = x * y; d = dx + dy + extra
        elif op == "Divide":
            if abs(y) < 1e-2:
                raise Reject()
            z = x / y
            d = dx + dy + (1.5 if b_active or True else 0.0)      # a*(1/b) vs a/b
        elif op == "Pow":
            if b_active:
                if not (1e-2 < x < 1e3) or abs(y) > 8:
                    raise Reject()
            else:
                # passive exponent: negative bases are fine for integer exponents
                if y != math.floor(y):
                    if not (1e-2 < x < 1e3):
                        raise Reject()
                elif abs(x) < 1e-2:
                    raise Reject()
                if abs(y) > 8 or abs(x) > 1e3:
                    raise Reject()
            try:
                z = math.pow(x, y)
            except (ValueError, OverflowError):
                raise Reject()
            d = abs(y) * dx + (abs(y * math.log(abs(x))) * dy if x != 1 else 0.0) + extra
        elif op == "Atan2":
            r2 = x * x + y * y
            if r2 < 1e-2 or r2 > BIG:
                raise Reject()
            if y < 0 and abs(x) < 1e-6:
                raise Reject()          # on the branch cut the sign of a zero (e.g. nearbyint(-0.4) = -0.0) decides between +pi and -pi
            z = math.atan2(x, y)
            if abs(z) < 1e-3:
                raise Reject()
            d = (abs(x * y) / r2) * (dx + dy) / abs(z) + extra
        elif op in ("Max", "Min"):
            if x == y:
                if not tie_ok:
                    raise Reject()
            elif abs(x - y) <= 1e-3 * max(abs(x), abs(y), 1.0):
                raise Reject()          # near-tie: the branch could differ between the two evaluations
            if op == "Max":
                z, d = (x, dx) if x > y else (y, dy)
            else:
                z, d = (x, dx) if x <= y else (y, dy)
        else:
            raise AssertionError(op)
        if not ok_mag(z) or d > DIS_MAX:
            raise Reject()
        v.append(z); dis.append(d)
    for i, d in enumerate(dis):
        TRK[i] = max(TRK[i], d)
    return Val(v, dis)


# ----------------------------------------------------------------------------- program generator
class ProgGen:
    def __init__(self, rng, supported_only, unsupported, max_stmts=30, max_depth=5, exact_only=False):
        self.rng = rng
        self.unary_pool = [f for f in UNARY if not (supported_only and f in unsupported)]
        self.binary_pool = list(BINARY)
        self.rhs_pool = SCALAR_RHS + ["Divide"]
        if not supported_only:
            # make the functions the Float model cannot reproduce frequent in the programs that may use them
            self.unary_pool += [f for f in UNARY if f in unsupported] * 4
        if exact_only:
            self.unary_pool = list(EXACT_UNARY)
            self.binary_pool = ["Add", "Subtract", "Multiply", "Divide", "Max", "Min"]
            self.rhs_pool = ["Add", "Subtract", "Multiply", "Max", "Min", "Divide"]
        self.max_stmts, self.max_depth = max_stmts, max_depth
        self.vals = {}          # handle -> Val (live, initialised)
        self.uninit = set()     # default-constructed, not yet assigned
        self.nxt = 0
        self.stmts = []
        self.inputs = []        # handles of the inputs (created before new_recording)
        self.last_lhs = None
        self.used = {"unary": {}, "binary": {}, "kinds": {}, "stmts": {}}
        self.ties = 0

    def note(self, cat, key):
        self.used[cat][key] = self.used[cat].get(key, 0) + 1

    # ---- scalars
    def scalar(self, want=None):
        r = self.rng
        if r.random() < 0.3:
            c = r.choice([-3, -2, -1, 1, 2, 3, 4]) if want is None else want
            return ("i", int(c)), float(c)
        c = r.choice([0.5, 1.5, 2.0, 2.5, -0.75, 0.3, 1.25, -1.5, 3.0, 0.1, 0.7]) if r.random() < 0.6 else round(r.uniform(-3, 3), 3)
        if c == 0:
            c = 0.5
        return ("d", float(c)), float(c)

    def const_val(self, c):
        return Val([c] * NPTS)

    # ---- expressions
    def leaf(self):
        h = self.rng.choice(sorted(self.vals))
        return ("v", h), self.vals[h]

    def expr(self, depth):
        """-> (ast, Val) with at least one active leaf; raises Reject when unlucky"""
        r = self.rng
        plan = getattr(self, "plan", None)
        if plan:
            # directed programs (directed_programs): the shape of the expression is prescribed, pre-order
            d = plan.pop(0)
            if d[0] == "leaf":
                return self.leaf()
            if d[0] == "u":
                f = d[1]
                a, va = self.expr(depth - 1)
                a, va = self.adapt(f, a, va)
                self.note("unary", f)
                return ("u", f, a), ev_unary(f, va)
            if d[0] == "b":
                op = d[1]
                a, va = self.expr(depth - 1)
                b, vb = self.expr(depth - 1)
                a, va, b, vb = self.adapt2(op, a, va, b, vb)
                self.note("binary", op); self.note("kinds", "active∘active")
                return ("b", op, a, b), ev_binary(op, va, vb)
            if d[0] == "l":
                op = d[1]
                c, cv = self.scalar()
                b, vb = self.expr(depth - 1)
                va = self.const_val(cv)
                _, _, b, vb = self.adapt2(op, None, va, b, vb)
                self.note("binary", op); self.note("kinds", "passive(%s)∘active" % ("int" if c[0] == "i" else "double"))
                return ("l", op, c, b), ev_binary(op, va, vb, a_active=False)
            if d[0] == "r":
                op = d[1]
                c, cv = self.scalar()
                a, va = self.expr(depth - 1)
                vb = self.const_val(cv)
                a, va, _, _ = self.adapt2(op, a, va, None, vb)
                self.note("binary", op)
                if op == "Divide":
                    self.note("kinds", "active/passive(%s)" % ("int" if c[0] == "i" else "double"))
                    return ("q", c, a), ev_binary("Divide", va, vb, b_active=False)
                self.note("kinds", "active∘passive(%s)" % ("int" if c[0] == "i" else "double"))
                return ("r", op, c, a), ev_binary(op, va, vb, b_active=False)
            raise AssertionError(d)
        if depth <= 0 or r.random() < 0.18:
            return self.leaf()
        x = r.random()
        if x < 0.34:
            f = r.choice(self.unary_pool)
            a, va = self.expr(depth - 1)
            a, va = self.adapt(f, a, va)
            v = ev_unary(f, va)
            self.note("unary", f)
            return ("u", f, a), v
        if x < 0.62:
            op = r.choice(self.binary_pool)
            a, va = self.expr(depth - 1)
            b, vb = self.expr(depth - 1)
            tie = False
            if op in ("Max", "Min") and r.random() < 0.15:
                b, vb = a, va           # exact tie (both arms the same expression)
                tie = True
            a, va, b, vb = self.adapt2(op, a, va, b, vb)
            v = ev_binary(op, va, vb, tie_ok=tie)
            if tie:
                self.ties += 1
            self.note("binary", op); self.note("kinds", "active∘active")
            return ("b", op, a, b), v
        if x < 0.78:
            op = r.choice(self.binary_pool)
            c, cv = self.scalar()
            b, vb = self.expr(depth - 1)
            va = self.const_val(cv)
            _, _, b, vb = self.adapt2(op, None, va, b, vb)
            v = ev_binary(op, va, vb, a_active=False)
            self.note("binary", op); self.note("kinds", "passive(%s)∘active" % ("int" if c[0] == "i" else "double"))
            return ("l", op, c, b), v
        if x < 0.94:
            op = r.choice(self.rhs_pool)
            c, cv = self.scalar()
            a, va = self.expr(depth - 1)
            vb = self.const_val(cv)
            a, va, _, _ = self.adapt2(op, a, va, None, vb)
            if op == "Divide":
                v = ev_binary("Divide", va, vb, b_active=False)
                self.note("binary", "Divide"); self.note("kinds", "active/passive(%s)" % ("int" if c[0] == "i" else "double"))
                return ("q", c, a), v
            v = ev_binary(op, va, vb, b_active=False)
            self.note("binary", op); self.note("kinds", "active∘passive(%s)" % ("int" if c[0] == "i" else "double"))
            return ("r", op, c, a), v
        a, va = self.expr(depth - 1)
        self.note("kinds", "noalias")
        return ("n", a), va

    def adapt(self, f, a, va):
        """steer the argument into the domain of f when it is not already there"""
        if all(dom_unary(f, x) for x in va.v):
            return a, va
        r = self.rng
        if f in ("Log", "Log10", "Log2", "Sqrt", "Log1p"):
            c = r.choice([0.5, 1.0, 2.0])
            if r.random() < 0.5:
                a2 = ("r", "Add", ("d", c), ("b", "Multiply", a, a)); v2 = ev_binary("Add", ev_binary("Multiply", va, va), self.const_val(c), b_active=False)
            else:
                a2 = ("r", "Add", ("d", c), ("u", "Fabs", a)); v2 = ev_binary("Add", ev_unary("Fabs", va), self.const_val(c), b_active=False)
            return a2, v2
        if f in ("Asin", "Acos", "Atanh"):
            g = r.choice(["Sin", "Tanh", "Cos"])
            a2 = ("l", "Multiply", ("d", 0.8), ("u", g, a)); v2 = ev_binary("Multiply", self.const_val(0.8), ev_unary(g, va), a_active=False)
            return a2, v2
        if f == "Acosh":
            a2 = ("r", "Add", ("d", 1.5), ("b", "Multiply", a, a)); v2 = ev_binary("Add", ev_binary("Multiply", va, va), self.const_val(1.5), b_active=False)
            return a2, v2
        if f in ("Exp", "Fastexp", "Expm1", "Exp2", "Sinh", "Cosh", "Erf", "Erfc", "Tanh"):
            g = r.choice(["Sin", "Atan", "Tanh"])
            return ("u", g, a), ev_unary(g, va)
        if f in STAIR:
            c = r.choice([0.3, 0.2, 0.7, 0.15])
            a2 = ("r", "Add", ("d", c), a); v2 = ev_binary("Add", va, self.const_val(c), b_active=False)
            return a2, v2
        return a, va

    def adapt2(self, op, a, va, b, vb):
        r = self.rng
        if op == "Divide" and b is not None and any(abs(y) < 1e-2 for y in vb.v):
            b2 = ("r", "Add", ("d", 1.0), ("b", "Multiply", b, b)); vb = ev_binary("Add", ev_binary("Multiply", vb, vb), self.const_val(1.0), b_active=False)
            b = b2
        if op == "Pow" and a is not None and b is not None and any(not (1e-2 < x < 1e3) for x in va.v):
            a2 = ("r", "Add", ("d", 0.5), ("u", "Fabs", a)); va = ev_binary("Add", ev_unary("Fabs", va), self.const_val(0.5), b_active=False)
            a = a2
        return a, va, b, vb

    def try_expr(self, depth):
        for _ in range(60):
            snap = (dict(self.used["unary"]), dict(self.used["binary"]), dict(self.used["kinds"]), self.ties)
            trk = list(TRK)
            try:
                return self.expr(depth)
            except (Reject, ValueError, OverflowError, ZeroDivisionError):
                self.used["unary"], self.used["binary"], self.used["kinds"], self.ties = snap
                TRK[:] = trk
        return self.leaf()

    # ---- statements
    def new_handle(self):
        h = self.nxt; self.nxt += 1
        return h

    def emit(self, st):
        self.stmts.append(st)
        self.note("stmts", st[0])

    def gen_inputs(self, n):
        r = self.rng
        for _ in range(n):
            h = self.new_handle()
            pts = []
            for _ in range(NPTS):
                x = r.choice([r.uniform(0.2, 2.5), r.uniform(-2.5, -0.2), r.uniform(0.3, 0.9), r.uniform(1.1, 4.0)])
                pts.append(float(x))
            self.vals[h] = Val(pts)
            self.inputs.append(h)
            self.emit(("input", h, pts))
        self.emit(("nr",))

    def statement(self):
        r = self.rng
        live = sorted(self.vals)
        x = r.random()
        depth = r.choice([1, 2, 2, 3, 3, 4, self.max_depth])
        if x < 0.04:
            h = self.new_handle(); c = round(r.uniform(-2, 2), 2) or 0.5
            self.vals[h] = self.const_val(float(c)); self.emit(("new", h, float(c))); self.last_lhs = h
        elif x < 0.08:
            h = self.new_handle(); self.uninit.add(h); self.emit(("newd", h))
        elif x < 0.18:
            e, v = self.try_expr(depth if r.random() < 0.6 else 0)      # expression or copy constructor
            h = self.new_handle(); self.vals[h] = v; self.emit(("newe", h, e)); self.last_lhs = h
        elif x < 0.24 and len(live) > 2:
            cands = [h for h in live[:-1]]                              # not the newest: non-LIFO
            h = r.choice(cands)
            del self.vals[h]; self.emit(("del", h))
            if self.last_lhs == h:
                self.last_lhs = None
        elif x < 0.27 and self.uninit and r.random() < 0.3:
            h = r.choice(sorted(self.uninit)); self.uninit.discard(h); self.emit(("del", h))
        elif x < 0.29:
            h = r.choice(live); c = round(r.uniform(-2, 2), 2) or 0.5
            self.vals[h] = self.const_val(float(c)); self.emit(("setp", h, float(c))); self.last_lhs = h
        elif x < 0.45:
            h = r.choice(live)
            op = r.choice(["Add", "Subtract", "Multiply", "Divide"])
            for _ in range(20):
                e, v = self.try_expr(min(depth, 3))
                try:
                    nv = ev_binary(op, self.vals[h], v)
                except Reject:
                    continue
                self.vals[h] = nv; self.emit(("cop", h, op, e)); self.last_lhs = h
                self.note("binary", op); self.note("kinds", "compound active")
                break
        elif x < 0.55:
            h = r.choice(live)
            o = r.choice(["add", "sub", "mul", "div"])
            c, cv = self.scalar()
            try:
                nv = ev_binary({"add": "Add", "sub": "Subtract", "mul": "Multiply", "div": "Divide"}[o], self.vals[h], self.const_val(cv), b_active=False)
            except Reject:
                return
            self.vals[h] = nv; self.emit(("copp", h, o, c))
            self.note("kinds", "compound passive " + o)
            if o in ("mul", "div"):
                self.last_lhs = h
        elif x < 0.60:
            h = r.choice(live); i = r.choice(live); m = r.choice([0.0, 1.5, -2.0, 0.25, round(r.uniform(-2, 2), 2)])
            # declares d[h] = m d[i]; the value of h is unchanged
            self.emit(("adep", h, i, float(m))); self.last_lhs = h
        elif x < 0.64 and self.last_lhs in self.vals:
            cands = [i for i in live if i != self.last_lhs]
            if cands:
                i = r.choice(cands); m = r.choice([0.0, 0.5, -1.25, round(r.uniform(-2, 2), 2)])
                self.emit(("apdep", self.last_lhs, i, float(m)))
        elif x < 0.70:
            # nested temporary: x = outer(adouble(inner))
            inner, vi = self.try_expr(min(depth, 2))
            t = 900000 + len(self.stmts)
            self.vals[t] = vi
            try:
                outer, vo = None, None
                for _ in range(30):
                    e, v = self.try_expr(2)
                    if self.mentions(e, t):
                        outer, vo = e, v
                        break
                if outer is None:
                    f = r.choice(["Sin", "Atan", "UnaryMinus", "Tanh"])
                    outer = ("b", "Multiply", ("u", f, ("v", t)), self.leaf()[0])
                    vo = ev_binary("Multiply", ev_unary(f, vi), self.vals[outer[3][1]])
            except Reject:
                del self.vals[t]
                return
            del self.vals[t]
            cand = live + sorted(self.uninit)
            h = r.choice(cand); self.uninit.discard(h)
            self.vals[h] = vo; self.emit(("asgt", h, t, inner, outer)); self.last_lhs = h
        elif x < 0.78:
            # branch on a comparison that involves an active scalar: `if (L OP R) h = e1; else h = e2;` with every operand-kind
            # combination of the comparison operators (active OP active, active OP passive, passive OP active, expressions).
            # The recorded program is the straight-line trace of the branch taken at each input point.
            op = r.choice(["<", ">", "<=", ">=", "<", ">", "==", "!="])
            kind = r.choice(["aa", "ap", "pa", "pa", "ea", "pe", "ep"])
            def side(k):
                if k == "a":
                    e, v = self.leaf(); return ("e", e), v
                if k == "e":
                    e, v = self.try_expr(2); return ("e", e), v
                c, cv = self.scalar(); return ("c", c), self.const_val(cv)
            (L, vL), (R, vR) = side(kind[0]), side(kind[1])
            if kind[1] == "p" or kind[0] == "p":
                # put the passive threshold between the values the active side takes, so that both branches are taken
                act = vR if kind[0] == "p" else vL
                lo, hi = min(act.v), max(act.v)
                if hi - lo > 1e-2:
                    cv = round(r.uniform(lo, hi), 3)
                    if cv == int(cv):
                        cv += 0.125
                    if kind[0] == "p":
                        L, vL = ("c", ("d", float(cv))), self.const_val(float(cv))
                    else:
                        R, vR = ("c", ("d", float(cv))), self.const_val(float(cv))
            for a_, b_ in zip(vL.v, vR.v):
                if abs(a_ - b_) <= 1e-3 * max(abs(a_), abs(b_), 1.0):
                    raise Reject()      # near-tie: rounding could send the two evaluations down different branches
            taken = [CMP_PY[op](a_, b_) for a_, b_ in zip(vL.v, vR.v)]
            e1, v1 = self.try_expr(depth)
            e2, v2 = self.try_expr(depth)
            cand = live + sorted(self.uninit)
            h = r.choice(cand); self.uninit.discard(h)
            self.vals[h] = Val([v1.v[i] if t else v2.v[i] for i, t in enumerate(taken)],
                               [max(vL.dis[i], vR.dis[i], v1.dis[i] if t else v2.dis[i]) for i, t in enumerate(taken)])
            self.emit(("br", h, op, L, R, e1, e2, taken)); self.last_lhs = h
            self.note("kinds", "branch %s %s" % (kind, op))
            self.note("kinds", "branch taken both ways" if (any(taken) and not all(taken)) else "branch taken one way")
        else:
            cand = live + sorted(self.uninit)
            h = r.choice(cand)
            e, v = self.try_expr(depth)
            self.uninit.discard(h)
            self.vals[h] = v; self.emit(("asg", h, e)); self.last_lhs = h

    def directed_statement(self, template):
        """one assignment whose right-hand side has the prescribed shape (pre-order list of directives); False if no
        admissible operands were found at the input points"""
        live = sorted(self.vals)
        for _ in range(40):
            snap = (dict(self.used["unary"]), dict(self.used["binary"]), dict(self.used["kinds"]), self.ties)
            trk = list(TRK)
            self.plan = list(template)
            try:
                e, v = self.expr(9)
                if self.plan:
                    raise AssertionError("template not consumed")
                self.plan = None
                h = self.rng.choice(live)
                self.vals[h] = v; self.emit(("asg", h, e)); self.last_lhs = h
                return True
            except (Reject, ValueError, OverflowError, ZeroDivisionError):
                self.used["unary"], self.used["binary"], self.used["kinds"], self.ties = snap
                TRK[:] = trk
                self.plan = None
        return False

    def directed_program(self, templates):
        TRK[:] = [0.0] * NPTS
        self.gen_inputs(4)
        done = 0
        for t in templates:
            # re-seed the variables now and then so that values stay in a moderate range
            if done and done % 4 == 0:
                for h in sorted(self.vals):
                    if h not in self.inputs and self.rng.random() < 0.5:
                        c = round(self.rng.uniform(-2, 2), 2) or 0.5
                        self.vals[h] = self.const_val(float(c)); self.emit(("setp", h, float(c)))
            if self.directed_statement(t):
                done += 1
        self.maxdis = list(TRK)
        return self.stmts, done

    def mentions(self, e, h):
        """the leaf v<h> occurs exactly once"""
        return self.count(e, h) == 1

    def count(self, e, h):
        if e[0] == "v":
            return 1 if e[1] == h else 0
        return sum(self.count(x, h) for x in e[1:] if isinstance(x, tuple) and x and x[0] in "vublrqn")

    def program(self, nstmt):
        TRK[:] = [0.0] * NPTS
        self.gen_inputs(self.rng.randint(2, 4))
        guard = 0
        while len(self.stmts) - len(self.inputs) - 1 < nstmt and guard < nstmt * 6:
            guard += 1
            trk = list(TRK)
            try:
                self.statement()
            except Reject:
                TRK[:] = trk
        # a default-constructed Active pushes no statement: until it is assigned its gradient slot holds whatever the
        # previous owner left (documented in Active.h); such variables are never read and are destroyed before the end
        for h in sorted(self.uninit):
            self.emit(("del", h))
        self.uninit.clear()
        self.maxdis = list(TRK)
        return self.stmts


def directed_templates(unsupported):
    """every binary operation x operand form (active∘active, passive∘active, active∘passive) x child shape x placement, and
    every unary function x child shape x placement, as pre-order directive lists.  Children that are themselves expressions make
    the node cache values in scratch slots; a placement under a multiplying / function parent makes the node receive an incoming
    multiplier (the `calc_*` overloads WITH a multiplier); a placement as the right child shifts its scratch base."""
    L = [("leaf",)]
    children = [L, [("u", "Sin")] + L, [("b", "Multiply")] + L + L, [("u", "Exp"), ("b", "Multiply")] + L + L]
    placements = [lambda t: t,
                  lambda t: [("l", "Multiply")] + t,                 # under a passive multiplier
                  lambda t: [("u", "Sin")] + t,                       # under a function
                  lambda t: [("b", "Add")] + L + t,                   # right child of an add (scratch base shifted by nothing)
                  lambda t: [("b", "Multiply"), ("u", "Cos")] + L + t]   # right child of a multiply whose left child uses scratch
    out = []
    for op in BINARY:
        for form in ("b", "l", "r"):
            if form == "r" and op not in SCALAR_RHS + ["Divide"]:
                continue
            for ci, c in enumerate(children):
                for pl in placements:
                    if form == "b":
                        t = [("b", op)] + c + children[(ci + 1) % len(children)]
                    else:
                        t = [(form, op)] + c
                    out.append(pl(t))
    for f in UNARY:
        if f in unsupported:
            continue
        for c in (L, [("b", "Multiply")] + L + L):
            for pl in placements[:3]:
                out.append(pl([("u", f)] + c))
    return out


# ----------------------------------------------------------------------------- emitters
def tok_scalar(c):
    return "d" + hx(c[1]) if c[0] == "d" else "i%d" % c[1]


def tok_expr(e):
    k = e[0]
    if k == "v":
        return "v%d" % e[1]
    if k == "u":
        return "u %s %s" % (e[1], tok_expr(e[2]))
    if k == "b":
        return "b %s %s %s" % (e[1], tok_expr(e[2]), tok_expr(e[3]))
    if k == "l":
        return "l %s %s %s" % (e[1], tok_scalar(e[2]), tok_expr(e[3]))
    if k == "r":
        return "r %s %s %s" % (e[1], tok_scalar(e[2]), tok_expr(e[3]))
    if k == "q":
        return "q %s %s" % (tok_scalar(e[1]), tok_expr(e[2]))
    if k == "n":
        return "n " + tok_expr(e[1])
    raise AssertionError(e)


def cxx_scalar(c):
    if c[0] == "d":
        return cxx_double(c[1])
    return "(%d)" % c[1] if c[1] < 0 else "%d" % c[1]


def cxx_expr(e, ns, var, spell):
    """ns: 'adept' | 'dual'; var: handle -> C++ lvalue text; spell: deterministic choice of max/fmax spelling"""
    k = e[0]
    if k == "v":
        return var(e[1])
    if k == "u":
        f = UNARY[e[1]]
        a = cxx_expr(e[2], ns, var, spell)
        if f in "+-":
            return "(%s(%s))" % (f, a)
        return "%s::%s(%s)" % (ns, f, a)
    if k in ("b", "l", "r"):
        op = e[1]
        if k == "b":
            a, b = cxx_expr(e[2], ns, var, spell), cxx_expr(e[3], ns, var, spell)
        elif k == "l":
            a, b = cxx_scalar(e[2]), cxx_expr(e[3], ns, var, spell)
        else:
            a, b = cxx_expr(e[3], ns, var, spell), cxx_scalar(e[2])
        if op in CPP_BIN:
            return "(%s %s %s)" % (a, CPP_BIN[op], b)
        names = CPP_BINF[op]
        return "%s::%s(%s, %s)" % (ns, names[spell(e) % len(names)], a, b)
    if k == "q":
        return "(%s / %s)" % (cxx_expr(e[2], ns, var, spell), cxx_scalar(e[1]))
    if k == "n":
        a = cxx_expr(e[1], ns, var, spell)
        return "adept::noalias(%s)" % a if ns == "adept" else "(%s)" % a
    raise AssertionError(e)


def _spell(e):
    return len(repr(e))


def model_lines(stmts, pt):
    """token lines for the Lean model at input point pt"""
    out = ["reset"]
    live = []
    for st in stmts:
        k = st[0]
        if k == "input":
            out.append("new %d %s" % (st[1], hx(st[2][pt]))); live.append(st[1])
        elif k == "nr":
            out.append("nr")
        elif k == "new":
            out.append("new %d %s" % (st[1], hx(st[2]))); live.append(st[1])
        elif k == "newd":
            out.append("newd %d" % st[1]); live.append(st[1])
        elif k == "newe":
            out.append("newe %d %s" % (st[1], tok_expr(st[2]))); live.append(st[1])
        elif k == "del":
            out.append("del %d" % st[1]); live.remove(st[1])
        elif k == "setp":
            out.append("setp %d %s" % (st[1], hx(st[2])))
        elif k == "asg":
            out.append("asg %d %s" % (st[1], tok_expr(st[2])))
        elif k == "asgt":
            out.append("asgt %d %d %s ; %s" % (st[1], st[2], tok_expr(st[3]), tok_expr(st[4])))
        elif k == "br":
            # the model evaluates the comparison itself (Expr.branch): the recorded program is the assignment of the branch it selects
            side = lambda x: tok_expr(x[1]) if x[0] == "e" else tok_scalar(x[1])
            out.append("br %d %s ; %s ; %s ; %s ; %s" % (st[1], st[2], side(st[3]), side(st[4]), tok_expr(st[5]), tok_expr(st[6])))
        elif k == "cop":
            out.append("cop %d %s %s" % (st[1], st[2], tok_expr(st[3])))
        elif k == "copp":
            out.append("copp %d %s %s" % (st[1], st[2], tok_scalar(st[3])))
        elif k in ("adep", "apdep"):
            out.append("%s %d %d %s" % (k, st[1], st[2], hx(st[3])))
        else:
            raise AssertionError(st)
    out.append("tape")
    for h in live:
        out.append("val %d" % h)
    return out, live


def cxx_adept(stmts, pid, npts):
    """C++ function running the program with Adept at point `pt`, printing the protocol lines"""
    var = lambda h: "(*p%d)" % h
    L = []
    w = L.append
    ins = [st for st in stmts if st[0] == "input"]
    w("static void prog_%d(int pt) {" % pid)
    w("  static const volatile uint64_t IN[%d][%d] = {%s};" % (npts, len(ins), ", ".join(
        "{" + ", ".join("0x%016xULL" % bits(st[2][p]) for st in ins) + "}" for p in range(npts))))
    w("  verif::SpyStack st;")
    w('  std::cout << "P %d " << pt << "\\n";' % pid)
    w("  c01::ok();")          # answer to `reset`
    live = []
    ni = 0
    for st in stmts:
        k = st[0]
        if k == "input":
            w("  adouble* p%d = new adouble(c01::inval(IN[pt][%d])); c01::ok_idx(p%d);" % (st[1], ni, st[1])); ni += 1
            live.append(st[1])
        elif k == "nr":
            w("  st.new_recording(); c01::ok();")
            for st2 in ins:
                w("  st.independent(*p%d);" % st2[1])
        elif k == "new":
            w("  adouble* p%d = new adouble(%s); c01::ok_idx(p%d);" % (st[1], cxx_double(st[2]), st[1])); live.append(st[1])
        elif k == "newd":
            w("  adouble* p%d = new adouble(); c01::ok_idx(p%d);" % (st[1], st[1])); live.append(st[1])
        elif k == "newe":
            w("  adouble* p%d = new adouble(%s); c01::ok_idx_val(p%d);" % (st[1], cxx_expr(st[2], "adept", var, _spell), st[1]))
            live.append(st[1])
        elif k == "del":
            w("  delete p%d; c01::ok();" % st[1]); live.remove(st[1])
        elif k == "setp":
            w("  *p%d = %s; c01::ok();" % (st[1], cxx_double(st[2])))
        elif k == "asg":
            w("  *p%d = %s; c01::ok_val(p%d);" % (st[1], cxx_expr(st[2], "adept", var, _spell), st[1]))
        elif k == "asgt":
            t = st[2]
            inner = cxx_expr(st[3], "adept", var, _spell)
            var2 = lambda h, t=t, inner=inner: ("adouble(%s)" % inner) if h == t else "(*p%d)" % h
            w("  *p%d = %s; c01::ok_tmp_val(st, p%d);" % (st[1], cxx_expr(st[4], "adept", var2, _spell), st[1]))
        elif k == "br":
            side = lambda x: cxx_expr(x[1], "adept", var, _spell) if x[0] == "e" else cxx_scalar(x[1])
            w("  if (%s %s %s) { *p%d = %s; } else { *p%d = %s; } c01::ok_val(p%d);" % (
                side(st[3]), st[2], side(st[4]), st[1], cxx_expr(st[5], "adept", var, _spell),
                st[1], cxx_expr(st[6], "adept", var, _spell), st[1]))
        elif k == "cop":
            w("  *p%d %s= %s; c01::ok_val(p%d);" % (st[1], CPP_BIN[st[2]], cxx_expr(st[3], "adept", var, _spell), st[1]))
        elif k == "copp":
            o = {"add": "+", "sub": "-", "mul": "*", "div": "/"}[st[2]]
            w("  *p%d %s= %s; c01::ok_val(p%d);" % (st[1], o, cxx_scalar(st[3]), st[1]))
        elif k == "adep":
            w("  p%d->add_derivative_dependence(*p%d, %s); c01::ok();" % (st[1], st[2], cxx_double(st[3])))
        elif k == "apdep":
            w("  p%d->append_derivative_dependence(*p%d, %s); c01::ok();" % (st[1], st[2], cxx_double(st[3])))
    w("  c01::print_tape(st);")
    for h in live:
        w("  c01::val(p%d);" % h)
    for h in live:
        w("  st.dependent(*p%d);" % h)
    w("  c01::print_jacobian(st, %d, %d);" % (len(live), len(ins)))
    for h in live:
        w("  delete p%d;" % h)
    w("}")
    return "\n".join(L), live


def cxx_dual(stmts, pid, npts):
    """the same program on the hand-written Dual type"""
    var = lambda h: "d%d" % h
    L = []
    w = L.append
    ins = [st for st in stmts if st[0] == "input"]
    w("static void dprog_%d(int pt) {" % pid)
    w("  using dual::Dual;")
    w("  static const volatile uint64_t IN[%d][%d] = {%s};" % (npts, len(ins), ", ".join(
        "{" + ", ".join("0x%016xULL" % bits(st[2][p]) for st in ins) + "}" for p in range(npts))))
    w('  std::cout << "D %d " << pt << "\\n";' % pid)
    live = []
    ni = 0
    for st in stmts:
        k = st[0]
        if k == "input":
            w("  Dual d%d = Dual::input(c01::inval(IN[pt][%d]), %d);" % (st[1], ni, ni)); ni += 1; live.append(st[1])
        elif k == "nr":
            pass
        elif k == "new":
            w("  Dual d%d(%s);" % (st[1], cxx_double(st[2]))); live.append(st[1])
        elif k == "newd":
            w("  Dual d%d;" % st[1]); live.append(st[1])
        elif k == "newe":
            w("  Dual d%d = %s;" % (st[1], cxx_expr(st[2], "dual", var, _spell))); live.append(st[1])
        elif k == "del":
            live.remove(st[1])
        elif k == "setp":
            w("  d%d = Dual(%s);" % (st[1], cxx_double(st[2])))
        elif k == "asg":
            w("  d%d = %s;" % (st[1], cxx_expr(st[2], "dual", var, _spell)))
        elif k == "asgt":
            t = st[2]
            w("  { Dual d%d = %s; d%d = %s; }" % (t, cxx_expr(st[3], "dual", var, _spell), st[1], cxx_expr(st[4], "dual", var, _spell)))
        elif k == "br":
            side = lambda x: ("(%s).v" % cxx_expr(x[1], "dual", var, _spell)) if x[0] == "e" else ("(double)%s" % cxx_scalar(x[1]))
            w("  if (%s %s %s) { d%d = %s; } else { d%d = %s; }" % (
                side(st[3]), st[2], side(st[4]), st[1], cxx_expr(st[5], "dual", var, _spell),
                st[1], cxx_expr(st[6], "dual", var, _spell)))
        elif k == "cop":
            w("  d%d = d%d %s %s;" % (st[1], st[1], CPP_BIN[st[2]], cxx_expr(st[3], "dual", var, _spell)))
        elif k == "copp":
            o = {"add": "+", "sub": "-", "mul": "*", "div": "/"}[st[2]]
            w("  d%d = d%d %s %s;" % (st[1], st[1], o, cxx_scalar(st[3])))
        elif k == "adep":
            w("  dual::add_dep(d%d, d%d, %s);" % (st[1], st[2], cxx_double(st[3])))
        elif k == "apdep":
            w("  dual::append_dep(d%d, d%d, %s);" % (st[1], st[2], cxx_double(st[3])))
    for h in live:
        w("  dual::val(d%d); dual::print_row(d%d, %d);" % (h, h, len(ins)))
    w("}")
    return "\n".join(L)


def funcs_used(stmts):
    s = set()

    def walk(e):
        if e[0] == "u":
            s.add(e[1]); walk(e[2])
        elif e[0] == "b":
            s.add(e[1]); walk(e[2]); walk(e[3])
        elif e[0] in ("l", "r"):
            s.add(e[1]); walk(e[3])
        elif e[0] == "q":
            s.add("Divide"); walk(e[2])
        elif e[0] == "n":
            walk(e[1])
    for st in stmts:
        for x in st[1:]:
            if isinstance(x, tuple) and x and x[0] in ("v", "u", "b", "l", "r", "q", "n"):
                walk(x)
            if isinstance(x, tuple) and len(x) == 2 and x[0] == "e":
                walk(x[1])
        if st[0] == "cop":
            s.add(st[2])
        if st[0] == "copp":
            s.add({"add": "Add", "sub": "Subtract", "mul": "Multiply", "div": "Divide"}[st[2]])
    return s


def is_exact_program(stmts):
    """only + - * / sqrt and exactly rounded / piecewise-constant operations: bit-for-bit regime"""
    ok = {"Add", "Subtract", "Multiply", "Divide", "Max", "Min"} | set(EXACT_UNARY)
    return funcs_used(stmts) <= ok


def has_noalias_under_multiplier(stmts):
    def walk(e, under):
        k = e[0]
        if k == "n":
            return under or walk(e[1], under)
        if k == "u":
            return walk(e[2], True)
        if k == "b":
            m = e[1] not in ("Add", "Max", "Min")
            return walk(e[2], under or m) or walk(e[3], True if e[1] != "Add" and e[1] not in ("Max", "Min") else under)
        if k in ("l", "r"):
            return walk(e[3], True if e[1] not in ("Add", "Max", "Min") else under)
        if k == "q":
            return walk(e[2], True)
        return False
    for st in stmts:
        for x in st[1:]:
            if isinstance(x, tuple) and x and x[0] in ("u", "b", "l", "r", "q", "n"):
                if walk(x, st[0] == "cop"):
                    return True
    return False
