"""Shared machinery of C12 (threads that each own a stack) and C14 (shared array data): translators, ThreadSanitizer
builds and runs of harness/drv_threads.cpp, TSan report parsing, the deterministic-schedule correspondence with the Lean
machine (family `threads`), independent oracles.

Build: clang++-14 -fsanitize=thread, NO OpenMP (libomp/libgomp are not instrumented), verification guard OFF (the library as
shipped: hook code is not library state), default build and -DADEPT_STORAGE_THREAD_SAFE build.
"""
import os, re, subprocess, sys, json, itertools
from concurrent.futures import ThreadPoolExecutor
import vbuild, vcheck

DRV = os.path.join(vbuild.VERIF, "harness", "drv_threads.cpp")
TRANSLATORS = [("globals", os.path.join(vbuild.VERIF, "translate", "globals.py")),
               ("storagecfg", os.path.join(vbuild.VERIF, "translate", "storagecfg.py"))]
F16_SIG = "tsan-race:n_storage_objects_created_/deleted_"
TSAN_ENV = {"TSAN_OPTIONS": "halt_on_error=0:exitcode=0:report_signal_unsafe=0:history_size=4",
            "OMP_WAIT_POLICY": "passive", "OMP_DYNAMIC": "false"}


def sh(cmd, inp=None, timeout=None, env=None):
    """like vcheck.sh, but a corrupted program may print bytes that are not UTF-8: never let that kill the check"""
    e = dict(os.environ)
    if env:
        e.update(env)
    p = subprocess.run(cmd, input=inp, stdout=subprocess.PIPE, stderr=subprocess.PIPE, encoding="utf-8", errors="replace",
                       timeout=timeout, env=e)
    return p.returncode, p.stdout, p.stderr


# ------------------------------------------------------------------ translators
def translate(ctx):
    """regenerate Generated/Globals.lean and Generated/StorageCfg.lean from the working tree; returns failure strings"""
    fails = []
    for name, path in TRANSLATORS:
        rc, out, err = vcheck.sh([sys.executable, path], timeout=900)
        ctx.notes.setdefault("translators", {})[name] = (out.strip().split(" ")[-1] if rc == 0 else "FAILED")
        if rc != 0:
            fails.append("translator %s cannot translate the working tree (no generated definition, obligation broken): %s"
                         % (name, (err or out).strip()[-1500:]))
    return fails


def broken_config_combinations():
    """macros M for which the regenerated table says: -DADEPT_STORAGE_THREAD_SAFE -DM no longer gives the thread-safe Storage"""
    import re
    path = os.path.join(os.environ.get("VERIF_LEAN", os.path.join(vbuild.VERIF, "lean")), "AdeptModel", "Generated", "StorageCfg.lean")
    try:
        # the table without _OPENMP only: the ThreadSanitizer builds have no OpenMP
        return re.findall(r'\("(ADEPT_\w+)", false\)', open(path).read().split("def threadSafeUnderConfigOpenMP")[0])
    except OSError:
        return []


# ------------------------------------------------------------------ builds
MINI_LAPACK = os.path.join(vbuild.VERIF, "harness", "mini_lapack.cpp")     # instrumented with the driver (no system LAPACK under TSan)


def build(thread_safe, also=()):
    defs = (["ADEPT_STORAGE_THREAD_SAFE"] if thread_safe else []) + ["HAVE_LAPACK=1"] + list(also)
    return vbuild.build("threads", [DRV, MINI_LAPACK], defines=defs, cxx="clang++-14", san="tsan",
                        extra=["-std=c++17", "-U" + vbuild.GUARD], link=["-pthread", "-Wl,--wrap=_Znam"], no_openmp=True)


def build_omp():
    """g++ -fopenmp build without ThreadSanitizer (libgomp is not instrumented): the workloads run by the members of one
    OpenMP team; ASan/UBSan stay on as observers"""
    return vbuild.build("threads-omp", [DRV, MINI_LAPACK], defines=["HAVE_LAPACK=1"], san="none",
                        extra=["-std=c++17", "-U" + vbuild.GUARD], link=["-pthread", "-Wl,--wrap=_Znam"])


# ------------------------------------------------------------------ TSan reports
def parse_tsan(stderr):
    """-> list of {kind, location, stacks:[[frames],[frames]], summary, text}"""
    reps = []
    for blk in re.split(r"^={18,}\s*$", stderr, flags=re.M):
        m = re.search(r"WARNING: ThreadSanitizer: ([^\n(]+)", blk)
        if not m:
            continue
        kind = m.group(1).strip()
        loc = re.search(r"^\s*Location is ([^\n]+)", blk, flags=re.M)
        summ = re.search(r"^SUMMARY: ThreadSanitizer: ([^\n]+)", blk, flags=re.M)
        stacks = []
        for sm in re.finditer(r"^\s*((?:Previous )?(?:atomic )?(?:[Ww]rite|[Rr]ead)[^\n]*|Mutex[^\n]*|[^\n]*previously allocated[^\n]*|[^\n]*freed[^\n]*):?\n((?:\s+#\d+ [^\n]*\n)+)", blk, flags=re.M):
            frames = []
            for fm in re.finditer(r"#\d+ (.+?) (/[^\s:]+|<null>)(?::(\d+))?", sm.group(2)):
                fn, path, line = fm.group(1), fm.group(2), fm.group(3)
                frames.append("%s %s%s" % (fn, os.path.basename(path), ":" + line if line else ""))
            stacks.append({"access": sm.group(1).strip(), "frames": frames[:6]})
        reps.append({"kind": kind, "location": loc.group(1).strip() if loc else "",
                     "summary": re.sub(r"/[^\s]*/", "", summ.group(1)) if summ else "", "stacks": stacks[:2], "text": blk.strip()[:6000]})
    # glibc / runtime aborts that are not TSan reports
    for pat in ("double free", "free(): invalid", "corrupted", "Segmentation fault", "SEGV", "terminate called"):
        if pat in stderr and not reps:
            reps.append({"kind": "abort:" + pat, "location": "", "summary": pat, "stacks": [], "text": stderr[-3000:]})
            break
    return reps


def signature(rep):
    g = re.search(r"global '([^']+)'", rep["location"])
    if g:
        name = g.group(1)
        if name in ("adept::internal::n_storage_objects_created_", "adept::internal::n_storage_objects_deleted_"):
            return F16_SIG
        return "tsan-race:" + name
    top = rep["stacks"][0]["frames"][0] if rep["stacks"] and rep["stacks"][0]["frames"] else rep["summary"]
    return "tsan-%s:%s" % (rep["kind"].replace(" ", "-"), re.sub(r"\s+\S+$", "", top)[:120])


def describe(rep):
    s = "ThreadSanitizer: %s; %s" % (rep["kind"], rep["location"] or rep["summary"])
    for st in rep["stacks"]:
        s += " || %s @ %s" % (st["access"], " <- ".join(st["frames"][:3]))
    return s[:900]


# ------------------------------------------------------------------ workload runs
def run_workload(exe, mode, T, wseed, rounds, timeout=90):
    try:
        rc, out, err = sh([exe, mode, str(T), str(wseed), str(rounds)], timeout=timeout, env=TSAN_ENV)
    except subprocess.TimeoutExpired:
        return {"rc": -999, "lines": [], "reports": [], "stderr": "TIMEOUT after %ss" % timeout}
    lines = [l for l in out.split("\n") if l]
    return {"rc": rc, "lines": lines, "reports": parse_tsan(err), "stderr": err[-3000:]}


def kv(line):
    d = {}
    for tok in line.split()[1:]:
        if "=" in tok:
            k, v = tok.split("=", 1)
            d[k] = v
    return d


def judge_workload(res, mode, T, grow=False):
    """independent judgement of one run from the driver's output alone -> list of (message, signature)"""
    bad = []
    lines = res["lines"]
    if res["rc"] != 0 or not any(l.startswith("done") for l in lines):
        bad.append(("the workload did not complete (rc=%s): %s" % (res["rc"], (res["stderr"] or "\n".join(lines[-3:]))[-600:]), "crash:" + mode))
    solo, par = {}, {}
    seen_flt = False
    for l in lines:
        w = l.split()
        if w[0] == "solo":
            solo[int(w[1])] = (kv(l).get("n"), kv(l).get("h"))
        elif w[0] == "par":
            par[int(w[1])] = (kv(l).get("n"), kv(l).get("h"), kv(l).get("eq"))
        elif w[0] == "flt":
            seen_flt = True
        elif w[0] in ("exc", "exception"):
            bad.append(("an exception escaped a thread's workload: " + l[:300], "exception:" + mode))
    for k in range(T):
        if k not in solo or k not in par:
            if not bad:
                bad.append(("missing result line for workload %d" % k, "missing-result"))
            continue
        if solo[k][:2] != par[k][:2] or par[k][2] != "1":
            bad.append(("thread %d obtained different results when run concurrently (n=%s h=%s) than alone (n=%s h=%s)"
                        % (k, par[k][0], par[k][1], solo[k][0], solo[k][1]), "result-differs:" + mode))
    if mode in ("c12", "c12omp") and not seen_flt and not bad:
        bad.append(("the allocation-fault record of the Stack constructors is missing", "missing-result"))
    for l in lines:
        d = kv(l)
        if l.startswith("act "):
            for key in ("owner_wrong", "stackless_nonzero", "idle_threads_nonzero", "main_nonzero"):
                if d.get(key) != "0":
                    bad.append(("active_stack() observation failed: %s=%s (%s)" % (key, d.get(key), l), "active-stack:" + key))
            for key in ("owner_samples", "stackless_samples") + (() if mode == "c12omp" else ("idle_threads_samples", "main_samples")):
                if int(d.get(key, "0")) <= 0:
                    bad.append(("no active_stack() sample was taken (%s)" % key, "active-stack:no-sample"))
        elif l.startswith("flt "):
            if d.get("fault_active_changed") != "0":
                bad.append(("after a Stack constructor failed with std::bad_alloc (allocation fault injected in that thread) active_stack() "
                            "of the thread is not what it was before: %s" % l, "active-stack:after-failed-constructor"))
            if grow and int(d.get("max_allocated_operations", "0")) < 2 * int(d.get("initial_stack_length", "1")):
                bad.append(("the small-initial-length build did not make the stacks grow: %s" % l,
                            "stack-growth:no-sample"))
            if int(d.get("fault_samples", "0")) <= 0:
                bad.append(("no allocation fault was injected into a Stack constructor (%s)" % l, "active-stack:no-sample"))
        elif l.startswith("stor "):
            if "live" in d and "expect" not in d and d["live"] != "0":
                bad.append(("n_storage_objects() == %s after all threads have joined and every array is destroyed" % d["live"], "storage-count"))
            for key in ("soft_links_changed_solo", "soft_links_changed_par"):
                if key in d and d[key] != "0":
                    bad.append(("a soft link (or a link/copy/view derived from it) changed n_links() of the data it refers to or owns a "
                                "Storage: %s" % l, "soft-link-counted"))
            if "soft_invariant_samples" in d and int(d["soft_invariant_samples"]) <= 0:
                bad.append(("no soft-link invariant sample was taken (%s)" % l, "soft-link:no-sample"))
            for key in ("links_before", "links_after", "live_after", "symm_links_before", "symm_links_after", "zoo_links_after"):
                if key in d and d[key] != d.get("expect"):
                    bad.append(("%s=%s, expected %s (%s)" % (key, d[key], d.get("expect"), l), "storage-count"))
            if "created_par" in d:
                # exact global bookkeeping: the parallel phase created/deleted as many Storage objects as the solo phase
                if not (d["created_par"] == d.get("deleted_par") == d.get("created_solo")):
                    bad.append(("storage counters after the join: created %s / deleted %s in the parallel phase, the same workloads run "
                                "alone created %s" % (d["created_par"], d.get("deleted_par"), d.get("created_solo")), "storage-count"))
            if "created" in d and d["created"] != d.get("deleted"):
                bad.append(("storage objects created=%s deleted=%s after join" % (d["created"], d["deleted"]), "storage-count"))
            if "not_freed_exactly_once" in d and (d["not_freed_exactly_once"] != "0" or d.get("exceptions") != "0"):
                bad.append(("last-link stress: %s" % l, "freed-not-once"))
    out = []
    # a race explains (and takes precedence over) its symptoms: report the race with the two stacks
    for rep in res["reports"]:
        out.append((describe(rep), signature(rep), rep))
    sigs = {s for (_, s, _) in out}
    for msg, sig in bad:
        if sig == "storage-count" and F16_SIG in sigs:
            continue        # lost updates of the racing counters: same defect
        out.append((msg, sig, None))
    return out


def run_many(ctx, exe, label, mode, cases, workers=4, grow=False):
    """cases: list of (T, wseed, rounds).  Reports violations; returns number of failing runs."""
    nfail = 0
    with ThreadPoolExecutor(max_workers=workers) as ex:
        results = list(ex.map(lambda c: run_workload(exe, mode, c[0], c[1], c[2]), cases))
    for (T, wseed, rounds), res in zip(cases, results):
        verdicts = judge_workload(res, mode, T, grow=grow)
        ctx.count_case((label, mode, T, wseed, rounds), nontrivial=True,
                       sample={"build": label, "mode": mode, "threads": T, "workload_seed": wseed, "rounds": rounds,
                               "tsan_reports": len(res["reports"]), "last": res["lines"][-2:] if res["lines"] else None})
        ctx.cov["traces_validated_against_impl"] += 1
        ctx.notes["tsan_runs"] = ctx.notes.get("tsan_runs", 0) + 1
        ctx.notes.setdefault("thread_counts", {})
        ctx.notes["thread_counts"][str(T)] = ctx.notes["thread_counts"].get(str(T), 0) + 1
        if verdicts:
            nfail += 1
        seen = ctx.__dict__.setdefault("_sigs_reported", set())      # one report per signature and check run
        for msg, sig, rep in verdicts:
            if sig in seen:
                continue
            seen.add(sig)
            ctx.violation("%s [%s build, %s, %d threads, workload seed %d, %d rounds]" % (msg, label, mode, T, wseed, rounds),
                          {"kind": "tsan-run", "build": label, "mode": mode, "threads": T, "workload_seed": wseed, "rounds": rounds,
                           "signature": sig, "message": msg, "tsan_report": rep["text"] if rep else None,
                           "stdout": res["lines"][-40:]})
    return nfail


def replay_workload(ctx, r):
    b = r["build"]
    exe = build_omp() if b == "openmp-team" else build(b.startswith("thread-safe"), also=b.split("+")[1:])
    run_many(ctx, exe, r["build"], r["mode"], [(r["threads"], r["workload_seed"], r["rounds"])], workers=1,
             grow="ADEPT_INITIAL_STACK_LENGTH" in b)


# ------------------------------------------------------------------ deterministic schedules: C++ threads vs Lean machine
class SchedGen:
    """random LEGAL schedule over T real threads: stack protocol, recording, private arrays, (optionally) links to the
    shared array.  Tracks what an obviously-correct bookkeeping expects (the oracle does not use the Lean model)."""

    def __init__(self, rng, T, shared, stacks=True):
        self.rng, self.T = rng, T
        self.h = [rng.randint(0, 2) for _ in range(T)] if shared else [0] * T
        if shared and sum(self.h) == 0:
            self.h[rng.randrange(T)] = 1
        self.ops = ["reset %d %s" % (T, " ".join(map(str, self.h)))]
        self.exp = ["reset links=%d live=%d" % (sum(self.h), 1 if sum(self.h) else 0)]
        self.stacks = [dict() for _ in range(T)]     # stack number -> True
        self.active = [0] * T                        # number+1 of the active stack
        self.priv = [0] * T
        self.next_stack = 0
        self.shared_alive = sum(self.h) > 0
        self.use_stacks = stacks

    def live(self):
        return sum(self.priv) + (1 if self.shared_alive else 0)

    def stor(self):
        return "links=%d live=%d" % (sum(self.h), self.live())

    def step(self):
        r, t = self.rng, self.rng.randrange(self.T)
        choices = ["ra", "na", "da", "vo", "sv"]
        if self.use_stacks:
            choices += ["ns", "ns", "act", "deact", "del", "rec", "nr", "ra", "nsf"]
        if self.h[t] > 0:
            choices += ["lk", "ul", "ul"]
        op = r.choice(choices)
        if op == "ns":
            s = self.next_stack; self.next_stack += 1
            if self.active[t] == 0:
                self.stacks[t][s] = True; self.active[t] = s + 1; st = "ok"
            else:
                st = "err"            # stack_already_active: no object is created
            self.emit("%d ns %d" % (t, s), "%s ptr=%d" % (st, self.active[t]))
        elif op == "nsf":
            # a constructor whose f-th array allocation fails: no object, the thread's pointer is what it was (whether or not
            # another stack is active: allocation comes before activation)
            s = self.next_stack; self.next_stack += 1
            self.emit("%d nsf %d %d" % (t, s, r.randint(0, 2)), "fail ptr=%d" % self.active[t])
        elif op in ("act", "deact", "del"):
            if not self.stacks[t]:
                return
            s = r.choice(sorted(self.stacks[t]))
            st = "ok"
            if op == "act":
                if self.active[t] not in (0, s + 1):
                    st = "err"
                else:
                    self.active[t] = s + 1
            else:
                if self.active[t] == s + 1:
                    self.active[t] = 0
                if op == "del":
                    del self.stacks[t][s]
            self.emit("%d %s %d" % (t, op, s), "%s ptr=%d" % (st, self.active[t]))
        elif op in ("ra", "nr"):
            self.emit("%d %s" % (t, op), "ptr=%d" % self.active[t])
        elif op == "rec":
            if self.active[t] == 0:
                return
            self.emit("%d rec %d" % (t, r.randint(0, 9)), "ptr=%d" % self.active[t])
        elif op == "na":
            self.priv[t] += 1
            self.emit("%d na" % t, self.stor())
        elif op == "da":
            if self.priv[t] == 0:
                return
            self.priv[t] -= 1
            self.emit("%d da" % t, self.stor())
        elif op in ("vo", "sv"):
            self.emit("%d %s" % (t, op), self.stor())
        elif op == "lk":
            self.h[t] += 1
            self.emit("%d lk" % t, self.stor())
        elif op == "ul":
            self.h[t] -= 1
            if sum(self.h) == 0:
                self.shared_alive = False        # the LAST view: the data must be freed now, exactly once
            self.emit("%d ul" % t, self.stor())

    def emit(self, op, exp):
        self.ops.append(op); self.exp.append(exp)


def sched_cases(rng, n, shared, stacks=True, length=(10, 60)):
    out = []
    for _ in range(n):
        g = SchedGen(rng, rng.choice([1, 2, 2, 3, 4]), shared, stacks)
        for _ in range(rng.randint(*length)):
            g.step()
        out.append((g.ops, g.exp))
    return out


def run_sched_batch(ctx, exe, label, cfgname, cases, what):
    """impl (real threads, deterministic hand-off, under TSan) vs Lean machine vs python bookkeeping oracle"""
    text = "cfg %s\n" % cfgname + "".join("\n".join(ops) + "\n" for ops, _ in cases)
    try:
        rc, out, err = sh([exe, "sched"], inp=text, timeout=300, env=TSAN_ENV)
    except subprocess.TimeoutExpired:
        rc, out, err = -999, "", "TIMEOUT"
    impl = [l for l in out.split("\n") if l]
    model = vcheck.run_model("threads", text)
    reps = parse_tsan(err)
    for rep in reps[:2]:
        ctx.violation("%s [%s build, deterministic schedules]" % (describe(rep), label),
                      {"kind": "sched-batch", "build": label, "signature": signature(rep), "tsan_report": rep["text"]})
    pos = 1
    ndis = 0
    for ops, exp in cases:
        n = len(ops)
        il, ml = impl[pos:pos + n], model[pos:pos + n]
        pos += n
        ctx.count_case((label, tuple(ops)), nontrivial=len(ops) > 4,
                       sample={"build": label, "schedule": ops[:10], "impl": il[:10]})
        ctx.cov["traces_validated_against_impl"] += 1
        if il != exp:
            k = vcheck.first_diff(il, exp)
            ctx.violation("%s: step %d `%s` observed `%s`, an exact bookkeeping of stacks/views/arrays expects `%s` [%s build]"
                          % (what, k, ops[k] if k < n else "?", il[k] if k is not None and k < len(il) else "(no output: rc=%s %s)" % (rc, err[-300:]),
                             exp[k] if k is not None and k < n else "?", label),
                          {"kind": "sched", "build": label, "cfg": cfgname, "ops": ops, "impl": il, "expected": exp, "step": k,
                           "signature": "sched-oracle"})
        elif il != ml:
            ndis += 1
            ctx.cov["disagreements_checked"] += 1
            if len(ctx.pending) < 2:
                k = vcheck.first_diff(il, ml)
                ctx.pending.append({"kind": "correspondence", "correspondence": "AdeptModel/Threads.lean (family threads) <-> harness/drv_threads.cpp sched",
                                    "build": label, "cfg": cfgname, "ops": ops, "impl": il, "model": ml, "first_difference": k})
    return ndis


def replay_sched(ctx, r):
    exe = build(r["build"] == "thread-safe")
    ctx.pending = getattr(ctx, "pending", [])
    # expected lines are recomputed by the model only; the oracle needs the generator, so compare impl with the stored expectation
    text = "cfg %s\n" % r.get("cfg", "default") + "\n".join(r["ops"]) + "\n"
    rc, out, err = sh([exe, "sched"], inp=text, timeout=300, env=TSAN_ENV)
    impl = [l for l in out.split("\n") if l][1:1 + len(r["ops"])]
    exp = r.get("expected") or vcheck.run_model("threads", text)[1:1 + len(r["ops"])]
    ctx.count_case(("replay", tuple(r["ops"])), sample={"impl": impl[:10]})
    if impl != exp:
        k = vcheck.first_diff(impl, exp)
        ctx.violation("replayed schedule: step %s observed `%s`, expected `%s`" % (k, impl[k] if k is not None and k < len(impl) else None,
                                                                                  exp[k] if k is not None and k < len(exp) else None),
                      dict(r, impl=impl, signature="sched-oracle"))


# ------------------------------------------------------------------ the n_links_ machine, all interleavings of small programs
def interleavings(lens):
    """all schedules (strings of thread digits) in which thread t occurs lens[t] times"""
    out = []

    def rec(cur, left):
        if not any(left):
            out.append(cur); return
        for t, l in enumerate(left):
            if l:
                left[t] -= 1; rec(cur + str(t), left); left[t] += 1
    rec("", list(lens))
    return out


MICRO = {"rmwTested": {"a": 1, "r": 1, "s": 1, "p": 1}, "rmwThenReload": {"a": 1, "r": 2, "s": 1, "p": 1},
         "loadStore": {"a": 1, "r": 2, "s": 1, "p": 1}}


def nlinks_enumeration(ctx, thorough):
    """run the Lean machine over ALL interleavings of small well-formed programs in the three shapes"""
    families = [([1, 1], ["r", "r"]), ([1, 1], ["r", "ar"]), ([1, 1], ["ar", "arr"]), ([2, 1], ["rr", "r"]), ([1, 1, 1], ["r", "r", "r"]),
                ([1, 1], ["asr", "pr"]), ([1, 1], ["arr", "r"]), ([1, 1], ["ararr", "r"])]
    if thorough:
        families += [([1, 1, 1], ["ar", "r", "r"]), ([1, 1], ["aarr", "arr"]), ([2, 1], ["rar", "arr"]), ([1, 1], ["arar", "r"])]
    stats = {}
    problems = []
    for shape in ("rmwTested", "rmwThenReload", "loadStore"):
        lines, meta = [], []
        for h0, progs in families:
            for lead in (0, 1):
                lens = [sum(MICRO[shape][c] + (lead if c == "r" else 0) for c in p) for p in progs]
                for sc in interleavings(lens):
                    lines.append("nlrun %s %d %s %s %s" % (shape, lead, ",".join(map(str, h0)), ",".join(progs), sc))
                    meta.append((h0, progs, lead, sc))
        out = vcheck.run_model("threads", "\n".join(lines) + "\n")
        n2 = nuaf = 0
        for (h0, progs, lead, sc), l in zip(meta, out):
            d = kv("x " + l.replace("held=[", "held=").replace(", ", ","))
            frees, uaf, rem = int(d.get("frees", -1)), int(d.get("uaf", -1)), int(d.get("remaining", -1))
            if rem != 0:
                problems.append("schedule did not finish: " + l)
            all_dropped = sum(h0) + sum(p.count("a") - p.count("r") for p in progs) == 0
            if shape == "rmwTested":
                if frees != (1 if all_dropped else 0) or uaf != 0:
                    problems.append("rmwTested machine: %s %s lead=%d schedule %s -> %s" % (h0, progs, lead, sc, l))
            else:
                n2 += frees >= 2
                nuaf += uaf > 0
        stats[shape] = {"schedules": len(meta), "double_free_schedules": n2, "touch_after_free_schedules": nuaf}
        ctx.cov["evaluations"] += len(meta)
    ctx.notes["nlinks_machine_all_interleavings"] = stats
    if stats["rmwThenReload"]["double_free_schedules"] == 0 or stats["loadStore"]["double_free_schedules"] + stats["loadStore"]["touch_after_free_schedules"] == 0:
        problems.append("the machine does not distinguish the split shapes from the atomic one: %s" % stats)
    return problems


# ------------------------------------------------------------------ reporting
def report(ctx, fails, pid):
    if ctx.violations:
        return
    for p in getattr(ctx, "pending", [])[:1]:
        ctx.violation("the Lean machine and the real threads disagree on a deterministic schedule (%s build); neither ThreadSanitizer nor the "
                      "bookkeeping oracle found a run on which the property itself fails" % p["build"], p, tag="c", no_input=True)
    if fails and not ctx.violations:
        ctx.violation("proof obligation of %s no longer checks: %s" % (pid, fails[0][:600]),
                      {"kind": "proof", "theorem": "AdeptProofs/Props/%s.lean" % pid, "failures": fails}, tag="p", no_input=True)
