"""C11 — misuse is reported by the documented exception, never by memory corruption.

proof:  lean/AdeptProofs/Props/C11.lean — per misuse class `precondition => exactly the documented exception and the state is
        unchanged (or exactly the documented partial effect)`, `no wild access` (every index used on a success path is below
        the allocated length), `usable after` (a history with its failing operations removed ends in the same state), over
        AdeptModel/StackProto.lean (stack protocol, part A) and AdeptModel/Misuse.lean (array operations, part B).
tie:    part A  model family `tape`  <-> adept::Stack / adouble   (harness/drv_tape.cpp),
        part B  model family `misuse` <-> passive Array<1..4,int|Real>, FixedArray, SymmMatrix, TridiagMatrix, active
                Array<1..2,Real> while recording (harness/drv_misuse.cpp, one translation unit per MISUSE_PART);
        valid random histories with misuses injected at random points + directed sweeps; every output line compared exactly;
        ASan+UBSan.
oracles (do not use the Lean model):
        (1) table of documented exceptions written from doc/adept_documentation.tex + include/adept/exception.h, decided from
            the protocol/extents the generator knows and from the implementation's own indices, tape and allocator lines;
        (2) the same history with every failing operation removed is run through the implementation again: all other lines
            must be identical (nothing of a failed operation may leak into later results);
        (3) part A: every pass / Jacobian re-evaluated in Python from the implementation's own tape dump (as C10);
            part B: element-wise integer re-evaluation of every successful array operation in Python, dual-number
            re-evaluation of every Jacobian of the active arrays; a failed active statement must have pushed 0 statements and
            0 operations on the recording (SpyStack counters, printed by the driver as rec+dS+dO);
        (4) any sanitizer report or abnormal exit is a violation with the history as replay.
"""
import os, json, re, struct, math, hashlib, time, threading
from concurrent.futures import ThreadPoolExecutor
import vbuild, vcheck
import tapecommon as tc

LEVEL = "proof"
PER_CLASS_QUICK = 100
PER_CLASS_THOROUGH = 800
NSA = "Adept.StackProto."
NSB = "Adept.Misuse."
REQUIRED_A = ["C11_pass_before_seed", "C11_get_before_seed", "C11_created_after_seed", "C11_pass_after_creation",
              "C11_jacobian_no_lists", "C11_jacobian_wrong_size", "C11_append_wrong_lhs", "C11_second_stack",
              "C11_no_wild_access", "C11_usable_after", "C11_range_get", "C11_range_set"]
REQUIRED_B = ["C11_arr_negative_extent_new", "C11_arr_negative_extent_resize", "C11_arr_expr_mismatch", "C11_arr_assign_mismatch",
              "C11_arr_compound_mismatch", "C11_arr_where_mismatch", "C11_arr_fill_overflow", "C11_arr_fill_object_overflow",
              "C11_arr_fill_empty", "C11_arr_not_square", "C11_arr_link_empty", "C11_arr_matmul_empty",
              "C11_arr_matmul_inner", "C11_arr_permute_invalid", "C11_arr_index_out_of_bounds", "C11_arr_no_wild_access",
              "C11_arr_usable_after",
              # ranks 1-4, mismatches inside expressions that are not assignments, special targets, active arrays
              "C11_arr_negative_extent_ranks", "C11_arr_reduce_mismatch", "C11_arr_reduce_dim_invalid", "C11_arr_reduce_empty",
              "C11_arr_loc_mismatch", "C11_arr_expand_mismatch", "C11_arr_spread_target", "C11_arr_expand_step",
              "C11_arr_wherex_mismatch", "C11_arr_eor_mismatch", "C11_arr_solve_invalid", "C11_arr_special_resize",
              "C11_arr_special_assign_mismatch", "C11_arr_special_expr_mismatch", "C11_arr_special_not_square",
              "C11_arr_active_mismatch", "C11_arr_active_target_mismatch", "C11_arr_active_failed_jac",
              "C11_arr_reduce_no_wild_access"]

A_CLASSES = ["pass_before_seed", "get_before_seed", "created_after_seed", "pass_after_creation", "jac_no_lists",
             "jac_wrong_size", "append_wrong_lhs", "second_stack"]

# documented exception per misuse class (doc/adept_documentation.tex, section "Exceptions thrown by the Adept library";
# include/adept/exception.h).  Written by hand from the manual, not derived from the Lean model.
DOC_A = {
    "pass_before_seed": "gradients_not_initialized",     # "functions that require the list of working gradients to have been initialized"
    "get_before_seed": "gradients_not_initialized",
    "created_after_seed": "gradient_out_of_range",        # "adouble object was created after the first adouble::set_gradient call"
    "pass_after_creation": "gradient_out_of_range",       # same situation met by compute_adjoint / compute_tangent_linear
    "jac_no_lists": "dependents_or_independents_not_identified",
    "jac_wrong_size": "size_mismatch",                    # "an array expression is applied to an array of a different size"
    "append_wrong_lhs": "wrong_gradient",
    "second_stack": "stack_already_active",
}


def _bump(d, k, n=1):
    d[k] = d.get(k, 0) + n


# =====================================================================================================================
# Part A — stack protocol
# =====================================================================================================================
class GenA(tc.Gen):
    """valid protocol histories (tapecommon.Gen) with misuses injected; `want` is injected with high probability at every
    point where it can be committed, the other classes with a small one"""

    def __init__(self, rng, pausable, want, maxnew):
        tc.Gen.__init__(self, rng, pausable=pausable)
        self.want = want
        self.inj = []           # (op index, class)
        self.maxnew = maxnew

    def prob(self, cls):
        return 0.45 if cls == self.want else 0.04

    def hit(self, cls):
        return self.rng.random() < self.prob(cls)

    def mark(self, cls, s):
        self.inj.append((len(self.ops), cls))
        self.emit(s)

    def mode(self):
        return self.rng.choice(["auto", "fwd", "rev"])

    # ---- injections that are possible at any point
    def inj_anywhere(self):
        r = self.rng
        if self.hit("second_stack"):
            self.mark("second_stack", "stack2")
        if r.random() < 0.03:
            self.emit("deact"); self.emit("act")

    # ---- P1: inside the recorded program; no seed since new_recording, both lists empty
    def inj_program_point(self):
        r = self.rng
        live = list(self.live)
        self.inj_anywhere()
        if self.hit("pass_before_seed"):
            self.mark("pass_before_seed", r.choice(["fwd", "rev"]))
        if self.hit("get_before_seed") and live:
            self.mark("get_before_seed", "get %d" % r.choice(live))
        if self.hit("jac_no_lists"):
            self.mark("jac_no_lists", r.choice(["jac %s mat" % self.mode(), "jac %s ptr 1 1 4" % self.mode(),
                                                "jac %s ptr -1 -1 0" % self.mode(), "jac %s matarg row 0 0" % self.mode()]))
        if self.hit("jac_wrong_size"):
            self.mark("jac_wrong_size", "jac %s matarg %s %d %d" % (self.mode(), r.choice(["row", "col", "transposed", "strided"]),
                                                                  r.randint(1, 3), r.randint(1, 3)))
        if self.hit("append_wrong_lhs") and not self.paused and len(live) >= 2:
            self.emit("tape")
            cand = [k for k in live if k != self.last_lhs] or live
            self.mark("append_wrong_lhs", "apdep %d %d %d" % (r.choice(cand), r.choice(live), r.choice([-3, -2, -1, 1, 2, 3, 0])))

    def program(self, nstmt):
        self.inj_program_point()
        for _ in range(nstmt):
            if self.pausable and self.rng.random() < 0.08:
                self.paused = not self.paused
                if self.paused:
                    self.emit("pause"); self.emit("tape")
                else:
                    self.emit("tape"); self.emit("cont")
            self.statement()
            if self.rng.random() < 0.5:
                self.inj_program_point()
        if self.paused:
            self.paused = False
            self.emit("tape"); self.emit("cont")


def gen_case_a(rng, W, pausable, want, maxnew=3):
    for _attempt in range(200):
        g = GenA(rng, pausable, want, maxnew)
        g.emit("cfg %d %d 1" % (W, 1 if pausable else 0))
        for _ in range(rng.randint(2, 4)):
            g.new()
        vals = []
        # "shrinking" histories: a first recording whose derivative pass allocates a long gradient vector, then most objects
        # are destroyed and a smaller recording is seeded — the allocated length must shrink with it, or objects created
        # after the seed fall below a stale bound and are accepted silently
        shrink = want in ("created_after_seed", "pass_after_creation") and rng.random() < 0.5
        extra = [g.new() for _ in range(rng.randint(3, 12))] if shrink else []
        for seg in range(2 if shrink else rng.randint(1, 2)):
            if shrink and seg == 1:
                rng.shuffle(extra)
                for k in extra:
                    if k in g.live and len(g.live) > 2:
                        del g.live[k]; g.emit("del %d" % k)
                g.maxnew = 6
            g.emit("nr")
            g.program(rng.randint(2, 14))
            for k in list(g.live):
                vals.append((len(g.ops), g.live[k])); g.emit("val %d" % k)
            for rnd in range(rng.randint(2, 4)):
                kind = rng.choice(["fwd", "rev", "jac", "fwd", "rev"])
                live = list(g.live)
                g.inj_anywhere()
                if kind in ("fwd", "rev"):
                    g.emit("clrg")
                    if g.hit("pass_before_seed"):
                        g.mark("pass_before_seed", rng.choice(["fwd", "rev"]))
                    if g.hit("get_before_seed"):
                        g.mark("get_before_seed", rng.choice(["get %d" % rng.choice(live),
                                                              "getr %d %d %d" % (rng.choice(live), rng.randint(1, 3), rng.choice([1, 2]))]))
                    g.emit("state")
                    seeds = [(rng.choice(live), rng.randint(-3, 3)) for _ in range(rng.randint(1, 3))]
                    for k, v in seeds:
                        g.emit("seed %d %d" % (k, v))
                    created = False
                    if g.hit("created_after_seed") or g.hit("pass_after_creation"):
                        created = True
                        if rng.random() < 0.35 and len(g.live) > 3:
                            k = rng.choice(list(g.live)[1:]); del g.live[k]; g.emit("del %d" % k)
                        fresh = []
                        for _ in range(rng.randint(1, getattr(g, 'maxnew', maxnew))):
                            x = rng.random()
                            if x < 0.6:
                                fresh.append(g.new())
                            elif x < 0.8:
                                k = g.nxt; g.nxt += 1; g.live[k] = 0; g.emit("newd %d" % k); fresh.append(k)
                            else:
                                k = g.nxt; g.nxt += 1; i = rng.choice(list(g.live)); g.live[k] = g.live[i]
                                g.emit("newc %d %d" % (k, i)); g.last_lhs = k; fresh.append(k)
                            if rng.random() < 0.3:
                                toks, val = g.expr(1)
                                g.live[fresh[-1]] = val
                                g.emit("asg %d %s" % (fresh[-1], " ".join(toks))); g.last_lhs = fresh[-1]
                        for k in fresh:
                            x = rng.random()
                            if x < 0.5:
                                g.mark("created_after_seed", "seed %d %d" % (k, rng.randint(-3, 3)))
                            elif x < 0.85:
                                g.mark("created_after_seed", "get %d" % k)
                        # range forms over the late objects and over ranges that START inside the allocated vector and end
                        # beyond it (an array created late straddles the end; a strided view of it has a span > its count)
                        for _ in range(rng.randint(0, 3)):
                            k = rng.choice(fresh + list(g.live)[-3:])
                            if k in g.live:
                                if rng.random() < 0.7:
                                    g.mark("created_after_seed", "getr %d %d %d" % (k, rng.randint(0, 4), rng.choice([1, 1, 2, 3])))
                                else:
                                    g.mark("created_after_seed", "setr %d %s" % (k, " ".join(str(rng.randint(-3, 3)) for _ in range(rng.randint(1, 4)))))
                        if fresh and rng.random() < 0.4:
                            # the late objects take part in a statement and are destroyed again BEFORE the pass: the statement
                            # that mentions their gradient indices stays on the tape while i_gradient_ falls back
                            k0 = fresh[-1]
                            toks, val = g.expr(1)
                            g.live[k0] = val
                            g.emit("asg %d %s" % (k0, " ".join(toks)))
                            for k in reversed(fresh):
                                if k in g.live:
                                    del g.live[k]; g.emit("del %d" % k)
                            g.last_lhs = None
                    g.emit("tape"); g.emit("state")
                    if created:
                        g.mark("pass_after_creation", kind)
                    else:
                        g.emit(kind)
                    live = list(g.live)
                    for k in rng.sample(live, min(len(live), 4)):
                        g.emit("get %d" % k)
                    for k in rng.sample(live, min(len(live), 2)):
                        g.emit("getr %d %d %d" % (k, rng.randint(0, 4), rng.choice([1, 1, 2, 3])))
                    if created:
                        # recovery by the documented means: clear, seed again, run the pass
                        g.emit("clrg"); g.emit("state")
                        for k, v in [(rng.choice(live), rng.randint(-3, 3)) for _ in range(rng.randint(1, 3))]:
                            g.emit("seed %d %d" % (k, v))
                        g.emit(kind)
                        for k in rng.sample(live, min(len(live), 4)):
                            g.emit("get %d" % k)
                else:
                    g.emit("clri"); g.emit("clrd"); g.emit("tape")
                    n, m = rng.randint(1, 5), rng.randint(1, 5)
                    indep, dep = tc.pick_lists(rng, g, n, m)
                    if g.hit("jac_no_lists"):
                        g.mark("jac_no_lists", rng.choice(["jac %s mat" % g.mode(), "jac %s ptr 1 %d %d" % (g.mode(), m, n * m)]))
                    order = rng.random() < 0.5
                    for k in (indep if order else dep):
                        g.emit("%s %d" % ("indep" if order else "dep", k))
                    if g.hit("jac_no_lists"):      # only one of the two lists identified
                        g.mark("jac_no_lists", rng.choice(["jac %s mat" % g.mode(), "jac %s ptr 1 %d %d" % (g.mode(), m, n * m)]))
                    for k in (dep if order else indep):
                        g.emit("%s %d" % ("dep" if order else "indep", k))
                    if g.hit("jac_wrong_size"):
                        for _ in range(rng.randint(1, 2)):
                            r_, c_ = m, n
                            while (r_, c_) == (m, n):
                                r_, c_ = rng.choice([(m + 1, n), (m, n + 1), (m - 1, n), (m, n - 1), (n, m), (m + 1, n + 1),
                                                     (rng.randint(0, 9), rng.randint(0, 9))])
                            if min(r_, c_) == 0:
                                r_ = c_ = 0      # a Matrix with one zero extent is the empty 0x0 matrix
                            kind_ = rng.choice(["row", "col"]) if r_ == 0 else rng.choice(["row", "col", "transposed", "strided"])
                            g.mark("jac_wrong_size", "jac %s matarg %s %d %d" % (g.mode(), kind_, r_, c_))
                    g.emit(rng.choice(["jac %s mat" % g.mode(),
                                       "jac %s matarg %s %d %d" % (g.mode(), rng.choice(["row", "col", "transposed", "strided"]), m, n),
                                       "jac %s ptr 1 %d %d" % (g.mode(), m, n * m)]))
            g.emit("tape")
        g.emit("clrg")
        if any(c == want for _, c in g.inj):
            return g.ops, {"inj": g.inj, "vals": vals, "pausable": pausable, "want": want}
    raise RuntimeError("generator cannot place misuse class " + want)


def _mg(line):
    m = re.search(r"\bmg=(\d+)", line)
    return int(m.group(1)) if m else None


def track_a(ops, il, meta):
    """Independent expectations for every operation of a stack-protocol history, from the manual's rules and the
    implementation's own `ok <idx>`, `state` (mg=) and `tape` lines.  Returns (message | None | 'skip', stats)."""
    stats = {"checked": 0, "undecided": 0, "exc": {}}
    idx = {}
    seeded = False
    mg = None; mg_fresh = False; mg_init = None
    tape = None; tape_fresh = False
    g = None            # working gradient vector as dict, None = unknown
    indep, dep = [], []
    paused = False
    vals = dict(meta.get("vals", []))
    inj = dict(meta.get("inj", []))

    def bad(i, exp):
        cls = inj.get(i)
        return ("op %d `%s`%s: implementation printed %r, the manual/protocol requires %r" %
                (i, ops[i], " (injected misuse %s)" % cls if cls else "", il[i][:160], exp))

    for i, (o, l) in enumerate(zip(ops, il)):
        w = o.split(); c = w[0]
        exp = None          # exact expected line, when decidable
        if l.startswith("EXC "):
            _bump(stats["exc"], l[4:])
        hs = []
        if c in ("del", "setp", "seed", "get", "val", "indep", "dep", "cadd", "csub", "cmul", "getr", "setr"):
            hs = [int(w[1])]
        elif c == "newc":
            hs = [int(w[2])]
        elif c in ("adep", "apdep"):
            hs = [int(w[1]), int(w[2])]
        elif c in ("adepv", "apdepv"):
            hs = [int(w[2])] + [int(w[j]) for j in range(5, len(w) - 1, 2)]
        if c in ("cadd", "csub", "cmul") and w[2][0] == "v":
            hs.append(int(w[2][1:]))
        if c == "asg":
            hs = [int(w[1])] + [int(t[1:]) for t in w[2:] if t[0] == "v"]
        if any(h not in idx for h in hs):
            if c != "asg" and l != "EXC unknown_handle":
                return bad(i, "EXC unknown_handle"), stats
            continue
        if c == "cfg":
            idx = {}; seeded = False; mg_fresh = False; tape = []; tape_fresh = True; g = None; indep, dep = [], []; paused = False
        elif c in ("new", "newd", "newc"):
            if not l.startswith("ok "):
                return bad(i, "ok <index>"), stats
            idx[int(w[1])] = int(l.split()[1]); mg_fresh = False
            if c != "newd":
                tape_fresh = False
        elif c == "del":
            del idx[int(w[1])]
        elif c in ("setp", "asg", "cadd", "csub", "cmul", "adep", "adepv"):
            tape_fresh = False
        elif c == "pause":
            paused = meta.get("pausable", False)
        elif c == "cont":
            paused = False
        elif c == "nr":
            seeded = False; g = None; tape = []; tape_fresh = True; indep, dep = [], []; mg_fresh = False
        elif c == "clrg":
            seeded = False; g = None
        elif c == "clri":
            indep = []
        elif c == "clrd":
            dep = []
        elif c == "indep":
            indep.append(idx[int(w[1])])
        elif c == "dep":
            dep.append(idx[int(w[1])])
        elif c == "state":
            mg = _mg(l); mg_fresh = mg is not None
        elif c == "tape":
            try:
                tape = tc.parse_tape(l); tape_fresh = True
            except Exception:
                return "op %d: unparsable tape line %r" % (i, l[:200]), stats
            if tc.tape_abs_bound(tape, set(idx.values())) * 64 >= tc.EXACT_BOUND:
                return "skip", stats
        elif c == "val":
            if i in vals:
                exp = "v %d" % vals[i]
        elif c == "stack2":
            exp = "EXC stack_already_active"
        elif c == "deact":
            exp = "ok 0"
        elif c == "act":
            exp = "ok 1"
        elif c == "apdep":
            if paused:
                exp = "ok"
            elif tape_fresh:
                exp = "ok" if (tape and tape[-1][0] == idx[int(w[1])]) else "EXC wrong_gradient"
            else:
                stats["undecided"] += 1
            tape_fresh = False
        elif c == "seed":
            if not seeded:
                if mg_fresh:
                    mg_init = mg
                else:
                    mg_init = None
                seeded = True; g = {}
            if mg_init is None:
                stats["undecided"] += 1; g = None
            elif idx[int(w[1])] + 1 > mg_init:
                exp = "EXC gradient_out_of_range"
            else:
                exp = "ok"
                if g is not None:
                    g[idx[int(w[1])]] = int(w[2])
        elif c == "get":
            if not seeded:
                exp = "EXC gradients_not_initialized"
            elif mg_init is None:
                stats["undecided"] += 1
            elif idx[int(w[1])] + 1 > mg_init:
                exp = "EXC gradient_out_of_range"
            elif g is not None:
                exp = "g %d" % g.get(idx[int(w[1])], 0)
            else:
                stats["undecided"] += 1
        elif c == "getr":
            # range read (what Array::get_gradient does for an active array / a strided view): n elements from the index of the
            # handle, separation ss; the whole SPAN start .. start+(n-1)*ss must lie inside the vector allocated at the first seed
            start, n_, ss = idx[int(w[1])], int(w[2]), int(w[3])
            endp1 = start if n_ == 0 else start + (n_ - 1) * ss + 1
            if not seeded:
                exp = "EXC gradients_not_initialized"
            elif mg_init is None:
                stats["undecided"] += 1
            elif endp1 > mg_init:
                exp = "EXC gradient_out_of_range"
            elif g is not None:
                exp = ("G " + " ".join(str(g.get(start + j * ss, 0)) for j in range(n_))).rstrip() if n_ else "G"
            else:
                stats["undecided"] += 1
        elif c == "setr":
            start, vs_ = idx[int(w[1])], [int(x) for x in w[2:]]
            if not seeded:
                mg_init = mg if mg_fresh else None
                seeded = True; g = {}
            if mg_init is None:
                stats["undecided"] += 1; g = None
            elif start + len(vs_) > mg_init:
                exp = "EXC gradient_out_of_range"
            else:
                exp = "ok"
                if g is not None:
                    for j, v_ in enumerate(vs_):
                        g[start + j] = v_
        elif c in ("fwd", "rev"):
            if not seeded:
                exp = "EXC gradients_not_initialized"
            elif mg_init is None or not mg_fresh:
                stats["undecided"] += 1; g = None
            elif mg > mg_init:
                exp = "EXC gradient_out_of_range"
            else:
                exp = "ok"
                if g is not None and tape_fresh:
                    g = tc.tape_fwd(tape, g) if c == "fwd" else tc.tape_rev(tape, g)
                else:
                    g = None
        elif c == "jac":
            m_, n_ = len(dep), len(indep)
            if w[2] == "matarg" and (int(w[4]), int(w[5])) != (m_, n_):
                exp = "EXC size_mismatch"
            elif m_ == 0 or n_ == 0:
                exp = "EXC dependents_or_independents_not_identified"
            elif not tape_fresh:
                stats["undecided"] += 1
            else:
                J = tc.jac_from_tape(tape, indep, dep)
                if w[2] in ("mat", "matarg"):
                    p = tc.parse_J(l)
                    if p is None or p[0] != J or p[1]:
                        return bad(i, "J %d %d : %s (re-evaluated from the implementation's own tape)" % (m_, n_, J)), stats
                    stats["checked"] += 1
                elif (int(w[3]), int(w[4]), int(w[5])) == (1, m_, m_ * n_):
                    p = tc.parse_P(l)
                    if p != [J[ii][jj] for jj in range(n_) for ii in range(m_)]:
                        return bad(i, "P <column-major %s>" % J), stats
                    stats["checked"] += 1
        if exp is not None:
            stats["checked"] += 1
            if l != exp:
                return bad(i, exp), stats
            cls = inj.get(i)
            if cls and l.startswith("EXC ") and l[4:] != DOC_A[cls]:
                return "op %d `%s`: misuse class %s raised %r, the manual documents %s" % (i, o, cls, l, DOC_A[cls]), stats
    return None, stats


def reduced(ops, il):
    """the history with every failing operation removed; returns (ops', map new index -> old index)"""
    keep = [i for i, l in enumerate(il[:len(ops)]) if not l.startswith("EXC ")]
    return [ops[i] for i in keep], keep


def judge_a(exe, ops, meta, il=None, rc=0, err=""):
    """(verdict | None | 'skip', stats, impl lines)"""
    if il is None:
        il, rc, err = vcheck.run_impl(exe, [], "\n".join(ops) + "\n")
    if len(il) < len(ops) or rc != 0:
        k = min(len(il), len(ops) - 1)
        return ("implementation aborted at op %d `%s` (rc=%s): %s" % (k, ops[k], rc, sanitizer_summary(err))), {}, il
    v, stats = track_a(ops, il, meta)
    if v is not None:
        return v, stats, il
    rops, keep = reduced(ops, il)
    if len(rops) != len(ops):
        rl, rc2, err2 = vcheck.run_impl(exe, [], "\n".join(rops) + "\n")
        if len(rl) < len(rops) or rc2 != 0:
            return "the history with its failing operations removed aborts: %s" % sanitizer_summary(err2), stats, il
        for j, i in enumerate(keep):
            if rl[j] != il[i]:
                return ("op %d `%s` printed %r; in the same history without the %d failed operations it prints %r: a failed "
                        "operation left a trace" % (i, ops[i], il[i][:160], len(ops) - len(rops), rl[j][:160])), stats, il
    return None, stats, il


def sanitizer_summary(err):
    m = re.search(r"SUMMARY: [^\n]*", err)
    if m:
        return m.group(0)[:300]
    m = re.search(r"runtime error: [^\n]*", err)
    if m:
        return m.group(0)[:300]
    return err.strip()[-300:]


def signature_of(msg):
    """stable key of a failure for known_findings.json"""
    m = re.search(r"SUMMARY: (\w+): ([\w-]+) [^\s]*/(\w+\.(?:h|cpp)):\d+", msg)
    if m:
        return "%s:%s" % (m.group(2), m.group(3))
    m = re.search(r"runtime error: ([a-z -]+?) (?:of type|to|\d|0x)", msg)
    if m:
        return "ubsan:" + m.group(1).strip().replace(" ", "-")
    return None


def shrink_a(exe, ops, meta, kind):
    def fails(sub):
        if not sub or not sub[0].startswith("cfg"):
            return False
        v, _, _ = judge_a(exe, sub, {"pausable": meta.get("pausable", False)})
        if v in (None, "skip"):
            return False
        return ("aborted" in v) == (kind == "crash")
    return vcheck.ddmin(list(ops), fails, max_tests=250)


def run_cases_a(ctx, exe, label, cases):
    text = "".join("\n".join(ops) + "\n" for ops, _ in cases)
    impl, model, rc, err = tc.run_pair(exe, text)
    pos = 0
    # second run: every history with its failing operations removed (oracle 2), one batch
    red = []
    for ops, meta in cases:
        il = impl[pos:pos + len(ops)]; pos += len(ops)
        red.append(reduced(ops, il) if len(il) == len(ops) else (None, None))
    rtext = "".join("\n".join(r[0]) + "\n" for r in red if r[0] is not None)
    rimpl, rrc, rerr = vcheck.run_impl(exe, [], rtext)
    pos = rpos = 0
    for (ops, meta), (rops, keep) in zip(cases, red):
        il, ml = impl[pos:pos + len(ops)], model[pos:pos + len(ops)]
        pos += len(ops)
        if len(il) < len(ops):
            # the batch died inside this case: re-run it alone for a clean replay
            v, _, il1 = judge_a(exe, ops, meta)
            report_a(ctx, exe, label, ops, meta, v or "implementation stopped (rc=%s): %s" % (rc, sanitizer_summary(err)), il1)
            break
        v, stats = track_a(ops, il, meta)
        if v == "skip":
            _bump(ctx.notes, "skipped_inexact"); rpos += len(rops); continue
        if v is None:
            rl = rimpl[rpos:rpos + len(rops)]
            if len(rl) < len(rops):
                v = judge_a(exe, ops, meta)[0]
                if v is None and rrc != 0:
                    v = "a history with its failing operations removed aborts: %s" % sanitizer_summary(rerr)
            else:
                for j, i in enumerate(keep):
                    if rl[j] != il[i]:
                        v = ("op %d `%s` printed %r; in the same history without the %d failed operations it prints %r: a failed "
                             "operation left a trace" % (i, ops[i], il[i][:160], len(ops) - len(rops), rl[j][:160]))
                        break
        rpos += len(rops)
        ninj = len(meta["inj"])
        ctx.count_case(("A", label, tuple(ops)), nontrivial=ninj >= 1 and len(rops) < len(ops),
                       sample={"part": "A", "build": label, "want": meta["want"], "ops": ops[:14] + ["..."], "n_ops": len(ops),
                               "injected": meta["inj"][:6]})
        pa = ctx.notes.setdefault("partA", {"injection_points": {}, "exceptions_seen": {}, "expectations_checked": 0, "undecided": 0})
        for i, cls in meta["inj"]:
            _bump(pa["injection_points"], cls)
        for k, n in stats.get("exc", {}).items():
            _bump(pa["exceptions_seen"], k, n)
        pa["expectations_checked"] += stats.get("checked", 0)
        pa["undecided"] += stats.get("undecided", 0)
        if v is not None:
            report_a(ctx, exe, label, ops, meta, v, il)
        else:
            d = vcheck.first_diff(il, ml)
            if d is not None:
                ctx.cov["disagreements_checked"] += 1
                if len(ctx.pending) < 2:
                    ctx.pending.append({"kind": "correspondence", "part": "A", "build": label, "ops": ops,
                                        "correspondence": "AdeptModel/StackProto.lean <-> adept::Stack protocol (with misuse)",
                                        "first_difference": {"index": d, "op": ops[d], "impl": il[d], "model": ml[d] if d < len(ml) else None}})
    ctx.cov["traces_validated_against_impl"] += len(cases)


def report_a(ctx, exe, label, ops, meta, verdict, il):
    ctx.nbad += 1
    if ctx.nbad > 3:
        return
    kind = "crash" if "aborted" in verdict or "stopped" in verdict else "oracle"
    shr = shrink_a(exe, ops, meta, kind)
    v2, _, il2 = judge_a(exe, shr, {"pausable": meta.get("pausable", False)})
    if v2 in (None, "skip"):
        shr, v2, il2 = ops, verdict, il
    obj = {"kind": kind, "part": "A", "build": label, "pausable": meta.get("pausable", False), "ops": shr, "impl": il2,
           "message": v2, "original_length": len(ops)}
    sig = signature_of(v2)
    if sig:
        obj["signature"] = sig
    ctx.violation("%s [part A, build %s]" % (v2, label), obj)


# =====================================================================================================================
# corpus / replay / run
# =====================================================================================================================
def load_corpus():
    d = os.path.join(vbuild.VERIF, "corpus", "C11")
    out = []
    if os.path.isdir(d):
        for fn in sorted(os.listdir(d)):
            if not fn.endswith(".case"):
                continue
            lines = [l.rstrip("\n") for l in open(os.path.join(d, fn))]
            head = [l[1:].strip() for l in lines if l.startswith("#")]
            ops = [l.strip() for l in lines if l.strip() and not l.startswith("#")]
            part = "B" if any(h.startswith("part B") for h in head) else "A"
            build = next((h.split(None, 1)[1] for h in head if h.startswith("build ")), None)
            out.append({"name": fn, "part": part, "build": build, "ops": ops})
    return out


def run(ctx, replay):
    thms = ([NSA + t for t in vcheck.prop_theorems("AdeptProofs/Props/C11.lean", "C11_") if not t.startswith("C11_arr_")] +
            [NSB + t for t in vcheck.prop_theorems("AdeptProofs/Props/C11.lean", "C11_arr_")])
    fails = vcheck.lean_gate(ctx, ["AdeptProofs.Props.C11"], thms,
                             required=[NSA + r for r in REQUIRED_A] + [NSB + r for r in REQUIRED_B])
    va = [("W4", dict(W=4)), ("W4-pausable", dict(W=4, pausable=True))]
    # the same driver in the configuration ADEPT_STACK_THREAD_UNSAFE (the active stack is a plain global, Stack::activate takes
    # its other branch): the protocol misuses, above all the second stack, must be refused there as well
    unsafe_kw = dict(W=4, extra_defs=["ADEPT_STACK_THREAD_UNSAFE"])
    with ThreadPoolExecutor(max_workers=4) as ex:
        fa = [ex.submit(tc.build, **kw) for _, kw in va]
        fu = ex.submit(tc.build, **unsafe_kw)
        exes_a = [f.result() for f in fa]
        exe_unsafe = fu.result()
    vb = [("default", False), ("bounds", True)]
    with ThreadPoolExecutor(max_workers=2) as ex:
        exes_b = list(ex.map(lambda v: build_b(v[1]), vb))
    ctx.pending, ctx.nbad = [], 0
    quick = ctx.tier == "quick"
    if replay:
        r = json.load(open(replay))
        want_build = (r.get("build") or "").split("/")[0]
        if r.get("part", "A") == "A":
            for (label, kw), exe in list(zip(va, exes_a)) + [(("W4-thread-unsafe", unsafe_kw), exe_unsafe)]:
                if want_build in ("", label):
                    meta = {"pausable": bool(kw.get("pausable")), "inj": [], "vals": [], "want": "replay"}
                    v, _, il = judge_a(exe, r["ops"], meta)
                    ml = vcheck.run_model("tape", "\n".join(r["ops"]) + "\n")
                    for o, a_, b_ in zip(r["ops"], il + ["<none>"] * len(r["ops"]), ml):
                        print("%-34s | %-50s | %s" % (o, a_, "" if a_ == b_ else "model: " + b_))
                    print("verdict [%s]: %s" % (label, v))
                    if v not in (None, "skip"):
                        report_a(ctx, exe, label, r["ops"], meta, v, il)
        else:
            for (label, bounds), exe in zip(vb, exes_b):
                if want_build in ("", label):
                    ops = ["cfg %d" % (1 if bounds else 0)] + r["ops"][1:]
                    meta = {"bounds": bounds, "inj": [], "want": "replay"}
                    v, il = judge_b(exe, ops, meta)
                    ml = vcheck.run_model("misuse", "\n".join(ops) + "\n")
                    for o, a_, b_ in zip(ops, il + ["<none>"] * len(ops), ml):
                        print("%-34s | %-60s | %s" % (o, a_, "" if a_ == b_ else "model: " + b_))
                    print("verdict [%s]: %s" % (label, v))
                    if v is not None:
                        report_b(ctx, exe, label, ops, meta, v, il)
        return
    corpus = load_corpus()
    for (label, kw), exe in zip(va, exes_a):
        pausable = bool(kw.get("pausable"))
        cc = [(c["ops"], {"inj": [], "vals": [], "pausable": pausable, "want": "corpus:" + c["name"]})
              for c in corpus if c["part"] == "A" and (c["build"] in (None, label))]
        if cc:
            run_cases_a(ctx, exe, label + "/corpus", cc)
        per = (150 if quick else 2000)
        cases = []
        for cls in A_CLASSES:
            for j in range(per):
                cases.append(gen_case_a(ctx.rng, kw["W"], pausable, cls, maxnew=3 if quick else 9))
        for k in range(0, len(cases), 400):
            run_cases_a(ctx, exe, label, cases[k:k + 400])
    # ADEPT_STACK_THREAD_UNSAFE build: directed second-stack histories (a second activating Stack right after construction, inside a
    # recording, after deactivate/activate of the first, twice in a row) + random histories of every class (second_stack at the
    # full count, the others at a quarter)
    label = "W4-thread-unsafe"
    directed = []
    for pre in ([], ["nr"], ["nr", "asg 0 mul v0 v1"], ["deact", "act"], ["nr", "asg 1 v0", "deact", "act"], ["stack2"]):
        ops = ["cfg 4 0 1", "new 0 2", "new 1 3"] + pre + ["stack2", "nr", "asg 1 mul v0 v0", "stack2", "tape"]
        directed.append((ops, {"inj": [(i, "second_stack") for i, o in enumerate(ops) if o == "stack2"], "vals": [], "pausable": False,
                               "want": "second_stack"}))
    run_cases_a(ctx, exe_unsafe, label + "/directed", directed)
    per = (150 if quick else 2000)
    cases = []
    for cls in A_CLASSES:
        for j in range(per if cls == "second_stack" else per // 4):
            cases.append(gen_case_a(ctx.rng, 4, False, cls, maxnew=3 if quick else 9))
    for k in range(0, len(cases), 400):
        run_cases_a(ctx, exe_unsafe, label, cases[k:k + 400])
    ctx.notes["partA_builds"] = [l for l, _ in va] + [label]
    for (label, bounds), exe in zip(vb, exes_b):
        cc = [(["cfg %d" % (1 if bounds else 0)] + c["ops"][1:], {"inj": [], "bounds": bounds, "want": "corpus:" + c["name"]})
              for c in corpus if c["part"] == "B" and (c["build"] in (None, label))]
        if cc:
            run_cases_b(ctx, exe, label + "/corpus", cc)
        negdim_ok = probe_negdim(ctx, exe, label, bounds)
        ctx.notes.setdefault("partB", {})["negative_dimension_argument_generated"] = negdim_ok
        run_cases_b(ctx, exe, label + "/directed", directed_cases_b(bounds, negdim_ok))
        per = (PER_CLASS_QUICK if quick else PER_CLASS_THOROUGH)
        cases = []
        for cls in B_CLASSES:
            if cls == "index_oob" and not bounds:
                continue
            for j in range(per):
                cases.append(gen_case_b(ctx.rng, bounds, cls, maxdim=5 if quick else 9, negdim_ok=negdim_ok))
        # mixed histories: all three families of objects in one pool
        for j in range(per):
            prof = ctx.rng.choice(["special", "active"])
            ok = [c for c in B_CLASSES if (bounds or c != "index_oob") and (prof == "active" or c != "active_mismatch")
                  and (prof == "special" or c not in SPECIAL_CLASSES)]
            cases.append(gen_case_b(ctx.rng, bounds, ctx.rng.choice(ok), maxdim=5 if quick else 9, negdim_ok=negdim_ok, profile=prof))
        for k in range(0, len(cases), 400):
            run_cases_b(ctx, exe, label, cases[k:k + 400])
    ctx.cov["rule"] = ("part A: protocol histories of tapecommon.Gen (1-2 recordings, all scalar statement forms, new/delete, "
                       "pause/continue in the pausable build, 2-4 rounds of seeds+pass or lists+Jacobian) with the 8 stack misuse "
                       "classes injected at random points (the wanted class at every possible point with p=0.45, the others with "
                       "p=0.04), %d histories per class and build; part B: histories of 8-30 valid array operations over a pool of "
                       "passive int/double arrays of rank 1-4 (ranks 1,2: 75 %%, 3,4: 25 %%; extents 0..%d, 0..3 for rank 3/4), with the "
                       "`special` profile also FixedArray<3>, FixedArray<2,3>, SymmMatrix, TridiagMatrix objects, with the `active` "
                       "profile also active vectors and matrices inside a recording (rec / jac), with the %d array misuse classes "
                       "injected (wanted class p=0.5 per step, others p=0.03), %d histories per class and build (default, "
                       "ADEPT_BOUNDS_CHECKING) plus as many mixed-profile histories; before them, every run, the directed sweeps of "
                       "directed_cases_b (every reduction function x rank 1-4 x whole / each dimension / each out-of-range dimension "
                       "argument x consistent / disagreeing / empty operands; minloc maxloc find dot_product outer_product spread "
                       "diag_vector diag_matrix where either_or solve; negative extents for every rank and resize form; special and "
                       "active targets); corpus/C11/*.case first; non-trivial = at least one operation failed; distinct = different "
                       "(part, build, op list)" % (150 if quick else 2000, 5 if quick else 9, len(B_CLASSES), PER_CLASS_QUICK if quick else PER_CLASS_THOROUGH))
    ctx.notes["builds"] = [l for l, _ in va] + ["misuse-" + l for l, _ in vb]
    ctx.notes["documented_exception_table"] = {"A": DOC_A, "B": {k: sorted(v) for k, v in DOC_B.items()}}
    ctx.assumptions += ["deactivate() is always followed at once by activate() (no active object is touched without a stack)",
                        "integer-valued tapes / arrays in the exact regime (|values| <= %d in part B)" % VMAX,
                        "part B: passive arrays of rank 1-4, active arrays of rank 1-2, FixedArray<3> / FixedArray<2,3> / SymmMatrix / "
                        "TridiagMatrix (passive); a successful link() is detached again by the harness (sharing is C07's business); "
                        "inv() and solve() are exercised on non-square / mismatched operands and on signed permutation matrices only; "
                        "out-of-range indices are only generated in the ADEPT_BOUNDS_CHECKING build; mean / norm2 of consistent ACTIVE "
                        "operands are not generated (non-integer derivatives); Jacobians are requested with respect to active arrays "
                        "whose storage is unchanged since the last new_recording",
                        "a failing `<<` and a failing where(m) = either_or(c, d) keep their partial effect (the first is documented, the "
                        "second is what the code does: two conditional assignments, each with its own size test) and therefore stay in "
                        "the failed-operations-removed history",
                        "an outer product with an empty factor is reported as size_mismatch (the code's choice; the manual names no "
                        "class); reductions of EMPTY expressions return 0 / the empty array without exception (also for an invalid "
                        "dimension argument), as coded",
                        "a negative dimension argument of a reduction along a dimension (rank >= 2) is generated only when the tree "
                        "reports it (probe_negdim); on the pinned tree it overruns a stack buffer: KNOWN-FINDING line, see PENDING_FINDINGS",
                        "where the manual does not say which of two applicable exceptions is raised (empty operand AND inner mismatch; "
                        "missing permute argument AND empty array; a negative extent after a zero extent) the order of the tests in "
                        "the headers is taken as the reference",
                        "fixes F-40, F-41, F-42, F-44, F-45 (fixes/*.patch) are part of the tree the models transcribe"]
    if not ctx.violations:
        for p in ctx.pending[:1]:
            ctx.violation("model and implementation disagree on a history with misuse (part %s, build %s); the documented-exception "
                          "table, the failed-operations-removed comparison and the re-evaluation oracle found no history on which the "
                          "property itself fails" % (p["part"], p["build"]), p, tag="c", no_input=True)
    if fails and not ctx.violations:
        ctx.violation("proof obligation of C11 no longer checks: " + fails[0][:400],
                      {"kind": "proof", "theorem": "AdeptProofs/Props/C11.lean", "failures": fails}, tag="p", no_input=True)


# =====================================================================================================================
# Part B — array misuse.  Python reference written from the manual (chapter "Arrays", section "Array exceptions");
# where the manual does not say which of two applicable exceptions wins, the order of the tests in the headers is used
# and noted.  It is NOT derived from the Lean model; both are compared with the implementation line by line.
# =====================================================================================================================
B_CLASSES = ["neg_new", "neg_resize", "expr_mismatch", "assign_mismatch", "compound_mismatch", "where_mismatch",
             "fill_overflow", "fill_object_overflow", "fill_empty", "not_square", "link_empty", "matmul_empty",
             "matmul_inner", "permute_invalid", "view_invalid", "index_oob",
             # mismatches inside expressions that are not assignments
             "reduce_mismatch", "reduce_dim_invalid", "loc_mismatch", "expand_mismatch", "wherex_mismatch", "eor_mismatch",
             # square / non-empty / special targets
             "solve_invalid", "special_mismatch", "special_resize",
             # active arrays while recording
             "active_mismatch"]
DOC_B = {
    "neg_new": {"invalid_dimension"},                # "Attempt to create an array with a negative dimension"
    "neg_resize": {"invalid_dimension"},
    "expr_mismatch": {"size_mismatch"},              # "operation taking two arguments ... not of the same size"
    "assign_mismatch": {"size_mismatch"},            # "an array expression is applied to an array of a different size"
    "compound_mismatch": {"size_mismatch"},
    "where_mismatch": {"size_mismatch"},
    "fill_overflow": {"index_out_of_bounds"},        # "index_out_of_bounds exception is thrown if an array is overfilled"
    "fill_object_overflow": {"index_out_of_bounds"},
    "fill_empty": {"empty_array"},                   # "empty_array ... if an attempt is made to fill an empty array"
    "not_square": {"invalid_operation"},             # "calling the diag_submatrix member function of a non-square rank-2 Array"
    "link_empty": {"empty_array"},                   # "if an attempt is made to link an array to an empty array"
    "matmul_empty": {"empty_array"},
    "matmul_inner": {"inner_dimension_mismatch"},
    "permute_invalid": {"invalid_dimension", "empty_array"},
    "view_invalid": {"invalid_dimension", "index_out_of_bounds"},
    "index_oob": {"index_out_of_bounds"},            # only with ADEPT_BOUNDS_CHECKING
    "reduce_mismatch": {"size_mismatch"},            # sum(a+b) …: "operation taking two arguments ... not of the same size"
    "reduce_dim_invalid": {"invalid_dimension"},     # "dim must be less than rank" (reduce.h); the manual names no class of its own
    "loc_mismatch": {"size_mismatch"},               # dot_product: "rank-1 arrays of the same length"
    "expand_mismatch": {"size_mismatch", "invalid_dimension"},   # invalid_dimension: spread(x, n<0) into an empty array
    "wherex_mismatch": {"size_mismatch"},            # "A must be of the same size and rank of the boolean expression"
    "eor_mismatch": {"size_mismatch"},
    "solve_invalid": {"invalid_operation", "size_mismatch"},
    "special_mismatch": {"size_mismatch", "invalid_dimension"},  # invalid_dimension: non-square expression into an EMPTY square matrix
    "special_resize": {"invalid_dimension"},
    "active_mismatch": {"size_mismatch", "invalid_dimension"},
}
VMAX = 5000
EXACT = 2 ** 31 - 1          # no intermediate of an int or double computation may exceed this (int arrays: no overflow)
RED_NUM = ["sum", "mean", "product", "minval", "maxval", "norm2"]
RED_BOOL = ["all", "any", "count"]
KINDS_DYN = "di"


class Exc(Exception):
    pass


class Inexact(Exception):
    """the operation leaves the exact regime (the generator drops it)"""


def pat(seed, t):
    return (seed + 3 * t) % 7 - 3


def prod(ds):
    p = 1
    for d in ds:
        p *= d
    return p


def chk(v):
    if abs(v) > EXACT:
        raise Inexact()
    return v


def numstr(x):
    """as harness num(): integral values in decimal, anything else as the bit pattern of the double"""
    if isinstance(x, int):
        return str(x)
    if x == int(x) and abs(x) < 9.0e15:
        return str(int(x))
    return "x%016x" % struct.unpack("<Q", struct.pack("<d", x))[0]


class PyArr:
    __slots__ = ("ty", "dims", "vals", "der", "inp", "vars")

    def __init__(self, ty, dims, vals, der=None, inp=False, vars_=None):
        self.ty, self.dims, self.vals = ty, list(dims), list(vals)
        self.der = der if der is not None else ([{} for _ in self.vals] if ty == "a" else None)
        self.inp, self.vars = inp, list(vars_ or [])

    @property
    def rank(self):
        return len(self.dims)

    @property
    def empty(self):
        return self.dims[0] == 0

    def copy(self):
        return PyArr(self.ty, self.dims, self.vals, [dict(d) for d in self.der] if self.der is not None else None, self.inp, self.vars)

    def show(self):
        return "%s[%s]=%s" % (self.ty, "x".join(map(str, self.dims)), ",".join(map(numstr, self.vals)))

    def at(self, i, j):
        return self.vals[i * self.dims[1] + j]


def view(dims, vals):
    return "ok view[%s]=%s" % ("x".join(map(str, dims)), ",".join(map(numstr, vals)))


# ---- derivative rows (active arrays): {variable id: coefficient}
def d_add(a, b, ca=1, cb=1):
    out = {}
    for src, c in ((a, ca), (b, cb)):
        if c == 0:
            continue
        for k, v in src.items():
            out[k] = chk(out.get(k, 0) + c * v)
    return {k: v for k, v in out.items() if v != 0}


def project(ty, dims, vals):
    """what a square special matrix keeps of an n x n expression: SymmMatrix reads the lower triangle (and mirrors it),
    TridiagMatrix the three central diagonals"""
    if ty not in "st" or not vals:
        return list(vals)
    n = dims[0]
    if ty == "s":
        return [vals[max(i, j) * n + min(i, j)] for i in range(n) for j in range(n)]
    return [vals[i * n + j] if abs(i - j) <= 1 else 0 for i in range(n) for j in range(n)]


def handles_of(w):
    """the handles the driver shows after the op, in its order"""
    c = w[0]
    if c in ("red", "redd", "loc"):
        return [int(w[2]), int(w[4])]
    if c == "asg":
        return [int(w[1]), int(w[2]), int(w[4])]
    if c in ("cp", "cadd", "csub", "cmul", "link", "find", "dot", "diagm", "solve", "jac"):
        return [int(w[1]), int(w[2])]
    if c in ("where", "matmul", "diagva"):
        return [int(w[1]), int(w[2]), int(w[3])]
    if c == "diagv":
        return [int(w[1]), int(w[2])]
    if c == "outer":
        return [int(x) for x in w[1:5]]
    if c == "spread":
        return [int(w[1]), int(w[3]), int(w[4])]
    if c == "wherex":
        return [int(x) for x in w[1:6]]
    if c == "eor":
        return [int(x) for x in w[1:5]]
    if c in ("reda", "redda"):
        return [int(w[1]), int(w[3]), int(w[5])]
    if c == "fill":
        return [int(w[1])] + [int(x[1:]) for x in w[2:] if x[0] == "a"]
    return [int(w[1])]


class PyPool:
    """reference semantics of the part-B operations"""

    def __init__(self, bounds=False):
        self.bounds = bounds
        self.a = {}
        self.nvar = 0

    def clone(self):
        p = PyPool(self.bounds)
        p.a = {k: v.copy() for k, v in self.a.items()}
        p.nvar = self.nvar
        return p

    # -- helpers
    @staticmethod
    def new_extents(dims):
        """constructor / resize(ExpressionSize): a negative extent is an error; an array with a zero extent is the empty
        array.  (The headers look at the extents in order and stop at the first zero, so a negative extent after a zero
        goes unnoticed; that order is taken from Array::resize.)"""
        for d in dims:
            if d < 0:
                raise Exc("invalid_dimension")
            if d == 0:
                return [0] * len(dims)
        return list(dims)

    @staticmethod
    def square_extent(dims):
        """SymmMatrix / TridiagMatrix(n) or (n, m), resize(n) / resize(n, m): the two-extent form must be square"""
        if len(dims) == 2 and dims[0] != dims[1]:
            raise Exc("invalid_dimension")
        if dims[0] < 0:
            raise Exc("invalid_dimension")
        return [dims[0], dims[0]]

    @staticmethod
    def fresh(ty, dims, seed):
        n = prod(dims)
        vals = [pat(seed, t) for t in range(n)]
        if ty in "st":
            m = dims[0]
            if ty == "s":
                vals = [pat(seed, max(i, j) * m + min(i, j)) for i in range(m) for j in range(m)]
            else:
                vals = [pat(seed, i * m + j) if abs(i - j) <= 1 else 0 for i in range(m) for j in range(m)]
        return PyArr(ty, dims, vals)

    def assign(self, t, dims, vals, der=None):
        """t = <expression of extents dims>; dims None = operands of different extents.  Returns the new target."""
        if dims is None:
            raise Exc("size_mismatch")
        dims = list(dims)
        if t.ty == "f":
            if dims != t.dims:
                raise Exc("size_mismatch")
            return PyArr("f", t.dims, vals)
        if t.ty in "st":
            if t.empty:
                if dims[0] != dims[1]:          # resize(d0, d1) of a square matrix
                    raise Exc("invalid_dimension")
                return PyArr(t.ty, dims, project(t.ty, dims, vals))
            if dims != t.dims:
                raise Exc("size_mismatch")
            return PyArr(t.ty, t.dims, project(t.ty, dims, vals))
        if t.empty:
            if dims[0] == 0:
                dims = [0] * len(dims)
            return PyArr(t.ty, dims, vals, der, False, [])      # new storage: no longer the object that was an input
        if dims != t.dims:
            raise Exc("size_mismatch")
        return PyArr(t.ty, t.dims, vals, der, t.inp, t.vars)

    @staticmethod
    def binexpr(op, x, y):
        """(extents | None, values, derivative rows | None) of the element-wise expression x op y"""
        if x.dims != y.dims:
            return None, [], None
        f = {"add": lambda p, q: p + q, "sub": lambda p, q: p - q, "mul": lambda p, q: p * q}[op]
        vals = [chk(f(p, q)) for p, q in zip(x.vals, y.vals)]
        der = None
        if x.ty == "a":
            if op == "mul":
                der = [d_add(dx, dy, q, p) for p, q, dx, dy in zip(x.vals, y.vals, x.der, y.der)]
            else:
                der = [d_add(dx, dy, 1, 1 if op == "add" else -1) for dx, dy in zip(x.der, y.der)]
        return x.dims, vals, der

    @staticmethod
    def reduce_list(fn, vals, der=None):
        """one reduction over a non-empty list: (value, derivative row | None)"""
        if fn == "sum" or fn == "mean":
            s = chk(sum(vals))
            d = None
            if der is not None:
                d = {}
                for r in der:
                    d = d_add(d, r)
            if fn == "mean":
                return s / len(vals), d
            return s, d
        if fn == "product":
            p = 1
            d = {} if der is not None else None
            for i, v in enumerate(vals):
                if der is not None:
                    d = d_add(d, der[i], v, p)          # d(p*v) = v dp + p dv
                p = chk(p * v)
            return p, d
        if fn in ("minval", "maxval"):
            best = 0
            for i, v in enumerate(vals):                   # the first extreme element (strict comparison)
                if (v < vals[best]) if fn == "minval" else (v > vals[best]):
                    best = i
            return vals[best], (der[best] if der is not None else None)
        if fn == "norm2":
            ss = chk(sum(chk(v * v) for v in vals))
            return math.sqrt(ss), None
        if fn == "all":
            return int(all(vals)), None
        if fn == "any":
            return int(any(vals)), None
        if fn == "count":
            return sum(1 for v in vals if v), None
        raise RuntimeError(fn)

    @staticmethod
    def strips(dims, dim):
        """index lists of the strips along `dim` of a row-major array, in the order of the reduced array"""
        rank = len(dims)
        out_dims = [d for q, d in enumerate(dims) if q != dim]
        strides = [prod(dims[q + 1:]) for q in range(rank)]
        res = []
        for t in range(prod(out_dims)):
            idx, r = [], t
            for d in reversed(out_dims):
                idx.append(r % d); r //= d
            idx.reverse()
            full = idx[:dim] + [0] + idx[dim:]
            base = sum(i * s for i, s in zip(full, strides))
            res.append([base + q * strides[dim] for q in range(dims[dim])])
        return out_dims, res

    def reduce_op(self, fn, dims, vals, der, has_dim, dim):
        """fn(expr) or fn(expr, dim) for an expression of extents dims (None: invalid).  Order of the tests as in
        reduce.h: (rank 1 with a dimension argument: dim must be 0) - valid expression - empty - dim < rank.
        Returns ('elem', value, der) or ('view', dims, values, ders)."""
        rank = len(dims) if dims is not None else None
        if has_dim and self.rank_hint == 1 and dim != 0:
            raise Exc("invalid_dimension")
        if dims is None:
            raise Exc("size_mismatch")
        if not has_dim or rank == 1:
            if dims[0] == 0:
                return ("elem", 0, {} if der is not None else None)
            v, d = self.reduce_list(fn, vals, der)
            return ("elem", v, d)
        if dims[0] == 0:
            return ("view", [0] * (rank - 1), [], [])
        if dim >= rank or dim < 0:
            raise Exc("invalid_dimension")
        out_dims, strips = self.strips(dims, dim)
        rv, rd = [], []
        for ix in strips:
            v, d = self.reduce_list(fn, [vals[i] for i in ix], [der[i] for i in ix] if der is not None else None)
            rv.append(v); rd.append(d)
        return ("view", out_dims, rv, rd)

    # -- one op; returns the status string
    def apply(self, w):
        c = w[0]
        a = self.a
        if c == "rec":
            for x in a.values():
                if x.ty == "a":
                    x.vars = list(range(self.nvar, self.nvar + len(x.vals)))
                    self.nvar += len(x.vals)
                    x.der = [{v: 1} for v in x.vars]
                    x.inp = True
            return "ok"
        if c == "new":
            k, ty, seed, dims = int(w[1]), w[2], int(w[3]), [int(x) for x in w[4:]]
            if ty in "st":
                ext = self.square_extent(dims)
            elif ty == "f":
                if dims not in ([3], [2, 3]):
                    raise RuntimeError("fixed extents")
                ext = dims
            else:
                ext = self.new_extents(dims)
            a[k] = self.fresh(ty, ext, seed)
            return "ok"
        if c in ("red", "redd", "loc"):
            return self.apply_fnfirst(w)
        k = int(w[1])
        t = a[k]
        if c in ("resize", "resized", "resizerm", "resizecm"):
            seed, dims = int(w[2]), [int(x) for x in w[3:]]
            if t.ty in "st":
                a[k] = self.fresh(t.ty, self.square_extent(dims), seed)
                return "ok"
            if c == "resize" and any(d < 0 for d in dims):
                raise Exc("invalid_dimension")
            a[k] = self.fresh(t.ty, self.new_extents(dims), seed)
            return "ok"
        if c == "asg":
            x, y = a[int(w[2])], a[int(w[4])]
            dims, vals, der = self.binexpr(w[3], x, y)
            a[k] = self.assign(t, dims, vals, der)
            return "ok"
        if c == "cp":
            x = a[int(w[2])]
            a[k] = self.assign(t, x.dims, x.vals, [dict(d) for d in x.der] if x.der is not None else None)
            return "ok"
        if c in ("cadd", "csub", "cmul"):
            x = a[int(w[2])]
            dims, vals, der = self.binexpr(c[1:], t, x) if t.ty == x.ty else self.binexpr(c[1:], PyArr("d", t.dims, t.vals), x)
            a[k] = self.assign(t, dims, vals, der)
            return "ok"
        if c == "where":
            m, x = a[int(w[2])], a[int(w[3])]
            if m.dims != t.dims or x.dims != t.dims:
                raise Exc("size_mismatch")
            vals = [xv if mv > 0 else tv for tv, mv, xv in zip(t.vals, m.vals, x.vals)]
            der = None
            if t.ty == "a":
                der = [dict(dx) if mv > 0 else dt for dt, mv, dx in zip(t.der, m.vals, x.der)]
            a[k] = PyArr(t.ty, t.dims, vals, der, t.inp, t.vars)
            return "ok"
        if c == "wherex":
            m1, m2, x, y = (a[int(q)] for q in w[2:6])
            if m1.dims != m2.dims or m1.dims != t.dims:        # the mask must be a valid expression of the target's size
                raise Exc("size_mismatch")
            dims, vals, _ = self.binexpr("add", x, y)
            if dims is None or dims != t.dims:
                raise Exc("size_mismatch")
            a[k] = PyArr(t.ty, t.dims, [v if p > q else tv for tv, p, q, v in zip(t.vals, m1.vals, m2.vals, vals)])
            return "ok"
        if c == "eor":
            # A.where(M) = either_or(C, D).  The headers assign D where the mask is false, then C where it is true, each
            # with its own size test: a wrongly sized C is reported after D has been stored (noted as an observation)
            m, cc, dd = (a[int(q)] for q in w[2:5])
            if m.dims != t.dims:
                raise Exc("size_mismatch")
            if dd.dims != t.dims:
                raise Exc("size_mismatch")
            a[k] = t = PyArr(t.ty, t.dims, [tv if mv > 0 else dv for tv, mv, dv in zip(t.vals, m.vals, dd.vals)])
            m, cc = a[int(w[2])], a[int(w[3])]                 # the mask / C may be the target itself
            if cc.dims != t.dims:
                raise Exc("size_mismatch")
            a[k] = PyArr(t.ty, t.dims, [cv if mv > 0 else tv for tv, mv, cv in zip(t.vals, m.vals, cc.vals)])
            return "ok"
        if c == "fill":
            if t.empty:
                raise Exc("empty_array")
            self.fill(k, w[2:])
            return "ok"
        if c == "diag":
            o = int(w[2])
            if t.empty:
                return "ok view[0]="
            n = t.dims[0]
            if n != t.dims[1]:
                raise Exc("invalid_operation")
            ln = n - abs(o)
            if ln < 0:
                raise Exc("invalid_dimension")
            v = [t.at(i, i + o) if o >= 0 else t.at(i - o, i) for i in range(ln)]
            return view([ln], v)
        if c == "subdiag":
            ib, ie = int(w[2]), int(w[3])
            n = t.dims[0]
            if n != t.dims[1]:
                raise Exc("invalid_operation")
            if ib < 0 or ib > ie or ie >= n:
                raise Exc("index_out_of_bounds")
            ln = ie - ib + 1
            v = [t.at(ib + i, ib + j) for i in range(ln) for j in range(ln)]
            return view([ln, ln], v)
        if c == "inv":
            n = t.dims[0]
            if n != t.dims[1]:
                raise Exc("invalid_operation")
            v = [t.at(j, i) for i in range(n) for j in range(n)]      # generator: signed permutation matrices only
            return view([n, n], v)
        if c == "solve":
            b = a[int(w[2])]
            n = t.dims[0]
            if n != t.dims[1]:
                raise Exc("invalid_operation")
            if b.dims[0] != n:
                raise Exc("size_mismatch")
            # generator: signed permutation matrices only, whose inverse is the transpose
            if b.rank == 1:
                return view([n], [sum(t.at(q, i) * b.vals[q] for q in range(n)) for i in range(n)])
            m = b.dims[1]
            return view([n, m], [sum(t.at(q, i) * b.at(q, j) for q in range(n)) for i in range(n) for j in range(m)])
        if c == "link":
            x = a[int(w[2])]
            if x.empty:
                raise Exc("empty_array")
            a[k] = x.copy()
            return "ok"
        if c == "matmul":
            x, y = a[int(w[2])], a[int(w[3])]
            if x.empty or y.empty:                      # order of the two tests as in matmul.h
                raise Exc("empty_array")
            X = [x.vals] if x.rank == 1 else [x.vals[i * x.dims[1]:(i + 1) * x.dims[1]] for i in range(x.dims[0])]
            Y = [[v] for v in y.vals] if y.rank == 1 else [y.vals[i * y.dims[1]:(i + 1) * y.dims[1]] for i in range(y.dims[0])]
            if len(X[0]) != len(Y):
                raise Exc("inner_dimension_mismatch")
            P = [[sum(X[i][q] * Y[q][j] for q in range(len(Y))) for j in range(len(Y[0]))] for i in range(len(X))]
            dims = [len(P)] if y.rank == 1 else [len(P[0])] if x.rank == 1 else [len(P), len(P[0])]
            a[k] = self.assign(t, dims, [v for row in P for v in row])
            return "ok"
        if c == "permute":
            p0, p1 = int(w[2]), int(w[3])
            if p0 == -1 or p1 == -1:                    # "incorrect number of dimensions" comes first in the headers
                raise Exc("invalid_dimension")
            if t.empty:
                raise Exc("empty_array")
            if sorted([p0, p1]) != [0, 1]:
                raise Exc("invalid_dimension")
            if p0 == 0:
                return view(t.dims, t.vals)
            v = [t.at(j, i) for i in range(t.dims[1]) for j in range(t.dims[0])]
            return view([t.dims[1], t.dims[0]], v)
        if c == "get":
            idx = [int(x) for x in w[2:]]
            if any(not (0 <= i < d) for i, d in zip(idx, t.dims)):
                if not self.bounds:
                    raise RuntimeError("generator produced an unchecked out-of-range access")
                raise Exc("index_out_of_bounds")
            flat = 0
            for i, d in zip(idx, t.dims):
                flat = flat * d + i
            return "ok elem=%d" % t.vals[flat]
        if c == "range":
            b, e = int(w[2]), int(w[3])
            n = t.dims[0]
            if not (0 <= b < n and 0 <= e < n):
                if not self.bounds:
                    raise RuntimeError("generator produced an unchecked out-of-range access")
                raise Exc("index_out_of_bounds")
            if e - b + 1 < 0:
                raise Exc("invalid_dimension")
            v = t.vals[b:e + 1]
            return view([len(v)], v)
        if c == "reshape":
            r, cc = int(w[2]), int(w[3])
            if r * cc != t.dims[0] or r < 0 or cc < 0:
                raise Exc("invalid_dimension")
            return view([r, cc], t.vals)
        if c == "clear":
            a[k] = PyArr(t.ty, [0] * t.rank, [])
            return "ok"
        # ---- expressions that are not assignments of a plain element-wise expression
        if c == "find":
            y = a[int(w[2])]
            if t.dims != y.dims:
                raise Exc("size_mismatch")
            v = [i for i, (p, q) in enumerate(zip(t.vals, y.vals)) if p > q]
            return view([len(v)], v)
        if c == "dot":
            y = a[int(w[2])]
            if t.dims != y.dims:                        # "two arguments that must be rank-1 arrays of the same length"
                raise Exc("size_mismatch")
            return "ok elem=%d" % chk(sum(chk(p * q) for p, q in zip(t.vals, y.vals)))
        if c == "outer":
            x, y, z = (a[int(q)] for q in w[2:5])
            if x.dims != y.dims:
                raise Exc("size_mismatch")
            if x.empty or z.empty:                      # an outer product without elements is an invalid expression
                raise Exc("size_mismatch")
            vals = [chk((p + q) * r) for p, q in zip(x.vals, y.vals) for r in z.vals]
            a[k] = self.assign(t, [x.dims[0], z.dims[0]], vals)
            return "ok"
        if c == "spread":
            D, n = int(w[2]), int(w[5])
            x, y = a[int(w[3])], a[int(w[4])]
            if x.dims != y.dims:
                raise Exc("size_mismatch")
            dims = x.dims[:D] + [n] + x.dims[D:]
            if n == 0:
                dims[0] = 0
            if t.empty:
                ext = self.new_extents(dims)            # resize to the extents of the expression: a negative n is refused
            elif dims != t.dims:
                raise Exc("size_mismatch")
            else:
                ext = dims
            e = [p + q for p, q in zip(x.vals, y.vals)]
            vals = []
            if ext[0] != 0:
                inner = prod(x.dims[D:])
                for o in range(prod(x.dims[:D])):
                    for _ in range(n):
                        vals.extend(e[o * inner:(o + 1) * inner])
            a[k] = PyArr(t.ty, ext, vals)
            return "ok"
        if c == "diagv":
            y, o = a[int(w[2])], int(w[3])
            if t.dims != y.dims:
                raise Exc("size_mismatch")
            R, C = t.dims
            ln = min(R, C - o) if o >= 0 else min(R + o, C)
            if ln < 0:
                raise Exc("invalid_dimension")
            e = [p + q for p, q in zip(t.vals, y.vals)]
            v = [e[j * C + j + o] if o >= 0 else e[(j - o) * C + j] for j in range(ln)]
            return view([ln], v)
        if c == "diagm":
            y = a[int(w[2])]
            if t.dims != y.dims:
                raise Exc("size_mismatch")
            n = t.dims[0]
            e = [p + q for p, q in zip(t.vals, y.vals)]
            return view([n, n], [e[i] if i == j else 0 for i in range(n) for j in range(n)])
        # ---- active arrays
        if c == "reda":
            x, y = a[int(w[3])], a[int(w[5])]
            dims, vals, der = self.binexpr(w[4], x, y)
            self.rank_hint = x.rank
            _, v, d = self.reduce_op(w[2], dims, vals, der, False, 0)
            if w[2] in ("mean", "norm2"):
                raise RuntimeError("mean/norm2 of consistent active operands is outside the model")
            if not t.empty:
                a[k] = PyArr("a", t.dims, [v] * len(t.vals), [dict(d) for _ in t.vals], t.inp, t.vars)
            return "ok"
        if c == "redda":
            x, y = a[int(w[3])], a[int(w[5])]
            dims, vals, der = self.binexpr(w[4], x, y)
            self.rank_hint = x.rank
            _, od, ov, odr = self.reduce_op(w[2], dims, vals, der, True, int(w[6]))
            nt = self.assign(t, od, ov, odr)
            nt.inp, nt.vars = False, []                 # assignment of a temporary may exchange the storage of the target
            a[k] = nt
            return "ok"
        if c == "diagva":
            x, y, o = a[int(w[2])], a[int(w[3])], int(w[4])
            dims, vals, der = self.binexpr("add", x, y)
            if dims is None:
                raise Exc("size_mismatch")
            R, C = dims
            ln = min(R, C - o) if o >= 0 else min(R + o, C)
            if ln < 0:
                raise Exc("invalid_dimension")
            ix = [j * C + j + o if o >= 0 else (j - o) * C + j for j in range(ln)]
            nt = self.assign(t, [ln], [vals[i] for i in ix], [der[i] for i in ix])
            nt.inp, nt.vars = False, []
            a[k] = nt
            return "ok"
        if c == "jac":
            x = a[int(w[2])]
            if not x.inp or x.empty or t.empty:
                raise RuntimeError("jac outside the model")
            return view([len(t.vals), len(x.vars)], [row.get(v, 0) for row in t.der for v in x.vars])
        raise RuntimeError("unknown op " + c)

    def apply_fnfirst(self, w):
        c, fn = w[0], w[1]
        a = self.a
        x, y = a[int(w[2])], a[int(w[4])]
        if c == "loc":
            dims, vals, _ = self.binexpr(w[3], x, y)
            if dims is None:
                raise Exc("size_mismatch")
            best = 0
            for i, v in enumerate(vals):
                if (v < vals[best]) if fn == "minloc" else (v > vals[best]):
                    best = i
            return "ok elem=%d" % best
        has_dim = c == "redd"
        dim = int(w[5]) if has_dim else 0
        self.rank_hint = x.rank
        if fn in RED_BOOL:
            dims = x.dims if x.dims == y.dims else None
            vals = [int(p > q) for p, q in zip(x.vals, y.vals)]
        else:
            dims, vals, _ = self.binexpr(w[3], x, y)
        r = self.reduce_op(fn, dims, vals, None, has_dim, dim)
        if r[0] == "elem":
            return "ok elem=%s" % numstr(r[1])
        return view(r[1], r[2])

    def fill(self, k, items):
        """t << item << item …: objects are placed left to right, a row of objects at a time; elements written before the
        object that does not fit stay written"""
        t = self.a[k]
        R, C = (1, t.dims[0]) if t.rank == 1 else t.dims
        r = c = 0
        h = 0            # height of the objects on the current row (0: row not started)
        for it in items:
            if it[0] == "a":
                x = self.a[int(it[1:])]
                if x.empty:
                    continue
                p, q = (1, x.dims[0]) if x.rank == 1 else x.dims
                xv = x.vals
            else:
                p, q, xv = 1, 1, [int(it)]
            if c >= C:                         # row of objects complete: next row, below the objects of this one
                if t.rank == 1 or r + h >= R:
                    raise Exc("index_out_of_bounds")
                r += h; c = 0; h = 0
            if c == 0:
                h = p
            elif t.rank == 2 and h != p:          # objects of different height on one row
                raise Exc("index_out_of_bounds")
            if (it[0] == "a" and x.rank == 2 and r + p > R) or c + q > C:
                raise Exc("index_out_of_bounds")
            for i in range(p):
                for j in range(q):
                    t.vals[(r + i) * C + c + j] = xv[i * q + j]
            c += q

    def line(self, op):
        """the line the driver must print for `op` (and performs it)"""
        w = op.split()
        if w[0] in ("rec", "order"):
            if w[0] == "rec":
                self.apply(w)
            return "ok"
        hs = handles_of(w)
        act = any(h in self.a and self.a[h].ty == "a" for h in hs) or (w[0] == "new" and w[2] == "a")
        try:
            st = self.apply(w)
        except Exc as e:
            st = "EXC " + str(e) + (" rec+0+0" if act else "")     # a failed statement has pushed nothing on the recording
        seen = []
        for h in hs:
            if h not in seen:
                seen.append(h)
        return st + "".join(" | %d:%s" % (h, self.a[h].show() if h in self.a else "-") for h in seen)


SPECIAL_CLASSES = ("special_mismatch", "special_resize")
H_DYN, H_SPEC, H_ACT = range(0, 8), range(8, 12), range(12, 20)


class GenSkip(Exception):
    pass


class GenB:
    """histories over three families of objects: passive dynamic arrays (handles 0-7, kinds d i, rank 1-4), FixedArray /
    SymmMatrix / TridiagMatrix objects (handles 8-11, with the `special` profile) and active arrays (handles 12-19, with the
    `active` profile, inside a recording)"""

    def __init__(self, rng, bounds, want, maxdim, negdim_ok=True, profile=None):
        self.rng, self.bounds, self.want, self.maxdim = rng, bounds, want, maxdim
        self.negdim_ok = negdim_ok
        self.pool = PyPool(bounds)
        self.ops, self.exp, self.inj = [], [], []
        self.nh = 8
        self.busy = set()
        self.profile = profile or ("active" if want == "active_mismatch" else "special" if want in SPECIAL_CLASSES else "dyn")

    def prob(self, cls):
        return (0.35 if self.profile == "active" else 0.5) if cls == self.want else 0.03

    def hit(self, cls):
        return self.rng.random() < self.prob(cls)

    def derived_jacobian(self):
        """a dependent array computed from an input of the recording, then the Jacobian with respect to that input"""
        r = self.rng
        P = self.pool.a
        self.busy = set()
        try:
            i = self.pick(lambda b: b.inp and not b.empty, fam="a")
            if i is None:
                return False
            j = self.like(P[i])
            t = self.like(P[i], dims=[0] * P[i].rank) if r.random() < 0.6 else self.like(P[i])
            self.emit("asg %d %d %s %d" % (t, i, r.choice(["mul", "add", "sub", "mul"]), j))
            if r.random() < 0.5:
                self.emit("%s %d %d" % (r.choice(["cmul", "cadd"]), t, i))
            if r.random() < 0.4:
                self.emit("reda %d %s %d mul %d" % (t, r.choice(["sum", "product", "minval", "maxval"]), t, j))
            if P[t].empty or not P[i].inp or P[i].empty:
                return False
            ok = self.emit("jac %d %d" % (t, i))
            if P[j].inp and not P[j].empty:
                self.emit("jac %d %d" % (t, j))
            return ok
        except GenSkip:
            return False

    def emit(self, op, cls=None):
        """perform on the reference pool; refuse (False) operations whose values leave the exact regime"""
        trial = self.pool.clone()
        try:
            line = trial.line(op)
        except Inexact:
            return False
        if any(abs(v) > VMAX for a in trial.a.values() for v in a.vals):
            return False
        if any(abs(c) > VMAX * VMAX for a in trial.a.values() if a.der for d in a.der for c in d.values()):
            return False
        if cls is not None and line.startswith("EXC ") and line[4:].split(" |")[0].split()[0] in DOC_B[cls]:
            self.inj.append((len(self.ops), cls))
        line2 = self.pool.line(op)          # in place: the dictionary and the untouched arrays keep their identity
        assert line2 == line
        self.ops.append(op); self.exp.append(line)
        return True

    def dim(self, lo=0, rank=1):
        r = self.rng
        if rank >= 3:
            return r.choice([lo, 1, 2, 2, 3] if rank == 3 else [lo, 1, 2, 2])
        return r.choice([lo, 1, 1, 2, 2, 3, 3, 4, 5]) if self.maxdim <= 5 else r.randint(lo, self.maxdim)

    def pick(self, pred=lambda a: True, fam="di"):
        c = [k for k, a in self.pool.a.items() if a.ty in fam and pred(a)]
        if not c:
            return None
        k = self.rng.choice(c)
        self.busy.add(k)         # an object chosen for the current step is not overwritten by a later `like`
        return k

    def hrange(self, ty):
        return H_DYN if ty in "di" else H_ACT if ty == "a" else H_SPEC

    def new_valid(self, k=None, ty=None, rank=None, dims=None):
        r = self.rng
        ty = ty or r.choice("di")
        k = r.choice(list(self.hrange(ty))) if k is None else k
        if ty == "f":
            dims = r.choice([[3], [2, 3]])
        elif ty in "st":
            n = self.dim()
            dims = [n] if r.random() < 0.7 else [n, n]
        else:
            rank = rank or (r.choice([1, 1, 1, 2, 2, 2, 3, 4]) if ty in "di" else r.choice([1, 2]))
            if dims is None:
                dims = [self.dim(rank=rank) for _ in range(rank)]
                if rank == 2 and r.random() < 0.35:
                    dims[1] = dims[0]
        return self.emit("new %d %s %d %s" % (k, ty, r.randint(0, 6), " ".join(map(str, dims))))

    def like(self, a, k=None, dims=None):
        """make (or find) another array of the kind of `a` with the given extents; returns its handle"""
        dims = a.dims if dims is None else dims
        c = [h for h, b in self.pool.a.items() if b.ty == a.ty and b.dims == list(dims) and b is not a]
        if c and self.rng.random() < (0.85 if a.ty == "a" else 0.6):
            k2 = self.rng.choice(c)
            self.busy.add(k2)
            return k2
        hr = [h for h in self.hrange(a.ty) if h not in self.busy and not (h in self.pool.a and self.pool.a[h] is a)]
        if not hr:
            raise GenSkip()
        if a.ty == "a":
            # the inputs of the recording are kept alive (a Jacobian is requested with respect to them at the end)
            pref = [h for h in hr if not (h in self.pool.a and self.pool.a[h].inp)]
            if pref and self.rng.random() < 0.9:
                hr = pref
        k2 = self.rng.choice(hr) if k is None else k
        self.busy.add(k2)
        d = list(dims)
        if a.ty in "st":
            d = [dims[0]]
        self.emit("new %d %s %d %s" % (k2, a.ty, self.rng.randint(0, 6), " ".join(map(str, d))))
        return k2

    def other_dims(self, dims, square=False):
        r = self.rng
        rank = len(dims)
        for _ in range(20):
            if square:
                n = max(0, dims[0] + r.choice([-2, -1, 1, 2]))
                d = [n, n]
            else:
                d = [max(0, x + r.choice([-2, -1, 1, 2, 0])) for x in dims] if r.random() < 0.7 else [self.dim(rank=rank) for _ in dims]
                if rank == 2 and d != list(dims) and r.random() < 0.15:
                    d = [dims[1], dims[0]]              # transposed extents: same number of elements
            if 0 in d:
                d = [0] * len(d)
            if d != list(dims):
                return d
        return [x + 1 for x in dims]

    def operands(self, a, mismatch):
        """handles (i, j) of two arrays of the kind of a: consistent, or with different extents"""
        i = self.like(a)
        j = self.like(a, dims=self.other_dims(a.dims)) if mismatch else self.like(a)
        if self.rng.random() < 0.5:
            i, j = j, i
        return i, j

    # ---------------------------------------------------------------- misuses
    def misuse(self, cls):
        self.busy = set()
        try:
            return self.misuse_(cls)
        except GenSkip:
            return False

    def valid(self):
        self.busy = set()
        try:
            return self.valid_()
        except GenSkip:
            return False

    def misuse_(self, cls):
        r = self.rng
        P = self.pool.a
        if cls == "neg_new":
            ty = r.choice("ddiia") if self.profile == "active" else r.choice("di")
            rank = r.choice([1, 2]) if ty == "a" else r.choice([1, 2, 2, 3, 4])
            dims = [self.dim(1, rank) for _ in range(rank)]
            dims[r.randrange(rank)] = -r.randint(1, 9)
            if rank >= 2 and dims[0] < 0 and r.random() < 0.3:
                dims[1] = r.choice([0, -1, 3])
            return self.emit("new %d %s %d %s" % (r.choice(list(self.hrange(ty))), ty, r.randint(0, 6), " ".join(map(str, dims))), cls)
        if cls == "neg_resize":
            k = self.pick(fam="dia")
            if k is None:
                return False
            a = P[k]
            dims = [self.dim(1, a.rank) for _ in range(a.rank)]
            dims[r.randrange(a.rank)] = -r.randint(1, 9)
            form = r.choice(["resize", "resized", "resizerm", "resizecm"])
            if form == "resize" and a.rank >= 2 and r.random() < 0.3:
                dims = [0] * a.rank
                dims[r.randrange(1, a.rank)] = -r.randint(1, 4)     # the integer form validates every extent before looking for zeros
            return self.emit("%s %d %d %s" % (form, k, r.randint(0, 6), " ".join(map(str, dims))), cls)
        if cls in ("expr_mismatch", "assign_mismatch", "compound_mismatch", "where_mismatch"):
            k = self.pick()
            if k is None:
                return False
            a = P[k]
            if cls == "expr_mismatch":
                i = self.like(a, dims=self.other_dims(a.dims))
                j = k if r.random() < 0.5 else self.like(a)
                if r.random() < 0.5:
                    i, j = j, i
                tgt = r.choice([k, i, j, self.like(a, dims=[0] * a.rank)])
                return self.emit("asg %d %d %s %d" % (tgt, i, r.choice(["add", "sub", "mul"]), j), cls)
            if cls == "assign_mismatch":
                if a.empty:
                    return False
                i = self.like(a, dims=self.other_dims(a.dims))
                if r.random() < 0.5:
                    return self.emit("cp %d %d" % (k, i), cls)
                j = self.like(P[i])
                return self.emit("asg %d %d %s %d" % (k, i, r.choice(["add", "sub", "mul"]), j), cls)
            if cls == "compound_mismatch":
                i = self.like(a, dims=self.other_dims(a.dims))
                return self.emit("%s %d %d" % (r.choice(["cadd", "csub", "cmul"]), k, i), cls)
            # where: mask or right-hand side of other extents
            which = r.choice(["mask", "rhs", "both"])
            m = self.like(a, dims=self.other_dims(a.dims)) if which in ("mask", "both") else self.like(a)
            i = self.like(a, dims=self.other_dims(a.dims)) if which in ("rhs", "both") else self.like(a)
            if P[m].dims == a.dims and P[i].dims == a.dims:
                return False
            return self.emit("where %d %d %d" % (k, m, i), cls)
        if cls == "fill_overflow":
            k = self.pick(lambda a: not a.empty and a.rank <= 2)
            if k is None:
                return False
            n = prod(P[k].dims)
            return self.emit("fill %d %s" % (k, " ".join(str(r.randint(-4, 4)) for _ in range(n + r.randint(1, 3)))), cls)
        if cls == "fill_object_overflow":
            k = self.pick(lambda a: not a.empty and a.rank <= 2)
            if k is None:
                return False
            a = P[k]
            items = []
            for _ in range(r.randint(1, 5)):
                x = r.random()
                if x < 0.3:
                    items.append(str(r.randint(-4, 4)))
                else:
                    h = self.pick(lambda b: b.rank <= a.rank and not b.empty and b is not a)
                    if h is None:
                        items.append(str(r.randint(-4, 4)))
                    else:
                        items.append("a%d" % h)
            op = "fill %d %s" % (k, " ".join(items))
            trial = self.pool.clone()
            if not trial.line(op).startswith("EXC index_out_of_bounds"):
                # make it overflow for sure: append objects until it does
                h = self.pick(lambda b: b.rank <= a.rank and not b.empty and b is not a)
                if h is None:
                    return False
                for _ in range(prod(a.dims) + 1):
                    items.append("a%d" % h)
                    op = "fill %d %s" % (k, " ".join(items))
                    if self.pool.clone().line(op).startswith("EXC index_out_of_bounds"):
                        break
            return self.emit(op, cls)
        if cls == "fill_empty":
            k = self.pick(lambda a: a.empty and a.rank <= 2)
            if k is None:
                self.new_valid(dims=[0] * r.choice([1, 2]))
                k = self.pick(lambda a: a.empty and a.rank <= 2)
                if k is None:
                    return False
            items = [str(r.randint(-4, 4))] if r.random() < 0.6 else ["a%d" % (self.pick() or k)]
            if items[0][0] == "a" and P[int(items[0][1:])].rank > P[k].rank:
                items = ["1"]
            return self.emit("fill %d %s" % (k, " ".join(items)), cls)
        if cls == "not_square":
            if self.profile == "special" and r.random() < 0.4:
                k = self.pick(lambda a: a.dims == [2, 3], fam="f")
                if k is None:
                    return False
                return self.emit(r.choice(["diag %d %d" % (k, r.randint(-2, 2)), "subdiag %d %d %d" % (k, r.randint(0, 1), r.randint(0, 2))]), cls)
            k = self.pick(lambda a: a.rank == 2 and a.dims[0] != a.dims[1])
            if k is None:
                d0 = self.dim(1)
                self.new_valid(rank=2, dims=[d0, d0 + r.choice([1, 2, 3])] if r.random() < 0.5 else [d0 + r.choice([1, 2]), d0])
                k = self.pick(lambda a: a.rank == 2 and a.dims[0] != a.dims[1])
                if k is None:
                    return False
            a = P[k]
            x = r.random()
            if x < 0.4:
                return self.emit("diag %d %d" % (k, r.randint(-2, 2)), cls)
            if x < 0.75 or a.ty != "d":
                return self.emit("subdiag %d %d %d" % (k, r.randint(0, 1), r.randint(0, 2)), cls)
            return self.emit("inv %d" % k, cls)
        if cls == "link_empty":
            fam = "st" if self.profile == "special" and r.random() < 0.4 else "di"
            i = self.pick(lambda a: a.empty, fam=fam)
            if i is None:
                if fam == "st":
                    self.emit("new %d %s 0 0" % (r.choice(list(H_SPEC)), r.choice("st")))
                else:
                    self.new_valid(dims=[0] * r.choice([1, 2, 3]))
                i = self.pick(lambda a: a.empty, fam=fam)
                if i is None:
                    return False
            if fam == "st":
                k = self.like(P[i], dims=[self.dim(1)] * 2) if r.random() < 0.7 else self.like(P[i])
            else:
                k = self.like(P[i], dims=[self.dim(1, P[i].rank) for _ in P[i].dims]) if r.random() < 0.7 else self.like(P[i])
            if k == i:
                return False
            return self.emit("link %d %d" % (k, i), cls)
        if cls in ("matmul_empty", "matmul_inner"):
            form = r.choice([(2, 1), (2, 2), (1, 2)])
            inner = self.dim(1)
            m, n = self.dim(1), self.dim(1)
            xd = [m, inner] if form[0] == 2 else [inner]
            yd = ([inner, n] if form[1] == 2 else [inner])
            if cls == "matmul_inner":
                bad = inner + r.choice([1, 2, -1]) if inner > 1 else inner + r.choice([1, 2])
                if r.random() < 0.5:
                    xd[-1] = bad
                else:
                    yd[0] = bad
            else:
                which = r.choice(["x", "y", "both"])
                if which in ("x", "both"):
                    xd = [0] * len(xd)
                if which in ("y", "both"):
                    yd = [0] * len(yd)
            hx, hy, hk = r.sample(range(self.nh), 3)
            self.emit("new %d d %d %s" % (hx, r.randint(0, 6), " ".join(map(str, xd))))
            self.emit("new %d d %d %s" % (hy, r.randint(0, 6), " ".join(map(str, yd))))
            kd = [self.dim() for _ in range(form[0] + form[1] - 2)]
            if 0 in kd:
                kd = [0] * len(kd)
            self.emit("new %d d %d %s" % (hk, r.randint(0, 6), " ".join(map(str, kd))))
            return self.emit("matmul %d %d %d" % (hk, hx, hy), cls)
        if cls == "permute_invalid":
            k = self.pick(lambda a: a.rank == 2)
            if k is None:
                return False
            p = r.choice([(0, 0), (1, 1), (2, 0), (0, 2), (-1, 0), (0, -1), (-2, 1), (1, 7), (3, 3), (-1, -1)])
            if P[k].empty and r.random() < 0.5:
                p = r.choice([(0, 1), (1, 0)])
            return self.emit("permute %d %d %d" % ((k,) + p), cls)
        if cls == "view_invalid":
            x = r.random()
            if x < 0.35:
                k = self.pick(lambda a: a.rank == 1 and a.dims[0] >= 2)
                if k is None:
                    return False
                n = P[k].dims[0]
                b = r.randint(1, n - 1); e = r.randint(0, b - 1)
                if e == b - 1 and r.random() < 0.8 and b >= 2:
                    e = r.randint(0, b - 2)
                if e - b + 1 >= 0:
                    return False
                return self.emit("range %d %d %d" % (k, b, e), cls)
            if x < 0.6:
                fam = "st" if self.profile == "special" and r.random() < 0.5 else "di"
                k = self.pick(lambda a: a.rank == 2 and a.dims[0] == a.dims[1] and (fam == "st" or not a.empty), fam=fam)
                if k is None:
                    return False
                n = P[k].dims[0]
                if fam == "di" and r.random() < 0.5:
                    return self.emit("diag %d %d" % (k, r.choice([1, -1]) * (n + r.randint(1, 3))), cls)
                ib, ie = r.choice([(-1, 0), (1, 0), (0, n), (n, n), (2, 1), (0, n + 2)])
                return self.emit("subdiag %d %d %d" % (k, ib, ie), cls)
            k = self.pick(lambda a: a.rank == 1)
            if k is None:
                return False
            n = P[k].dims[0]
            cands = [(-1, -n), (n + 1, 1), (1, n + 1), (2, n), (-n, -1)] + ([(-2, -(n // 2))] if n % 2 == 0 and n else [])
            rc_ = r.choice(cands)
            if rc_[0] * rc_[1] == n and rc_[0] >= 0 and rc_[1] >= 0:
                return False
            return self.emit("reshape %d %d %d" % ((k,) + rc_), cls)
        if cls == "index_oob":
            if not self.bounds:
                return False
            k = self.pick()
            if k is None:
                return False
            a = P[k]
            if a.rank == 1 and r.random() < 0.4:
                n = a.dims[0]
                b, e = r.choice([(-1, 0), (0, n), (n, n), (-2, -1), (0, n + 3), (n, 0)])
                return self.emit("range %d %d %d" % (k, b, e), cls)
            idx = [r.randint(0, max(0, d - 1)) for d in a.dims]
            pos = r.randrange(a.rank)
            idx[pos] = r.choice([-1, a.dims[pos], a.dims[pos] + r.randint(1, 3), -r.randint(2, 5)])
            return self.emit("get %d %s" % (k, " ".join(map(str, idx))), cls)
        # ------------------------------------------------ mismatches inside expressions that are not assignments
        if cls == "reduce_mismatch":
            k = self.pick()
            if k is None:
                return False
            a = P[k]
            i, j = self.operands(a, True)
            boolean = r.random() < 0.3
            fn = r.choice(RED_BOOL) if boolean else r.choice(RED_NUM if a.ty == "d" else ["sum", "product", "minval", "maxval"])
            op = "gt" if boolean else r.choice(["add", "mul"])
            if r.random() < 0.5 or (boolean and a.rank == 1):
                return self.emit("red %s %d %s %d" % (fn, i, op, j), cls)
            dim = r.randrange(a.rank) if r.random() < 0.8 or a.rank == 1 else r.choice([a.rank, a.rank + 1])   # the size test comes first
            return self.emit("redd %s %d %s %d %d" % (fn, i, op, j, dim), cls)
        if cls == "reduce_dim_invalid":
            k = self.pick(lambda a: not a.empty or a.rank == 1)
            if k is None:
                return False
            a = P[k]
            i, j = self.operands(a, a.rank == 1 and r.random() < 0.3)     # rank 1: the dimension argument is tested first
            boolean = r.random() < 0.3 and a.rank > 1
            fn = r.choice(RED_BOOL) if boolean else r.choice(RED_NUM if a.ty == "d" else ["sum", "product", "minval", "maxval"])
            op = "gt" if boolean else r.choice(["add", "mul"])
            cands = [a.rank, a.rank + 1, a.rank + r.randint(2, 40), 2 ** 31 - 1]
            if a.rank == 1 or self.negdim_ok:
                cands += [-1, -1, -r.randint(2, 9), -2 ** 31]
            return self.emit("redd %s %d %s %d %d" % (fn, i, op, j, r.choice(cands)), cls)
        if cls == "loc_mismatch":
            k = self.pick(lambda a: a.rank == 1)
            if k is None:
                self.new_valid(rank=1)
                k = self.pick(lambda a: a.rank == 1)
                if k is None:
                    return False
            i, j = self.operands(P[k], True)
            x = r.random()
            if x < 0.4:
                return self.emit("loc %s %d %s %d" % (r.choice(["minloc", "maxloc"]), i, r.choice(["add", "sub", "mul"]), j), cls)
            if x < 0.7:
                return self.emit("find %d %d" % (i, j), cls)
            return self.emit("dot %d %d" % (i, j), cls)
        if cls == "expand_mismatch":
            x = r.random()
            ty = r.choice("di")
            if x < 0.3:                                   # outer_product(X + Y, Z)
                kx = self.pick(lambda a: a.rank == 1 and a.ty == ty)
                if kx is None:
                    return False
                how = r.choice(["operands", "operands", "target", "empty"])
                i, j = self.operands(P[kx], how == "operands")
                z = self.like(P[kx], dims=[0] if how == "empty" and r.random() < 0.5 else [self.dim(1)])
                if how == "empty" and not P[z].empty:
                    i = j = self.like(P[kx], dims=[0])
                n0, n1 = P[i].dims[0], P[z].dims[0]
                proto = PyArr(ty, [n0, n1], [])
                if how == "target":
                    tgt = self.like(proto, dims=self.other_dims([max(1, n0), max(1, n1)]))
                    if P[tgt].empty:
                        return False
                else:
                    tgt = self.like(proto, dims=r.choice([[0, 0], [n0, n1] if n0 * n1 else [0, 0]]))
                return self.emit("outer %d %d %d %d" % (tgt, i, j, z), cls)
            if x < 0.65:                                  # spread<D>(X + Y, n)
                kx = self.pick(lambda a: a.rank <= 2 and a.ty == ty)
                if kx is None:
                    return False
                a = P[kx]
                D = r.randint(0, a.rank)
                how = r.choice(["operands", "operands", "target", "negative"])
                i, j = self.operands(a, how == "operands")
                n = -r.randint(1, 4) if how == "negative" else self.dim(1, a.rank + 1)
                ed = P[i].dims[:D] + [n] + P[i].dims[D:]
                proto = PyArr(ty, ed, [])
                if how == "target":
                    tgt = self.like(proto, dims=self.other_dims([max(1, d) for d in ed]))
                    if P[tgt].empty:
                        return False
                elif how == "negative":
                    tgt = self.like(proto, dims=[0] * len(ed) if r.random() < 0.6 else [max(1, abs(d)) for d in ed])
                else:
                    tgt = self.like(proto, dims=r.choice([[0] * len(ed), ed if 0 not in ed else [0] * len(ed)]))
                return self.emit("spread %d %d %d %d %d" % (tgt, D, i, j, n), cls)
            if x < 0.85:                                  # diag_vector(X + Y, o)
                kx = self.pick(lambda a: a.rank == 2 and a.ty == ty)
                if kx is None:
                    return False
                i, j = self.operands(P[kx], True)
                return self.emit("diagv %d %d %d" % (i, j, r.randint(-2, 2)), cls)
            kx = self.pick(lambda a: a.rank == 1 and a.ty == ty)
            if kx is None:
                return False
            i, j = self.operands(P[kx], True)
            return self.emit("diagm %d %d" % (i, j), cls)
        if cls == "wherex_mismatch":
            k = self.pick()
            if k is None:
                return False
            a = P[k]
            which = r.choice(["mask", "mask", "rhs", "rhs", "mask-target", "rhs-target"])
            m1, m2 = self.operands(a, which == "mask")
            i, j = self.operands(a, which == "rhs")
            if which == "mask-target":
                m1 = m2 = self.like(a, dims=self.other_dims(a.dims))
            if which == "rhs-target":
                i = j = self.like(a, dims=self.other_dims(a.dims))
            return self.emit("wherex %d %d %d %d %d" % (k, m1, m2, i, j), cls)
        if cls == "eor_mismatch":
            k = self.pick(lambda a: not a.empty or r.random() < 0.2)
            if k is None:
                return False
            a = P[k]
            which = r.choice(["mask", "true", "true", "false", "false", "both"])
            m = self.like(a, dims=self.other_dims(a.dims)) if which == "mask" else self.like(a)
            c_ = self.like(a, dims=self.other_dims(a.dims)) if which in ("true", "both") else self.like(a)
            d_ = self.like(a, dims=self.other_dims(a.dims)) if which in ("false", "both") else self.like(a)
            if m == k:
                return False
            return self.emit("eor %d %d %d %d" % (k, m, c_, d_), cls)
        if cls == "solve_invalid":
            hA, hb = r.sample(range(self.nh), 2)
            n = self.dim(1)
            nonsq = r.random() < 0.5
            ad = [n, n + r.choice([1, 2, -1]) if n > 1 else n + 1] if nonsq else [n, n]
            if nonsq and r.random() < 0.5:
                ad.reverse()
            brank = r.choice([1, 2])
            bn = ad[0] if (nonsq and r.random() < 0.5) else ad[0] + r.choice([1, 2, -1] if ad[0] > 1 else [1, 2])
            bd = [bn] if brank == 1 else [bn, self.dim(1)]
            self.emit("new %d d %d %s" % (hA, r.randint(0, 6), " ".join(map(str, ad))))
            self.emit("new %d d %d %s" % (hb, r.randint(0, 6), " ".join(map(str, bd))))
            return self.emit("solve %d %d" % (hA, hb), cls)
        # ------------------------------------------------ FixedArray / SymmMatrix / TridiagMatrix
        if cls == "special_resize":
            x = r.random()
            ty = r.choice("st")
            bad = r.choice(["%d" % -r.randint(1, 9), "%d %d" % (self.dim(1), self.dim(1) + r.choice([1, 2])),
                            "%d %d" % (-r.randint(1, 4), -r.randint(1, 4)), "%d 0" % self.dim(1), "0 %d" % -r.randint(1, 3)])
            if x < 0.4:
                return self.emit("new %d %s %d %s" % (r.choice(list(H_SPEC)), ty, r.randint(0, 6), bad), cls)
            k = self.pick(fam="st")
            if k is None:
                return False
            return self.emit("resize %d %d %s" % (k, r.randint(0, 6), bad), cls)
        if cls == "special_mismatch":
            k = self.pick(fam="fst")
            if k is None:
                return False
            t = P[k]
            proto = PyArr("d", t.dims, [])
            x = r.random()
            if t.ty in "st" and x < 0.3:
                # element-wise expression mixing special matrices of different sizes
                i = self.like(t, dims=[max(1, t.dims[0])] * 2)
                j = self.like(t, dims=self.other_dims(P[i].dims, square=True))
                if r.random() < 0.5:
                    i, j = j, i
                tgt = r.choice([k, self.like(PyArr("d", P[i].dims, []))])
                return self.emit("asg %d %d %s %d" % (tgt, i, r.choice(["add", "sub", "mul"]), j), cls)
            if t.ty in "st" and x < 0.4:
                i = self.like(t, dims=self.other_dims([max(1, t.dims[0])] * 2, square=True))
                if t.empty or P[i].empty:
                    return False
                return self.emit(r.choice(["cp %d %d", "cadd %d %d"]) % (k, i), cls)
            if t.ty == "f" and x < 0.25:
                # a FixedArray operand next to a dynamic array of another size
                j = self.like(proto, dims=self.other_dims(t.dims))
                tgt = self.like(proto, dims=r.choice([t.dims, [0] * t.rank]))
                return self.emit("asg %d %d %s %d" % (tgt, k, r.choice(["add", "sub", "mul"]), j), cls)
            if t.ty == "f" and x < 0.45:
                which = r.choice(["mask", "rhs"])
                m = self.like(proto, dims=self.other_dims(t.dims)) if which == "mask" else self.like(proto)
                i = self.like(proto, dims=self.other_dims(t.dims)) if which == "rhs" else self.like(proto)
                return self.emit("where %d %d %d" % (k, m, i), cls)
            # a wrongly sized expression of dynamic arrays assigned to the special target
            if t.ty in "st":
                base = [max(1, t.dims[0])] * 2
                od = self.other_dims(base, square=r.random() < 0.5)
                if t.empty:
                    od = self.other_dims(base)
                    if od[0] == od[1]:
                        return False
            else:
                od = self.other_dims(t.dims)
            how = r.choice(["operands", "target", "target"])
            if how == "operands":
                i = self.like(proto, dims=od if not t.empty else [2, 2])
                j = self.like(proto, dims=t.dims if not t.empty else [2, 3])
                if P[i].dims == P[j].dims:
                    return False
                if r.random() < 0.5:
                    i, j = j, i
                return self.emit("asg %d %d %s %d" % (k, i, r.choice(["add", "sub", "mul"]), j), cls)
            i = self.like(proto, dims=od)
            form = r.choice(["asg", "cp", "comp"])
            if form == "asg":
                return self.emit("asg %d %d %s %d" % (k, i, r.choice(["add", "sub", "mul"]), self.like(P[i])), cls)
            if form == "cp":
                return self.emit("cp %d %d" % (k, i), cls)
            return self.emit("%s %d %d" % (r.choice(["cadd", "csub", "cmul"]), k, i), cls)
        # ------------------------------------------------ active arrays
        if cls == "active_mismatch":
            k = self.pick(fam="a")
            if k is None:
                return False
            a = P[k]
            x = r.random()
            if x < 0.2:
                i, j = self.operands(a, True)
                tgt = r.choice([k, i, j, self.like(a, dims=[0] * a.rank)])
                return self.emit("asg %d %d %s %d" % (tgt, i, r.choice(["add", "sub", "mul"]), j), cls)
            if x < 0.35:
                if a.empty:
                    return False
                i = self.like(a, dims=self.other_dims(a.dims))
                if r.random() < 0.5:
                    return self.emit("cp %d %d" % (k, i), cls)
                return self.emit("%s %d %d" % (r.choice(["cadd", "csub", "cmul"]), k, i), cls)
            if x < 0.5:
                which = r.choice(["mask", "rhs"])
                m = self.like(a, dims=self.other_dims(a.dims)) if which == "mask" else self.like(a)
                i = self.like(a, dims=self.other_dims(a.dims)) if which == "rhs" else self.like(a)
                return self.emit("where %d %d %d" % (k, m, i), cls)
            if x < 0.7:
                i, j = self.operands(a, True)
                tgt = self.pick(fam="a")
                return self.emit("reda %d %s %d %s %d" % (tgt, r.choice(RED_NUM), i, r.choice(["add", "mul"]), j), cls)
            kx = self.pick(lambda b: b.rank == 2, fam="a")
            tgt = self.pick(lambda b: b.rank == 1, fam="a")
            if kx is None or tgt is None:
                return False
            m = P[kx]
            if x < 0.9:
                how = r.choice(["operands", "operands", "dim", "target"])
                i, j = self.operands(m, how == "operands")
                dim = r.randrange(2)
                if how == "dim":
                    if m.empty:
                        return False
                    dim = r.choice([2, 3, 17] + ([-1, -2] if self.negdim_ok else []))
                if how == "target":
                    if m.empty:
                        return False
                    tgt = self.like(P[tgt], dims=self.other_dims([m.dims[1 - dim]]))
                    if P[tgt].empty:
                        return False
                return self.emit("redda %d %s %d add %d %d" % (tgt, r.choice(["sum", "product", "minval", "maxval"]), i, j, dim), cls)
            how = r.choice(["operands", "operands", "target"])
            i, j = self.operands(m, how == "operands")
            o = r.randint(-1, 1)
            if how == "target":
                R, C = m.dims
                ln = min(R, C - o) if o >= 0 else min(R + o, C)
                if ln < 0:
                    return False
                tgt = self.like(P[tgt], dims=self.other_dims([ln]))
                if P[tgt].empty:
                    return False
            return self.emit("diagva %d %d %d %d" % (tgt, i, j, o), cls)
        raise RuntimeError(cls)

    # ---------------------------------------------------------------- valid steps
    def valid_(self):
        r = self.rng
        if self.profile == "special" and r.random() < 0.45:
            return self.valid_special()
        if self.profile == "active" and r.random() < 0.6:
            return self.valid_active()
        P = self.pool.a
        x = r.random()
        if x < 0.10 or len([1 for a in P.values() if a.ty in "di"]) < 3:
            return self.new_valid()
        k = self.pick()
        a = P[k]
        if x < 0.14:
            dims = [self.dim(rank=a.rank) for _ in a.dims]
            return self.emit("%s %d %d %s" % (r.choice(["resize", "resized", "resizerm", "resizecm"]), k, r.randint(0, 6), " ".join(map(str, dims))))
        if x < 0.22:
            i = self.like(a); j = self.like(a) if r.random() < 0.7 else k
            tgt = r.choice([k, self.like(a), self.like(a, dims=[0] * a.rank)])
            return self.emit("asg %d %d %s %d" % (tgt, i, r.choice(["add", "sub", "mul", "add"]), j))
        if x < 0.25:
            return self.emit("cp %d %d" % (self.like(a) if r.random() < 0.6 else self.like(a, dims=[0] * a.rank), k))
        if x < 0.30:
            return self.emit("%s %d %d" % (r.choice(["cadd", "csub", "cmul"]), k, self.like(a)))
        if x < 0.34:
            m = self.pick(lambda b: b.dims == a.dims)
            return self.emit("where %d %d %d" % (k, m, self.like(a)))
        if x < 0.38:
            m1, m2 = self.operands(a, False)
            i, j = self.operands(a, False)
            return self.emit("wherex %d %d %d %d %d" % (k, m1, m2, i, j))
        if x < 0.42:
            m = self.like(a)
            if m == k:
                return False
            return self.emit("eor %d %d %d %d" % (k, m, self.like(a), self.like(a)))
        if x < 0.50:
            if a.empty or a.rank > 2:
                return False
            n = prod(a.dims)
            if r.random() < 0.5:
                return self.emit("fill %d %s" % (k, " ".join(str(r.randint(-4, 4)) for _ in range(r.randint(1, n)))))
            items = []
            for _ in range(r.randint(1, 4)):
                h = self.pick(lambda b: b.rank <= a.rank and b is not a)
                items.append("a%d" % h if h is not None and r.random() < 0.7 else str(r.randint(-4, 4)))
            op = "fill %d %s" % (k, " ".join(items))
            if self.pool.clone().line(op).startswith("EXC"):
                return False
            return self.emit(op)
        if x < 0.54:
            k = self.pick(lambda b: b.rank == 2 and b.dims[0] == b.dims[1])
            if k is None:
                return False
            n = P[k].dims[0]
            if r.random() < 0.5 or n == 0:
                return self.emit("diag %d %d" % (k, r.randint(-n, n)))
            ib = r.randint(0, n - 1)
            return self.emit("subdiag %d %d %d" % (k, ib, r.randint(ib, n - 1)))
        if x < 0.58:
            n = r.choice([1, 2, 2, 3, 4])
            k = r.randrange(self.nh)
            perm = list(range(n)); r.shuffle(perm)
            ent = [(r.choice([1, -1]) if perm[i] == j else 0) for i in range(n) for j in range(n)]
            self.emit("new %d d 0 %d %d" % (k, n, n))
            self.emit("fill %d %s" % (k, " ".join(map(str, ent))))
            if r.random() < 0.5:
                return self.emit("inv %d" % k)
            hb = (k + 1) % self.nh
            self.emit("new %d d %d %s" % (hb, r.randint(0, 6), "%d" % n if r.random() < 0.5 else "%d %d" % (n, self.dim(1))))
            return self.emit("solve %d %d" % (k, hb))
        if x < 0.61:
            if a.empty:
                return False
            return self.emit("link %d %d" % (self.like(a, dims=self.other_dims(a.dims)) if r.random() < 0.5 else self.like(a), k))
        if x < 0.66:
            form = r.choice([(2, 1), (2, 2), (1, 2)])
            inner, m, n = self.dim(1), self.dim(1), self.dim(1)
            xd = [m, inner] if form[0] == 2 else [inner]
            yd = [inner, n] if form[1] == 2 else [inner]
            hx, hy, hk = r.sample(range(self.nh), 3)
            self.emit("new %d d %d %s" % (hx, r.randint(0, 6), " ".join(map(str, xd))))
            self.emit("new %d d %d %s" % (hy, r.randint(0, 6), " ".join(map(str, yd))))
            od = ([m] if form == (2, 1) else [n] if form == (1, 2) else [m, n])
            self.emit("new %d d %d %s" % (hk, r.randint(0, 6), " ".join(map(str, od if r.random() < 0.5 else [0] * len(od)))))
            return self.emit("matmul %d %d %d" % (hk, hx, hy))
        if x < 0.68:
            k = self.pick(lambda b: b.rank == 2 and not b.empty)
            if k is None:
                return False
            return self.emit("permute %d %s" % (k, r.choice(["0 1", "1 0"])))
        if x < 0.71:
            if a.empty:
                return False
            return self.emit("get %d %s" % (k, " ".join(str(r.randint(0, d - 1)) for d in a.dims)))
        if x < 0.74:
            k = self.pick(lambda b: b.rank == 1 and not b.empty)
            if k is None:
                return False
            n = P[k].dims[0]
            if r.random() < 0.5:
                b = r.randint(0, n - 1)
                return self.emit("range %d %d %d" % (k, b, r.randint(max(0, b - 1), n - 1)))
            divs = [d for d in range(1, n + 1) if n % d == 0]
            d = r.choice(divs)
            return self.emit("reshape %d %d %d" % (k, d, n // d))
        if x < 0.84:
            # reductions of consistent operands (also empty ones), whole and along a dimension
            i, j = self.operands(a, False)
            boolean = r.random() < 0.3
            fn = r.choice(RED_BOOL) if boolean else r.choice(RED_NUM if a.ty == "d" else ["sum", "product", "minval", "maxval"])
            op = "gt" if boolean else r.choice(["add", "mul"])
            if r.random() < 0.45 or (boolean and a.rank == 1):
                return self.emit("red %s %d %s %d" % (fn, i, op, j))
            return self.emit("redd %s %d %s %d %d" % (fn, i, op, j, r.randrange(a.rank)))
        if x < 0.89:
            k = self.pick(lambda b: b.rank == 1)
            if k is None:
                return False
            i, j = self.operands(P[k], False)
            y = r.random()
            if y < 0.3:
                return self.emit("loc %s %d %s %d" % (r.choice(["minloc", "maxloc"]), i, r.choice(["add", "sub", "mul"]), j))
            if y < 0.5:
                return self.emit("find %d %d" % (i, j))
            if y < 0.7:
                return self.emit("dot %d %d" % (i, j))
            if y < 0.85:
                return self.emit("diagm %d %d" % (i, j))
            z = self.like(P[k], dims=[self.dim(1)])
            n0, n1 = P[i].dims[0], P[z].dims[0]
            if n0 == 0:
                return False
            tgt = self.like(PyArr(P[k].ty, [n0, n1], []), dims=r.choice([[0, 0], [n0, n1]]))
            return self.emit("outer %d %d %d %d" % (tgt, i, j, z))
        if x < 0.94:
            k = self.pick(lambda b: b.rank <= 2)
            if k is None:
                return False
            a = P[k]
            if r.random() < 0.35 and a.rank == 2:
                i, j = self.operands(a, False)
                R, C = a.dims
                return self.emit("diagv %d %d %d" % (i, j, r.randint(-R, C) if R else 0))
            D = r.randint(0, a.rank)
            i, j = self.operands(a, False)
            n = self.dim(0, a.rank + 1)
            ed = a.dims[:D] + [n] + a.dims[D:]
            tgt = self.like(PyArr(a.ty, ed, []), dims=r.choice([[0] * len(ed), ed if 0 not in ed else [0] * len(ed)]))
            return self.emit("spread %d %d %d %d %d" % (tgt, D, i, j, n))
        if x < 0.97:
            return self.emit_order()
        return self.emit("clear %d" % k)

    def valid_special(self):
        r = self.rng
        P = self.pool.a
        x = r.random()
        if x < 0.2 or len([1 for a in P.values() if a.ty in "fst"]) < 2:
            return self.new_valid(ty=r.choice("fsstt"))
        k = self.pick(fam="fst")
        t = P[k]
        proto = PyArr("d", t.dims if not t.empty else [self.dim(1)] * 2, [])
        if x < 0.3 and t.ty in "st":
            n = self.dim()
            return self.emit("resize %d %d %s" % (k, r.randint(0, 6), "%d" % n if r.random() < 0.6 else "%d %d" % (n, n)))
        if x < 0.5:
            i = self.like(proto); j = self.like(proto)
            return self.emit("asg %d %d %s %d" % (k, i, r.choice(["add", "sub", "mul"]), j))
        if x < 0.6:
            if t.ty == "f":
                j = self.like(proto)
                tgt = self.like(proto, dims=r.choice([t.dims, [0] * t.rank]))
                return self.emit("asg %d %d %s %d" % (tgt, k, r.choice(["add", "sub", "mul"]), j))
            i = self.like(t, dims=proto.dims); j = self.like(t, dims=proto.dims)
            tgt = r.choice([k, self.like(proto), self.like(proto, dims=[0, 0])])
            if tgt == k and not t.empty and t.dims != proto.dims:
                return False
            return self.emit("asg %d %d %s %d" % (tgt, i, r.choice(["add", "sub", "mul"]), j))
        if x < 0.7:
            i = self.like(proto)
            return self.emit("%s %d %d" % (r.choice(["cp", "cadd", "csub", "cmul"]) if not t.empty else "cp", k, i))
        if x < 0.78:
            if t.ty == "f":
                return self.emit("where %d %d %d" % (k, self.like(proto), self.like(proto)))
            if t.empty:
                return False
            n = t.dims[0]
            ib = r.randint(0, n - 1)
            return self.emit("subdiag %d %d %d" % (k, ib, r.randint(ib, n - 1)))
        if x < 0.86 and t.ty in "st":
            if t.empty:
                return False
            return self.emit("link %d %d" % (self.like(t, dims=self.other_dims(t.dims, square=True)) if r.random() < 0.5 else self.like(t), k))
        if x < 0.92 and t.ty in "st":
            i = self.like(t)
            if t.empty:
                return False
            return self.emit(r.choice(["cp %d %d", "cadd %d %d", "cmul %d %d"]) % (k, i))
        if x < 0.96 and t.ty in "st":
            return self.emit("clear %d" % k)
        return self.new_valid(ty=r.choice("fst"))

    def valid_active(self):
        r = self.rng
        P = self.pool.a
        x = r.random()
        nact = len([1 for a in P.values() if a.ty == "a"])
        if x < 0.04 or nact < 3:
            return self.new_valid(ty="a")
        k = self.pick(lambda b: not b.empty, fam="a") if r.random() < 0.85 else self.pick(fam="a")
        if k is None:
            k = self.pick(fam="a")
        a = P[k]
        if x < 0.07:
            self.ops.append("rec"); self.exp.append(self.pool.line("rec"))
            return True
        if x < 0.15:
            return self.derived_jacobian()
        if x < 0.18:
            dims = [self.dim(rank=a.rank) for _ in a.dims]
            return self.emit("%s %d %d %s" % (r.choice(["resize", "resized", "resizerm", "resizecm"]), k, r.randint(0, 6), " ".join(map(str, dims))))
        if x < 0.36:
            i = self.like(a); j = self.like(a) if r.random() < 0.7 else k
            tgt = r.choice([k, self.like(a), self.like(a, dims=[0] * a.rank)])
            return self.emit("asg %d %d %s %d" % (tgt, i, r.choice(["add", "sub", "mul", "add"]), j))
        if x < 0.41:
            return self.emit("cp %d %d" % (self.like(a) if r.random() < 0.6 else self.like(a, dims=[0] * a.rank), k))
        if x < 0.48:
            return self.emit("%s %d %d" % (r.choice(["cadd", "csub", "cmul"]), k, self.like(a)))
        if x < 0.54:
            m = self.pick(lambda b: b.dims == a.dims, fam="a")
            return self.emit("where %d %d %d" % (k, m, self.like(a)))
        if x < 0.64:
            i, j = self.operands(a, False)
            tgt = self.pick(fam="a")
            return self.emit("reda %d %s %d %s %d" % (tgt, r.choice(["sum", "product", "minval", "maxval"]), i, r.choice(["add", "mul"]), j))
        if x < 0.74:
            kx = self.pick(lambda b: b.rank == 2, fam="a")
            tg = self.pick(lambda b: b.rank == 1, fam="a")
            if kx is None or tg is None:
                return False
            m = P[kx]
            i, j = self.operands(m, False)
            if r.random() < 0.6:
                dim = r.randrange(2)
                od = [0] if m.empty else [m.dims[1 - dim]]
                tgt = self.like(P[tg], dims=r.choice([od, [0]]))
                return self.emit("redda %d %s %d add %d %d" % (tgt, r.choice(["sum", "product", "minval", "maxval"]), i, j, dim))
            R, C = m.dims
            o = r.randint(-R, C) if R else 0
            ln = min(R, C - o) if o >= 0 else min(R + o, C)
            tgt = self.like(P[tg], dims=r.choice([[max(ln, 0)], [0]]))
            return self.emit("diagva %d %d %d %d" % (tgt, i, j, o))
        if x < 0.97:
            i = self.pick(lambda b: b.inp and not b.empty, fam="a")
            kk = self.pick(lambda b: not b.empty, fam="a")
            if i is None or kk is None:
                return False
            return self.emit("jac %d %d" % (kk, i))
        return self.emit("clear %d" % k)

    def emit_order(self):
        op = "order %d" % self.rng.randint(0, 1)
        self.ops.append(op); self.exp.append("ok")
        return True


def gen_case_b(rng, bounds, want, maxdim=5, negdim_ok=True, profile=None):
    for _attempt in range(300):
        g = GenB(rng, bounds, want, maxdim, negdim_ok, profile)
        g.ops.append("cfg %d" % (1 if bounds else 0)); g.exp.append("cfg")
        for _ in range(rng.randint(3, 5)):
            g.new_valid()
        if g.profile == "special":
            for ty in "fst":
                g.new_valid(ty=ty)
        if g.profile == "active":
            # the inputs of the recording: vectors and matrices of two shapes each, on handles of their own
            n, rr, cc = rng.randint(1, 4), rng.randint(1, 3), rng.randint(1, 3)
            shapes = [[n], [n], [n + rng.choice([1, 2])], [rr, cc], [rr, cc], [cc + 1, rr] if rng.random() < 0.5 else [rr, cc]]
            for h, d in zip(list(H_ACT), shapes):
                g.emit("new %d a %d %s" % (h, rng.randint(0, 6), " ".join(map(str, d))))
            g.ops.append("rec"); g.exp.append(g.pool.line("rec"))
        classes = [c for c in B_CLASSES if (bounds or c != "index_oob") and (g.profile == "active" or c != "active_mismatch")
                   and (g.profile == "special" or c not in SPECIAL_CLASSES)]
        for _ in range(rng.randint(8, 30)):
            for c in classes:
                if g.hit(c):
                    g.misuse(c)
            g.valid()
        if g.profile == "active":
            # a derivative pass over what survives of the recording
            for _ in range(rng.randint(1, 3)):
                g.derived_jacobian()
                i = g.pick(lambda b: b.inp and not b.empty, fam="a")
                kk = g.pick(lambda b: not b.empty, fam="a")
                if i is not None and kk is not None:
                    g.emit("jac %d %d" % (kk, i))
        if any(c == want for _, c in g.inj):
            return g.ops, {"inj": g.inj, "exp": g.exp, "bounds": bounds, "want": want}
    raise RuntimeError("generator cannot place array misuse class " + want)


# ---------------------------------------------------------------------------------------------------------------------
# directed sweeps (every run): each function / rank / form of the new operation kinds with consistent, disagreeing and
# empty operands, and every out-of-range dimension argument
# ---------------------------------------------------------------------------------------------------------------------
def directed_cases_b(bounds, negdim_ok):
    cases = []

    def history(want, ops):
        ops = ["cfg %d" % (1 if bounds else 0)] + ops
        exp = reference_lines(ops, bounds)
        assert None not in exp, (want, [o for o, e in zip(ops, exp) if e is None])
        inj = [(i, want) for i, e in enumerate(exp) if e.startswith("EXC ") and e[4:].split()[0] in DOC_B[want]]
        cases.append((ops, {"inj": inj, "exp": exp, "bounds": bounds, "want": "directed:" + want}))

    shapes = {1: ([3], [4]), 2: ([2, 3], [3, 2]), 3: ([2, 3, 2], [2, 2, 2]), 4: ([2, 2, 3, 2], [2, 2, 2, 2])}
    for ty in "di":
        fns = RED_NUM if ty == "d" else ["sum", "product", "minval", "maxval"]
        for rank, (da, db) in shapes.items():
            ops = ["new 0 %s 1 %s" % (ty, " ".join(map(str, da))), "new 1 %s 2 %s" % (ty, " ".join(map(str, da))),
                   "new 2 %s 3 %s" % (ty, " ".join(map(str, db))), "new 3 %s 0 %s" % (ty, " ".join(["0"] * rank))]
            dims_bad = [rank, rank + 1, 99] + ([-1, -7] if (negdim_ok or rank == 1) else [])
            for fn in fns + RED_BOOL:
                op = "gt" if fn in RED_BOOL else "add"
                ops += ["red %s 0 %s 2" % (fn, op), "red %s 0 %s 1" % (fn, op), "red %s 3 %s 3" % (fn, op), "red %s 3 %s 0" % (fn, op)]
                if fn in RED_BOOL and rank == 1:
                    continue
                for d in range(rank):
                    ops += ["redd %s 2 %s 0 %d" % (fn, op, d), "redd %s 0 %s 1 %d" % (fn, op, d), "redd %s 3 %s 3 %d" % (fn, op, d)]
                for d in dims_bad:
                    ops += ["redd %s 0 %s 1 %d" % (fn, op, d), "redd %s 0 %s 2 %d" % (fn, op, d), "redd %s 3 %s 3 %d" % (fn, op, d)]
                ops += ["red %s 0 %s 1" % (fn, "gt" if fn in RED_BOOL else "mul")]
            history("reduce_mismatch", ops)
            history("reduce_dim_invalid", ops)
        ops = ["new 0 %s 1 3" % ty, "new 1 %s 2 3" % ty, "new 2 %s 3 4" % ty, "new 3 %s 0 0" % ty, "new 4 %s 0 0 0" % ty, "new 5 %s 0 3 4" % ty,
               "new 6 %s 0 0 0 0" % ty, "new 7 %s 5 2 3" % ty]
        for fn in ("minloc", "maxloc"):
            for op in ("add", "sub", "mul"):
                ops += ["loc %s 0 %s 2" % (fn, op), "loc %s 0 %s 1" % (fn, op), "loc %s 3 %s 3" % (fn, op), "loc %s 3 %s 0" % (fn, op)]
        ops += ["find 0 2", "find 2 0", "find 0 1", "find 1 0", "find 3 3", "find 3 0", "dot 0 2", "dot 0 1", "dot 3 3", "dot 0 3"]
        history("loc_mismatch", ops)
        ops = ops[:8]
        ops += ["outer 4 0 2 1", "outer 4 0 1 3", "outer 4 3 3 0", "outer 4 0 1 2", "outer 4 0 1 0", "outer 5 0 1 0", "outer 5 0 1 2", "outer 5 0 2 2"]
        for D in (0, 1):
            ops += ["clear 4", "spread 4 %d 0 2 2" % D, "spread 4 %d 0 1 -2" % D, "spread 4 %d 3 3 -2" % D, "spread 4 %d 0 1 0" % D,
                    "spread 4 %d 0 1 2" % D, "spread 4 %d 0 1 3" % D, "spread 4 %d 0 1 -1" % D, "spread 4 %d 0 2 2" % D, "spread 4 %d 3 3 2" % D]
        for D in (0, 1, 2):
            ops += ["clear 6", "spread 6 %d 7 5 2" % D, "spread 6 %d 7 7 -1" % D, "spread 6 %d 7 7 2" % D, "spread 6 %d 7 7 3" % D, "spread 6 %d 5 7 2" % D]
        for o in range(-4, 6):
            ops += ["diagv 7 7 %d" % o, "diagv 5 5 %d" % o, "diagv 4 4 %d" % o]
        ops += ["diagv 7 5 0", "diagv 5 7 1", "diagm 0 1", "diagm 0 2", "diagm 3 3", "diagm 3 0"]
        history("expand_mismatch", ops)
        ops = ops[:8]
        ops += ["wherex 0 0 1 1 1", "wherex 0 0 2 1 1", "wherex 0 2 2 1 1", "wherex 0 0 1 1 2", "wherex 0 0 1 2 2", "wherex 3 3 3 3 3",
                "wherex 3 0 1 0 1", "wherex 3 3 3 0 1", "wherex 0 3 3 0 1", "wherex 7 7 7 7 5", "wherex 7 7 5 7 7", "wherex 7 7 7 7 7"]
        history("wherex_mismatch", ops)
        ops = ops[:8]
        ops += ["eor 0 1 1 1", "eor 0 2 1 1", "eor 0 1 2 1", "eor 0 1 1 2", "eor 0 1 2 2", "eor 0 1 3 1", "eor 0 1 1 3", "eor 3 3 3 3", "eor 3 0 3 3",
                "eor 3 3 0 3", "fill 1 1 -1 1", "new 0 %s 0 3" % ty, "eor 0 1 2 1", "eor 0 1 1 2", "eor 7 7 7 5", "eor 7 5 7 7", "eor 7 7 5 7"]
        history("eor_mismatch", ops)
    # solve / inv
    ops = ["new 0 d 0 2 2", "fill 0 0 1 -1 0", "new 1 d 1 2", "new 2 d 1 3", "new 3 d 1 2 3", "new 4 d 1 3 2", "new 5 d 0 0 0", "new 6 d 0 0",
           "solve 0 1", "solve 0 2", "solve 0 3", "solve 0 4", "solve 3 1", "solve 3 2", "solve 3 3", "solve 4 1", "solve 4 2", "solve 4 4",
           "solve 0 6", "solve 0 5", "inv 3", "inv 4", "inv 0"]
    history("solve_invalid", ops)
    # negative extents for every rank and form
    ops = []
    for ty in "dia":
        for rank in ((1, 2) if ty == "a" else (1, 2, 3, 4)):
            h = 12 if ty == "a" else 0
            ops.append("new %d %s 1 %s" % (h, ty, " ".join(["2"] * rank)))
            for pos in range(rank):
                for lead in (2, 0):
                    d = [2] * rank
                    d[pos] = -3
                    if pos > 0:
                        d[0] = lead
                    ds = " ".join(map(str, d))
                    ops += ["new %d %s 0 %s" % (h + 1, ty, ds)] + ["%s %d 4 %s" % (f, h, ds) for f in ("resize", "resized", "resizerm", "resizecm")]
            ops.append("resize %d 3 %s" % (h, " ".join(["2"] * rank)))
    history("neg_new", ops)
    history("neg_resize", ops)
    # special targets
    ops = ["new 8 f 1 3", "new 9 f 2 2 3", "new 10 s 1 3", "new 11 t 2 3", "new 0 d 1 3", "new 1 d 2 4", "new 2 d 1 2 3", "new 3 d 2 3 3", "new 4 d 3 3 2",
           "new 5 d 0 0", "new 6 d 0 0 0", "new 7 d 4 2 2"]
    for tgt, good, bad in ((8, 0, 1), (9, 2, 3), (10, 3, 4), (11, 3, 2), (10, 3, 7), (11, 3, 7)):
        ops += ["asg %d %d add %d" % (tgt, good, good), "asg %d %d add %d" % (tgt, good, bad), "asg %d %d mul %d" % (tgt, bad, good),
                "asg %d %d sub %d" % (tgt, bad, bad), "cp %d %d" % (tgt, bad), "cp %d %d" % (tgt, good)]
        ops += ["%s %d %d" % (f, tgt, bad) for f in ("cadd", "csub", "cmul")] + ["cadd %d %d" % (tgt, good)]
        ops += ["asg %d %d add %d" % (tgt, 5 if tgt == 8 else 6, 5 if tgt == 8 else 6), "cp %d %d" % (tgt, 5 if tgt == 8 else 6)]
    ops += ["where 8 0 0", "where 8 1 0", "where 8 0 1", "where 8 5 5", "where 9 2 2", "where 9 3 2", "where 9 2 4", "diag 9 0", "diag 9 1", "subdiag 9 0 0",
            "asg 0 8 add 0", "asg 0 8 add 1", "asg 5 8 mul 1", "asg 5 8 mul 0", "asg 2 9 add 2", "asg 2 9 add 3", "asg 6 9 sub 4",
            "new 8 s 2 2", "new 9 t 3 2", "asg 10 10 add 8", "asg 10 8 add 10", "asg 3 10 add 8", "asg 3 10 add 10", "asg 4 10 add 10", "asg 6 10 mul 8",
            "asg 11 11 sub 9", "asg 11 9 add 11", "asg 3 11 add 9", "asg 3 11 mul 11", "cp 10 8", "cp 8 10", "cp 3 8", "cadd 10 8", "cp 11 9", "cmul 11 9",
            "clear 8", "asg 8 2 add 2", "asg 8 2 add 3", "asg 8 7 add 7", "clear 9", "cp 9 4", "cp 9 6", "cp 9 3",
            "subdiag 10 0 1", "subdiag 10 0 3", "subdiag 10 -1 1", "subdiag 10 2 1", "subdiag 11 1 2", "subdiag 11 1 3",
            "clear 8", "link 10 8", "link 8 10", "link 11 9", "clear 9", "link 11 9", "subdiag 9 0 0"]
    history("special_mismatch", ops)
    ops = ["new 8 s 1 3", "new 9 t 2 2"]
    for bad in ("-1", "-5", "2 3", "3 2", "-1 -1", "-2 -3", "0 -1", "2 0", "0 2"):
        ops += ["new 10 s 0 " + bad, "new 11 t 0 " + bad, "resize 8 1 " + bad, "resize 9 1 " + bad]
    ops += ["resize 8 1 0", "resize 8 2 -1", "resize 8 2 2 2", "resize 9 3 0 0", "resize 9 1 -2", "new 10 s 0 0", "new 11 t 0 0 0", "subdiag 8 0 1", "subdiag 9 0 0"]
    history("special_resize", ops)
    # active arrays
    ops = ["new 12 a 1 3", "new 13 a 2 3", "new 14 a 3 4", "new 15 a 1 2 3", "new 16 a 2 3 2", "new 17 a 3 2 3", "new 18 a 0 0", "new 19 a 0 0 0", "rec"]
    ops += ["asg 18 12 mul 13", "jac 18 12", "jac 18 13"]
    for f in ("add", "sub", "mul"):
        ops += ["asg 18 12 %s 14" % f, "asg 12 12 %s 14" % f, "asg 14 13 %s 12" % f, "asg 19 15 %s 16" % f, "asg 15 15 %s 16" % f]
    ops += ["cp 12 14", "cadd 12 14", "csub 13 14", "cmul 12 14", "cp 15 16", "cmul 15 16", "where 12 14 13", "where 12 13 14", "where 15 16 17", "where 15 17 16",
            "jac 18 12", "jac 18 13", "jac 12 12", "jac 15 15"]
    for fn in RED_NUM:
        ops += ["reda 18 %s 12 add 14" % fn, "reda 18 %s 14 mul 12" % fn, "reda 19 %s 15 add 16" % fn]
    for fn in ("sum", "product", "minval", "maxval"):
        ops += ["reda 18 %s 12 mul 13" % fn, "jac 18 12", "jac 18 13", "redda 18 %s 15 add 16 0" % fn, "redda 18 %s 15 add 17 1" % fn, "jac 18 15", "jac 18 17",
                "redda 18 %s 15 add 17 0" % fn, "jac 18 17", "redda 12 %s 15 add 17 1" % fn, "redda 18 %s 15 add 17 2" % fn, "redda 18 %s 15 add 17 40" % fn]
        if negdim_ok:
            ops += ["redda 18 %s 15 add 17 -1" % fn, "redda 18 %s 16 add 17 -1" % fn]
    ops += ["diagva 18 15 16 0", "diagva 18 15 17 0", "jac 18 15", "diagva 18 15 17 1", "diagva 18 15 17 -1", "diagva 14 15 17 0", "diagva 18 15 17 5", "jac 18 17",
            "new 20 a 0 -2", "new 20 a 0 2 -2", "resize 12 1 -3", "resized 15 1 2 -3", "resizerm 15 1 -2 3", "jac 18 17", "jac 13 13"]
    history("active_mismatch", ops)
    return cases


def build_b(bounds):
    """one translation unit per part of harness/drv_misuse.cpp (MISUSE_PART=0..7), compiled in parallel by vbuild; the stub
    sources carry the hash of the driver, so that the content-keyed object cache follows its edits"""
    src = os.path.join(vbuild.VERIF, "harness", "drv_misuse.cpp")
    h = hashlib.sha256(open(src, "rb").read()).hexdigest()[:16]
    gen = os.path.join(vbuild.WORK, "gen")
    os.makedirs(gen, exist_ok=True)
    drivers = []
    for part in range(NPARTS):
        p = os.path.join(gen, "misuse_p%d_%s.cpp" % (part, h))
        if not os.path.exists(p):
            tmp = p + ".%d.%d.tmp" % (os.getpid(), threading.get_ident())
            with open(tmp, "w") as f:
                f.write("// part %d of %s (sha256 %s)\n#define MISUSE_PART %d\n#include \"%s\"\n" % (part, src, h, part, src))
            os.replace(tmp, p)
        drivers.append(p)
    for fn in os.listdir(gen):                   # stubs of older versions of the driver
        if fn.startswith("misuse_p") and h not in fn and time.time() - os.path.getmtime(os.path.join(gen, fn)) > 3600:
            try:
                os.remove(os.path.join(gen, fn))
            except OSError:
                pass
    defs = ["HAVE_BLAS=1", "HAVE_LAPACK=1"] + (["ADEPT_BOUNDS_CHECKING"] if bounds else [])
    return vbuild.build("misuse", drivers, defines=defs, link=["-llapack", "-lblas"], extra=["-std=c++17"])


NPARTS = 11


def reference_lines(ops, bounds):
    """expected lines from the Python reference (None where the reference cannot be evaluated, e.g. in shrunk histories)"""
    p = PyPool(bounds)
    out = []
    for o in ops:
        w = o.split()
        try:
            if w[0] == "cfg":
                p = PyPool(bounds); out.append("cfg")
            else:
                out.append(p.line(o))
        except Exception:
            out.append(None)
    return out


def keeps_partial_effect(op):
    """failing operations whose partial effect stays (and which therefore stay in the reduced history): `<<` (documented:
    the elements written before the exception stay written) and `where(m) = either_or(c, d)` (two conditional assignments,
    each with its own size test; noted as an observation)"""
    return op.startswith("fill ") or op.startswith("eor ")


def reduced_b(ops, il):
    """failing operations removed (except those with a partial effect)"""
    keep = [i for i, l in enumerate(il[:len(ops)]) if not (l.startswith("EXC ") and not keeps_partial_effect(ops[i]))]
    return [ops[i] for i in keep], keep


def judge_b(exe, ops, meta, il=None, rc=0, err="", rl=None):
    bounds = meta.get("bounds", False)
    if il is None:
        il, rc, err = vcheck.run_impl(exe, [], "\n".join(ops) + "\n")
    if len(il) < len(ops) or rc != 0:
        k = min(len(il), len(ops) - 1)
        return "implementation aborted at op %d `%s` (rc=%s): %s" % (k, ops[k], rc, sanitizer_summary(err)), il
    exp = meta.get("exp") or reference_lines(ops, bounds)
    inj = dict(meta.get("inj", []))
    for i, (o, l, e) in enumerate(zip(ops, il, exp)):
        cls = inj.get(i)
        if l in ("bad-op", "unmodelled", "cfg-mismatch"):
            return "op %d `%s`: the driver answered %r" % (i, o, l), il
        if cls and l.startswith("EXC "):
            name = l[4:].split(" |")[0].split()[0]
            if name not in DOC_B[cls]:
                return "op %d `%s`: misuse class %s raised %r, the manual documents %s" % (i, o, cls, name, "/".join(sorted(DOC_B[cls]))), il
        if cls and not l.startswith("EXC ") and e is not None and e.startswith("EXC "):
            return "op %d `%s`: misuse class %s was not reported: %r (documented: %s)" % (i, o, cls, l[:160], e.split(" |")[0]), il
        m = re.match(r"EXC \S+ rec\+(-?\d+)\+(-?\d+)", l)
        if m and (m.group(1), m.group(2)) != ("0", "0"):
            return ("op %d `%s`: the failed statement pushed %s statement(s) and %s operation(s) on the recording before it raised "
                    "its exception" % (i, o, m.group(1), m.group(2))), il
        if e is not None and l != e:
            return ("op %d `%s`%s: implementation printed %r, the reference semantics written from the manual gives %r" %
                    (i, o, " (injected misuse %s)" % cls if cls else "", l[:200], e[:200])), il
    rops, keep = reduced_b(ops, il)
    if len(rops) != len(ops):
        if rl is None:
            rl, rc2, err2 = vcheck.run_impl(exe, [], "\n".join(rops) + "\n")
            if len(rl) < len(rops) or rc2 != 0:
                return "the history with its failing operations removed aborts: %s" % sanitizer_summary(err2), il
        for j, i in enumerate(keep):
            if rl[j] != il[i]:
                return ("op %d `%s` printed %r; in the same history without the %d failed operations it prints %r: a failed "
                        "operation left a trace" % (i, ops[i], il[i][:160], len(ops) - len(rops), rl[j][:160])), il
    return None, il


def shrink_b(exe, ops, meta, kind, sig=None):
    def fails(sub):
        if not sub or not sub[0].startswith("cfg"):
            return False
        v, _ = judge_b(exe, sub, {"bounds": meta.get("bounds", False)})
        if v is None:
            return False
        if kind == "crash":
            return "aborted" in v and (sig is None or signature_of(v) == sig)
        # (a history that has lost the creation of an operand is not a smaller witness: the driver answers bad-op)
        return "aborted" not in v and "the driver answered" not in v
    return vcheck.ddmin(list(ops), fails, max_tests=250)


# A defect of the pinned tree that this check demonstrates and whose disposition (fix commit or known_findings.json entry)
# is the coordinator's: reported as KNOWN-FINDING, never silently skipped.  See the final report of the C11 builder.
PENDING_FINDINGS = {}     # (F-75, reductions along a negative dimension, was listed here until it was fixed in /repo: 0632fac)


def probe_negdim(ctx, exe, label, bounds):
    """does the tree raise invalid_dimension for a negative dimension argument of a reduction of rank >= 2?  (run alone:
    on the unfixed tree the operation overruns the stack)"""
    ops = ["cfg %d" % (1 if bounds else 0), "new 0 d 1 2 3", "new 1 d 2 2 3", "redd sum 0 add 1 -1"]
    il, rc, err = vcheck.run_impl(exe, [], "\n".join(ops) + "\n")
    if len(il) == len(ops) and rc == 0 and il[-1].startswith("EXC invalid_dimension"):
        return True
    msg = "implementation aborted at op 3 `%s` (rc=%s): %s" % (ops[-1], rc, sanitizer_summary(err))
    sig = signature_of(msg)
    if sig in PENDING_FINDINGS and len(il) == len(ops) - 1:
        line = "KNOWN-FINDING: property=C11 %s" % PENDING_FINDINGS[sig]
        if line not in ctx.known:
            ctx.known.append(line)
        ctx.notes.setdefault("partB", {}).setdefault("pending_findings", {})[sig] = {"witness": ops, "build": label}
        return False
    report_b(ctx, exe, label, ops, {"bounds": bounds, "inj": []}, msg if len(il) < len(ops) else
             "op 3 `%s`: a negative dimension argument was not reported: %r" % (ops[-1], il[-1][:160]), il)
    return False


def report_b(ctx, exe, label, ops, meta, verdict, il):
    ctx.nbad += 1
    if ctx.nbad > 3:
        return
    kind = "crash" if "aborted" in verdict or "stopped" in verdict else "oracle"
    shr = shrink_b(exe, ops, meta, kind, signature_of(verdict) if kind == "crash" else None)
    v2, il2 = judge_b(exe, shr, {"bounds": meta.get("bounds", False)})
    if v2 is None:
        shr, v2, il2 = ops, verdict, il
    obj = {"kind": kind, "part": "B", "build": label, "bounds": meta.get("bounds", False), "ops": shr, "impl": il2, "message": v2,
           "original_length": len(ops)}
    sig = signature_of(v2)
    if sig:
        obj["signature"] = sig
    if sig in PENDING_FINDINGS:
        line = "KNOWN-FINDING: property=C11 %s" % PENDING_FINDINGS[sig]
        if line not in ctx.known:
            ctx.known.append(line)
        ctx.nbad -= 1
        return
    ctx.violation("%s [part B, build %s]" % (v2, label), obj)


def run_cases_b(ctx, exe, label, cases):
    text = "".join("\n".join(ops) + "\n" for ops, _ in cases)
    impl, rc, err = vcheck.run_impl(exe, [], text)
    model = vcheck.run_model("misuse", text)
    pos = 0
    red = []
    for ops, meta in cases:
        il = impl[pos:pos + len(ops)]; pos += len(ops)
        red.append(reduced_b(ops, il) if len(il) == len(ops) else (None, None))
    rtext = "".join("\n".join(r[0]) + "\n" for r in red if r[0] is not None)
    rimpl, rrc, rerr = vcheck.run_impl(exe, [], rtext)
    pos = rpos = 0
    pb = ctx.notes.setdefault("partB", {})
    for key in ("injection_points", "exceptions_seen", "ops", "sizes", "ranks", "kinds", "failed_ops_by_kind"):
        pb.setdefault(key, {})
    for (ops, meta), (rops, keep) in zip(cases, red):
        il, ml = impl[pos:pos + len(ops)], model[pos:pos + len(ops)]
        pos += len(ops)
        if len(il) < len(ops):
            v, il1 = judge_b(exe, ops, meta)
            report_b(ctx, exe, label, ops, meta, v or "implementation stopped (rc=%s): %s" % (rc, sanitizer_summary(err)), il1)
            break
        rl = rimpl[rpos:rpos + len(rops)]
        rpos += len(rops)
        v, _ = judge_b(exe, ops, meta, il=il, rl=rl if len(rl) == len(rops) else None)
        ctx.count_case(("B", label, tuple(ops)), nontrivial=len(rops) < len(ops) or any(l.startswith("EXC") for l in il),
                       sample={"part": "B", "build": label, "want": meta["want"], "ops": ops[:14] + ["..."], "n_ops": len(ops),
                               "injected": meta["inj"][:6]})
        for i, cls in meta["inj"]:
            _bump(pb["injection_points"], cls)
        for o, l in zip(ops, il):
            w0 = o.split()[0]
            _bump(pb["ops"], w0)
            if l.startswith("EXC "):
                _bump(pb["exceptions_seen"], l[4:].split(" |")[0].split()[0])
                _bump(pb["failed_ops_by_kind"], w0)
            for m in re.finditer(r"\d+:([idafst])\[(\d+(?:x\d+)*)\]", l):
                ext = m.group(2).split("x")
                _bump(pb["kinds"], m.group(1))
                _bump(pb["ranks"], "%s%d" % (m.group(1), len(ext)))
                _bump(pb["sizes"], ext[0])
        if v is not None:
            report_b(ctx, exe, label, ops, meta, v, il)
        else:
            d = vcheck.first_diff(il, ml)
            if d is not None:
                ctx.cov["disagreements_checked"] += 1
                if len(ctx.pending) < 2:
                    ctx.pending.append({"kind": "correspondence", "part": "B", "build": label, "ops": ops,
                                        "correspondence": "AdeptModel/Misuse.lean <-> Array misuse paths",
                                        "first_difference": {"index": d, "op": ops[d], "impl": il[d], "model": ml[d] if d < len(ml) else None}})
    ctx.cov["traces_validated_against_impl"] += len(cases)
